"""What MANIFEST.json claims, per property (single source for tools_gen_manifest.py)."""

T = "contract-based deductive verification (VCs from the Python AST of the real functions, z3/cvc5) + run-time contracts over a bounded domain as stand-in"

CLAIMS = {
    "C01": dict(category="other", technique=T, text="Obligations on the functions the eager path factors through (codes, kernels, dispatch); the end-to-end postcondition result == G(NumPy SPEC) is a bounded run-time contract on groupby_reduce over an enumerated domain, labelled bounded and not counted as proved."),
    "C02": dict(category="other", technique=T, text="Obligations on combine / tree / plan functions; chunked == eager is a bounded run-time contract over chunkings of short arrays under every strategy and reindex mode."),
    "C03": dict(category="other", technique=T, text="Tree-builder obligations (ordered partition refinement for every split_every and block count) and purity obligations; order/scheduler independence of whole graphs is a bounded stand-in with an in-check topological evaluator."),
    "C04": dict(category="other", technique=T, text="Monoid-law obligations over the blueprints returned by the real _initialize_aggregation, for all values; execution of blueprints (incl. user-defined Aggregation objects) is a bounded stand-in over all splits of small multisets."),
    "C05": dict(category="other", technique=T, text="Codes / mask / user-fill / reindex obligations; the slot-by-slot contract of groupby_reduce is a bounded stand-in."),
    "C06": dict(category="other", technique=T, text="Block-order and global-index obligations on the tree builder and arg-reduction plumbing; end-to-end contract bounded over all chunkings of short arrays with ties and NaNs."),
    "C07": dict(category="other", technique=T, text="pandas.cut-equivalence of the digitize branch and injectivity of the raveled tuple code as pointwise VCs over all reals; end-to-end contract bounded."),
    "C08": dict(category="other", technique=T, text="Offset-label injectivity and axis bookkeeping obligations; slice independence of the whole call bounded against the 1-D call per slice."),
    "C09": dict(category="other", technique=T, text="Tree / block-subset obligations proved; find_group_cohorts checked exhaustively up to a stated size (bounded, not proof) plus dependency-closure and provenance contracts on unexecuted graphs."),
    "C10": dict(category="other", technique=T, text="Obligations on shortcuts / scan operator; the contract of groupby_scan (per-group NumPy scans, bfill = mirrored ffill) is a bounded stand-in over all chunkings."),
    "C11": dict(category="other", technique="complete enumeration of the finite dtype configuration space of the real _initialize_aggregation against a table written from the property + bounded run-time contract for metadata", text="dtype table decided by complete enumeration (a loop-free harness over the full finite domain of numeric dtypes); announced-vs-computed dtype/shape/chunks/array type and bool/datetime round trips are a bounded run-time contract."),
    "C12": dict(category="other", technique=T, text="Laziness use-site obligations on the real source; evaluation counting on enumerated API calls (groupby_reduce, groupby_scan, xarray_reduce) is a bounded stand-in."),
    "C13": dict(category="other", technique=T, text="Frame (write-site) and purity obligations on functions reachable from graph callables; the instrumented executor (read-only inputs, re-execution, cloudpickle round trip) is a bounded stand-in."),
    "C14": dict(category="other", technique=T, text="Frame, cache-purity and token-coverage obligations; histories and co-computation pairs are bounded stand-ins."),
    "C15": dict(category="exploration", technique="bounded run-time contract against native xarray groupby (no contract within reach of the VC generator expresses the main claim)", text="Equivalence with xarray's own groupby is decided only by a bounded run-time contract over generated DataArrays/Datasets; helper obligations, where proved, do not carry the claim."),
    "C16": dict(category="other", technique=T, text="Sort / permutation obligations; the sort contract of the whole call is a bounded stand-in over int/float/str labels and all strategies."),
    "C17": dict(category="other", technique=T, text="Loop-invariant obligations on the real chunk-planning loops (positivity, sum, run-boundary alignment, forced labels); helpers' end-to-end postconditions bounded-exhaustive up to a stated size."),
    "C18": dict(category="other", technique=T, text="Index-bound and interpolation obligations on the quantile kernel; end-to-end contract against numpy.quantile bounded."),
    "C19": dict(category="other", technique=T, text="Decision-table, exception-type and call-site signature obligations on the validation layer; the argument-cell sweep is a bounded stand-in."),
    "C20": dict(category="other", technique=T, text="Sentinel (infinity) and accumulation-dtype obligations on the kernels; numeric fidelity of the whole call bounded; 'floating-point accuracy' of var/std is outside the family and only compared numerically."),
}

NOT_APPLICABLE = {}
