"""What MANIFEST.json claims, per property (single source for tools_gen_manifest.py)."""

CLAIMS = {
    "C01": dict(category="other", engine="pyvc+rtc", technique="contract-based deductive verification (AST->z3 VCs on kernels/codes) + bounded run-time contract on groupby_reduce",
                text="Proof obligations on the functions the eager path factors through; the end-to-end postcondition result == G(NumPy SPEC) is a bounded run-time contract over an enumerated domain, labelled bounded."),
    "C02": dict(category="other", engine="pyvc+rtc", technique="contract-based deductive verification (homomorphism/tree/plan obligations) + bounded run-time contract chunked == eager",
                text="Obligations on combine/tree/plan functions; end-to-end chunked == eager is a bounded run-time contract over all chunkings of short arrays."),
}

_ALL = ["C%02d" % i for i in range(1, 21)]
NOT_APPLICABLE = {p: "check not built yet (work in progress; see DESIGN.md §8 build order)" for p in _ALL if p not in CLAIMS}
