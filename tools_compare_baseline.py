#!/usr/bin/env python3
"""Compare a junit xml of the repo test-suite with /root/.vp/BASELINE.json stable_pass list."""
import json, sys, xml.etree.ElementTree as ET
base = json.load(open('/root/.vp/BASELINE.json'))
sp = base['stable_pass']
if isinstance(sp, str):
    import ast; sp = ast.literal_eval(sp)
sp = set(sp)
tree = ET.parse(sys.argv[1])
status = {}
for tc in tree.iter('testcase'):
    tid = f"{tc.get('classname')}::{tc.get('name')}"
    st = 'pass'
    for ch in tc:
        if ch.tag in ('failure', 'error'): st = 'fail'
        elif ch.tag == 'skipped': st = 'skip'
    status[tid] = st if status.get(tid) != 'fail' else 'fail'
missing = [t for t in sp if status.get(t) != 'pass']
print('baseline stable passes:', len(sp), 'now passing:', len(sp) - len(missing), 'not passing:', len(missing))
for t in sorted(missing)[:40]: print('  ', t, status.get(t))
