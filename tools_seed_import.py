#!/usr/bin/env python3
"""Import a seeded change delivered by a sub-agent into /verif/seeded/<id>/ after it was confirmed.

usage: tools_seed_import.py <PID> <slug> <src-dir> --demo-with N --demo-without N --suite "<text>" --caught-by "C02:bounded C02.rtc..." [--missed-by ...]
Nothing is applied to /repo by this tool.
"""
import argparse
import json
import os
import shutil

ap = argparse.ArgumentParser()
ap.add_argument("pid")
ap.add_argument("slug")
ap.add_argument("src")
ap.add_argument("--demo-with", type=int, required=True)
ap.add_argument("--demo-without", type=int, required=True)
ap.add_argument("--suite", required=True)
ap.add_argument("--caught-by", action="append", default=[])
ap.add_argument("--missed-by", action="append", default=[])
ap.add_argument("--note", default="")
a = ap.parse_args()
root = os.path.dirname(os.path.abspath(__file__))
dst = os.path.join(root, "seeded", f"{a.pid}-{a.slug}")
os.makedirs(dst, exist_ok=True)
shutil.copy(os.path.join(a.src, "patch.diff"), os.path.join(dst, "patch.diff"))
shutil.copy(os.path.join(a.src, "demo.py"), os.path.join(dst, "demo.py"))
meta = json.load(open(os.path.join(a.src, "meta.json")))
meta["id"] = f"{a.pid}-{a.slug}"
meta["confirmed_by_coordinator"] = {
    "demo_exit_with_change": a.demo_with,
    "demo_exit_without_change": a.demo_without,
    "test_suite_with_change": a.suite,
    "caught_by": a.caught_by,
    "missed_by": a.missed_by,
    "note": a.note,
}
json.dump(meta, open(os.path.join(dst, "meta.json"), "w"), indent=1)
print("wrote", dst)
