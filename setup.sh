#!/bin/sh
# Build the overlay venv (python 3.12 of /venv + z3/cvc5/jsonschema from the offline wheelhouse).
# Offline, idempotent. The venv is git-ignored; checks call it through ./check.
set -e
cd "$(dirname "$0")"
V=.venv
if [ ! -x "$V/bin/python" ] || ! "$V/bin/python" -c "import z3, cvc5, jsonschema, flox, numpy" >/dev/null 2>&1; then
  rm -rf "$V"
  /venv/bin/python -m venv "$V"
  PIP_NO_INDEX=1 "$V/bin/pip" install -q --no-index --find-links /opt/veriftools/wheels z3-solver cvc5 jsonschema crosshair-tool deal icontract
  SP=$("$V/bin/python" -c "import sysconfig; print(sysconfig.get_paths()['purelib'])")
  echo "import site; site.addsitedir('/venv/lib/python3.12/site-packages')" > "$SP/_venv_overlay.pth"
fi
"$V/bin/python" -c "import z3, cvc5, jsonschema, flox, numpy, dask; print('setup ok: z3', z3.get_version_string(), 'flox from', flox.__file__)"
