"""PyVC — a verification-condition generator for a subset of Python, run on the real source of /repo/flox.

The function under contract is located in the working-tree file by qualified name (``ast.parse`` on every
run); its body is executed symbolically path by path under a sidecar contract.  Obligations are generated at
``assert`` statements, at subscripts / primitive calls (preconditions of the modelled primitives), at calls of
in-repo functions (their ``requires``), at loop heads (invariant holds on entry / is preserved) and at every
``return`` (``ensures``).  Each obligation is one solver query: axioms ∧ path condition ∧ ¬goal, z3 first and
cvc5 for z3's unknowns.

Semantics assumed (DESIGN.md §2.3): Python ints are mathematical; sequences (tuples, lists, 1-D integer numpy
arrays) are (length, index->value) pairs with value semantics; list.append is a functional update of the
variable; evaluation is left to right; names resolve statically.
What the extraction drops: annotations, docstrings, logger.* calls, ``cast``; decorators are dropped (their
soundness is a separate obligation).
"""

from __future__ import annotations

import ast
import itertools
import os
import subprocess
import tempfile
import time

import z3

from ..core import DISCHARGED, ERROR, UNDECIDED, VIOLATED, Obligation

I = z3.IntSort()
B = z3.BoolSort()


class Unsupported(Exception):
    pass


class ContractError(Exception):
    pass


_fresh_counter = itertools.count()


def fresh(prefix, sort=I):
    return z3.Const(f"{prefix}!{next(_fresh_counter)}", sort)


def is_sym(x):
    return isinstance(x, z3.ExprRef)


def to_z3(x):
    if isinstance(x, bool):
        return z3.BoolVal(x)
    if isinstance(x, int):
        return z3.IntVal(x)
    if isinstance(x, float):
        return z3.RealVal(x)
    if is_sym(x):
        return x
    raise Unsupported(f"cannot turn {x!r} into a term")


def zbool(x):
    """Truthiness of a value as a z3 Bool."""
    if isinstance(x, bool):
        return z3.BoolVal(x)
    if isinstance(x, z3.BoolRef):
        return x
    if isinstance(x, z3.ArithRef):
        return x != 0
    if isinstance(x, int):
        return z3.BoolVal(x != 0)
    if x is None:
        return z3.BoolVal(False)
    if isinstance(x, (tuple, list, str, dict)):
        return z3.BoolVal(len(x) > 0)
    if isinstance(x, SSeq):
        return x.length > 0
    if hasattr(x, "truth"):
        return x.truth
    raise Unsupported(f"truthiness of {type(x).__name__}")


class SSeq:
    """A sequence of symbolic length: (length term, index -> element term).  kind: 'array' | 'list' | 'tuple'."""

    def __init__(self, length, fn, kind="array", elem_sort=I, name=None):
        self.length = to_z3(length) if not is_sym(length) else length
        self.fn = fn
        self.kind = kind
        self.elem_sort = elem_sort
        self.name = name or f"seq{next(_fresh_counter)}"
        self._psum = None

    def at(self, i):
        return self.fn(to_z3(i))

    @staticmethod
    def from_array(length, arr, kind="list", name=None):
        return SSeq(length, lambda i, arr=arr: z3.Select(arr, i), kind=kind, name=name)

    def map(self, f, elem_sort=None):
        return SSeq(self.length, lambda i: f(self.fn(i)), kind="array", elem_sort=(self.elem_sort if elem_sort is None else elem_sort))

    def zipwith(self, other, f, elem_sort=None):
        return SSeq(self.length, lambda i: f(self.fn(i), other.fn(i)), kind="array", elem_sort=(self.elem_sort if elem_sort is None else elem_sort))


class Signal:
    NORMAL, RETURN, CONTINUE, BREAK, RAISE = range(5)


class State:
    def __init__(self, vars=None, pc=None):
        self.vars = dict(vars or {})
        self.pc = list(pc or [])
        self.ghost = {}

    def fork(self):
        s = State(self.vars, self.pc)
        s.ghost = dict(self.ghost)
        return s

    def assume(self, f):
        self.pc.append(f)


class Solver:
    """z3 first; cvc5 (CLI) on unknown.  One query per obligation, all axioms as hypotheses."""

    def __init__(self, timeout_ms=15000):
        self.timeout_ms = timeout_ms
        self.retry_alone = os.environ.get("VERIF_NO_RETRY") is None
        self.stats = {"z3": 0.0, "cvc5": 0.0, "queries": 0}

    def check(self, hyps, goal=None, timeout_ms=None, fallback=True):
        """Return ('unsat'|'sat'|'unknown', model or None, backend, seconds, text). goal None => satisfiability of hyps."""
        s = z3.Solver()
        s.set("timeout", timeout_ms or self.timeout_ms)
        for h in hyps:
            s.add(h)
        if goal is not None:
            s.add(z3.Not(goal))
        t0 = time.time()
        r = s.check()
        dt = time.time() - t0
        self.stats["z3"] += dt
        self.stats["queries"] += 1
        if r == z3.unsat:
            return "unsat", None, "z3", dt, ""
        if r == z3.sat:
            return "sat", s.model(), "z3", dt, ""
        if not fallback:
            return "unknown", None, "z3", dt, s.reason_unknown()
        if self.retry_alone:
            # verdicts must not flip when all cores are busy or because of an unlucky search order: two more attempts
            # with a doubled budget and different random seeds (instantiation order is seed-sensitive)
            for seed in (11, 23):
                s2 = z3.Solver()
                s2.set("timeout", 2 * (timeout_ms or self.timeout_ms))
                s2.set("random_seed", seed)
                for h in hyps:
                    s2.add(h)
                if goal is not None:
                    s2.add(z3.Not(goal))
                t1 = time.time()
                r = s2.check()
                dt += time.time() - t1
                self.stats["z3"] += time.time() - t1
                if r == z3.unsat:
                    return "unsat", None, "z3", dt, ""
                if r == z3.sat:
                    return "sat", s2.model(), "z3", dt, ""
        # unknown: try cvc5
        t1 = time.time()
        res = self._cvc5(s.to_smt2())
        dt2 = time.time() - t1
        self.stats["cvc5"] += dt2
        if res == "unsat":
            return "unsat", None, "cvc5", dt + dt2, ""
        return "unknown", None, "z3+cvc5", dt + dt2, f"z3: {s.reason_unknown()}; cvc5: {res}"

    def _cvc5(self, smt2, timeout_s=20):
        exe = "/usr/bin/cvc5"
        if not os.path.exists(exe):
            return "no-cvc5"
        with tempfile.NamedTemporaryFile("w", suffix=".smt2", delete=False) as f:
            f.write("(set-logic ALL)\n" + smt2)
            path = f.name
        try:
            out = subprocess.run([exe, "--strings-exp", "--tlimit", str(timeout_s * 1000), path], capture_output=True, text=True, timeout=timeout_s + 5)
            first = (out.stdout.strip().splitlines() or ["?"])[0]
            return first
        except Exception as e:  # noqa
            return f"error:{type(e).__name__}"
        finally:
            os.unlink(path)


def _contains(t, v):
    if t.eq(v):
        return True
    return any(_contains(c, v) for c in t.children())


def auto_patterns(body, v, limit=4):
    """Alternative single-term triggers for a one-variable quantifier: every smallest application of an
    uninterpreted function / array select that mentions the bound variable (if-then-else free)."""
    found = []
    seen = set()

    def ok_pattern(t):
        def bad(x):
            if z3.is_app(x) and x.decl().kind() in (z3.Z3_OP_ITE, z3.Z3_OP_AND, z3.Z3_OP_OR, z3.Z3_OP_NOT, z3.Z3_OP_IMPLIES, z3.Z3_OP_EQ, z3.Z3_OP_LE, z3.Z3_OP_LT, z3.Z3_OP_GE, z3.Z3_OP_GT, z3.Z3_OP_DISTINCT):
                return True
            return any(bad(c) for c in x.children())

        return not bad(t)

    def walk(t):
        if z3.is_quantifier(t):
            return
        if z3.is_app(t):
            kids = t.children()
            k = t.decl().kind()
            is_uf = k in (z3.Z3_OP_UNINTERPRETED, z3.Z3_OP_SELECT) and len(kids) > 0
            inner = False
            for c in kids:
                before = len(found)
                walk(c)
                inner = inner or len(found) > before
            if is_uf and not inner and _contains(t, v) and ok_pattern(t):
                key = t.sexpr()
                if key not in seen:
                    seen.add(key)
                    found.append(t)

    walk(body)
    return found[:limit]


def forall(vars_, body, patterns=None):
    if not isinstance(vars_, (list, tuple)):
        vars_ = [vars_]
    if patterns is None and len(vars_) == 1:
        try:
            patterns = auto_patterns(body, vars_[0]) or None
        except Exception:
            patterns = None
    if patterns:
        try:
            return z3.ForAll(list(vars_), body, patterns=patterns)
        except z3.Z3Exception:
            pass  # e.g. an if-then-else inside the pattern term: let the solver choose
    return z3.ForAll(list(vars_), body)


def in_range(i, lo, hi):
    return z3.And(to_z3(lo) <= i, i < to_z3(hi))


class Contract:
    """Sidecar contract of one function. Subclass / instantiate with callables:
    params(ex) -> dict name -> value ; requires(ex, env) -> list of formulas ;
    invariants: dict loop_ordinal -> f(ex, env, k) -> list[(name, formula)] ; modifies: dict loop_ordinal -> [var names]
    ensures(ex, env, result) -> list[(name, formula)] ; raises: allowed exception type names ;
    """

    def __init__(self, qualname, file, prefix, params, requires=None, ensures=None, invariants=None, loop_havoc=None, raises=(), serves=(), decreases=None, exc_ensures=None, lemmas=None, replay=None, assumed=()):
        self.qualname = qualname
        self.file = file
        self.prefix = prefix
        self.params = params
        self.requires = requires or (lambda ex, env: [])
        self.ensures = ensures or (lambda ex, env, res: [])
        self.invariants = invariants or {}
        self.loop_havoc = loop_havoc or {}
        self.raises = tuple(raises)
        self.serves = tuple(serves)
        self.exc_ensures = exc_ensures
        self.lemmas = lemmas
        self.cuts = {}
        self.replay = replay
        self.assumed = tuple(assumed)


class Executor:
    def __init__(self, repo, contract: Contract, primitives, callee_contracts=None, solver=None, module_env=None):
        self.repo = repo
        self.contract = contract
        self.prims = primitives
        self.callees = callee_contracts or {}
        self.solver = solver or Solver()
        self.axioms = []
        self.obligations = []
        self.counter = {}
        self.module_env = module_env or {}
        self.func_ast = None
        self.loop_ordinals = {}
        self.path_count = 0
        self.returns = []
        self.src_lines = None

    # ---------------------------------------------------------------- extraction
    def load(self):
        path = os.path.join(self.repo, self.contract.file)
        if not os.path.exists(path):
            raise Unsupported(f"file {path} not found")
        src = open(path).read()
        tree = ast.parse(src)
        self.src_lines = src.splitlines()
        self.module_tree = tree
        parts = self.contract.qualname.split(".")
        node = tree
        for p in parts:
            found = None
            for ch in ast.iter_child_nodes(node):
                if isinstance(ch, (ast.FunctionDef, ast.ClassDef)) and ch.name == p:
                    found = ch  # the last definition wins (overloads come first)
            if found is None:
                raise Unsupported(f"function {self.contract.qualname} not found in {self.contract.file}")
            node = found
        self.func_ast = node
        n = 0
        for sub in ast.walk(node):
            if isinstance(sub, (ast.For, ast.While)):
                pass
        # loop ordinals in source order
        loops = [s for s in ast.walk(node) if isinstance(s, ast.For)]
        loops.sort(key=lambda s: (s.lineno, s.col_offset))
        self.loop_ordinals = {id(s): i + 1 for i, s in enumerate(loops)}
        return node

    # ---------------------------------------------------------------- obligations
    def _name(self, kind, node=None):
        """Stable obligation ids: kind + the source text of the expression + occurrence number of that text
        (independent of line numbers and of unrelated edits)."""
        key = kind
        if node is not None:
            try:
                txt = ast.unparse(node)
            except Exception:
                txt = "?"
            key = f"{kind}[{txt[:60]}]"
        self.counter[key] = self.counter.get(key, 0) + 1
        return f"{self.contract.prefix}.{key}#{self.counter[key]}"

    def oblige(self, state, goal, name, formula_text, kind="vc"):
        """Discharge `goal` under axioms + path condition."""
        goal = zbool(goal) if not isinstance(goal, z3.BoolRef) else goal
        hyps = self.axioms + state.pc
        simp = z3.simplify(goal)
        if z3.is_true(simp):
            status, model, backend, secs, text = "unsat", None, "z3", 0.0, ""
        else:
            status, model, backend, secs, text = self.solver.check(hyps, goal)
        ob = Obligation(name=name, function=f"flox.{self.contract.file[5:-3].replace('/', '.')}.{self.contract.qualname}", status={"unsat": DISCHARGED, "sat": VIOLATED, "unknown": UNDECIDED}[status], backend=backend, seconds=secs, formula=formula_text, detail=text, kind=kind)
        if status == "sat":
            model = self.smaller_model(hyps, goal, model)
            ob.model = self.extract_model(model, state)
            ob.detail = "counter-model: " + str(ob.model)[:1500]
        self.obligations.append(ob)
        return status == "unsat"

    def _param_lengths(self, val, acc):
        if isinstance(val, SSeq):
            if is_sym(val.length):
                acc.append(val.length)
        elif isinstance(val, (list, tuple)):
            for v in val:
                self._param_lengths(v, acc)
        elif isinstance(val, dict):
            for v in val.values():
                self._param_lengths(v, acc)
        elif hasattr(val, "fields") and isinstance(getattr(val, "fields"), dict):
            for v in val.fields.values():
                self._param_lengths(v, acc)

    def smaller_model(self, hyps, goal, model):
        """A violated obligation is reported with the smallest counter-model found quickly (replayable on the real code):
        retry with every parameter length bounded by 3, then 6; keep the first model otherwise."""
        lens = []
        self._param_lengths(self.param_values, lens)
        if not lens:
            return model
        for bound in (3, 6):
            st, m, *_ = self.solver.check(hyps + [ln <= bound for ln in lens], goal, timeout_ms=3000, fallback=False)
            if st == "sat":
                return m
        return model

    def extract_model(self, model, state):
        out = {}
        for pname, val in self.param_values.items():
            out[pname] = self.concretise(model, val)
        return out

    def concretise(self, model, val, maxlen=12):
        if isinstance(val, SSeq):
            n = model.eval(val.length, model_completion=True)
            try:
                n = n.as_long()
            except Exception:
                return None
            if n < 0 or n > 200:
                return {"len": n}
            return [self.concretise(model, val.at(i)) for i in range(n)]
        if is_sym(val):
            v = model.eval(val, model_completion=True)
            if z3.is_int_value(v):
                return v.as_long()
            if z3.is_true(v):
                return True
            if z3.is_false(v):
                return False
            if z3.is_rational_value(v):
                return float(v.as_fraction())
            if z3.is_string_value(v):
                return v.as_string()
            return str(v)
        if isinstance(val, (list, tuple)):
            return [self.concretise(model, v) for v in val]
        if isinstance(val, dict):
            return {k: self.concretise(model, v) for k, v in val.items()}
        if isinstance(val, (int, str, bool, float)) or val is None:
            return val
        if hasattr(val, "fields") and hasattr(val, "kind"):
            return {"__record__": val.kind, **{k: self.concretise(model, v) for k, v in val.fields.items()}}
        return repr(val)

    def feasible(self, state, cond=None):
        # path pruning only: a quick query, "unknown" counts as feasible (sound: more paths, never fewer)
        hyps = self.axioms + state.pc + ([cond] if cond is not None else [])
        status, *_ = self.solver.check(hyps, None, timeout_ms=800, fallback=False)
        return status != "unsat"

    # ---------------------------------------------------------------- running
    def run(self):
        t0 = time.time()
        try:
            fn = self.load()
            st = State()
            self.param_values = self.contract.params(self)
            argnames = [a.arg for a in fn.args.posonlyargs + fn.args.args + fn.args.kwonlyargs]
            if fn.args.vararg is not None:
                argnames.append(fn.args.vararg.arg)
            for a in argnames:
                if a not in self.param_values:
                    raise ContractError(f"contract of {self.contract.qualname} gives no value for parameter {a!r}")
            st.vars.update(self.param_values)
            self.entry = dict(self.param_values)
            for r in self.contract.requires(self, st.vars):
                st.assume(r)
            if self.contract.lemmas is not None:
                for lem in self.contract.lemmas(self, st.vars):
                    self.prove_induction(st, **lem)
            # vacuity guard: requires must be satisfiable (cover), and a canary false goal must be refuted
            sat = self.feasible(st)
            self.obligations.append(Obligation(name=f"{self.contract.prefix}.cover.requires", function=self.contract.qualname, status=DISCHARGED if sat else VIOLATED, backend="z3", kind="cover", formula="requires is satisfiable", detail="" if sat else "the precondition is contradictory"))
            status, *_ = self.solver.check(self.axioms + st.pc, z3.BoolVal(False), timeout_ms=3000, fallback=False)
            self.obligations.append(Obligation(name=f"{self.contract.prefix}.canary.false", function=self.contract.qualname, status=DISCHARGED if status != "unsat" else VIOLATED, backend="z3", kind="canary", formula="a false goal must not be provable from the hypotheses", detail=""))
            outs = self.exec_block(fn.body, st)
            for s, sig, val in outs:
                if sig == Signal.NORMAL:
                    self.at_return(s, None, fn)
                elif sig == Signal.RETURN:
                    self.at_return(s, val, fn)
                elif sig == Signal.RAISE:
                    self.at_raise(s, val)
                else:
                    raise Unsupported("continue/break escaped the function")
            if getattr(self, "_return_probes", 0):
                live = getattr(self, "_live_return", False)
                self.obligations.append(Obligation(name=f"{self.contract.prefix}.canary.return", function=self.contract.qualname, status=DISCHARGED if live else VIOLATED, backend="z3", kind="canary",
                                                   formula="a false goal must not be provable at every return probed", detail="" if live else "the assumptions collected along every probed returning path are contradictory"))
        except (Unsupported, ContractError) as e:
            if os.environ.get("VERIF_DEBUG"):
                import traceback

                traceback.print_exc()
            self.obligations.append(Obligation(name=f"{self.contract.prefix}.extract", function=self.contract.qualname, status=ERROR, backend="pyvc", formula="symbolic execution of the function body", detail=f"{type(e).__name__}: {e}"))
        except Exception as e:  # an engine bug must never look like a verdict
            if os.environ.get("VERIF_DEBUG"):
                import traceback

                traceback.print_exc()
            self.obligations.append(Obligation(name=f"{self.contract.prefix}.extract", function=self.contract.qualname, status=ERROR, backend="pyvc", formula="symbolic execution of the function body", detail=f"engine error {type(e).__name__}: {e}"))
        self.seconds = time.time() - t0
        return self.obligations

    def prove_induction(self, st, name, k, lo, hi, prop, direction="up", patterns=None, generalize=None, guard=None):
        """Lemma by induction on k over [lo, hi].
        up:   base prop(lo); step lo <= k < hi and prop(k) ==> prop(k+1)
        down: base prop(hi); step lo <= k < hi and prop(k+1) ==> prop(k)
        Once both obligations are discharged, forall k in [lo, hi]. prop(k) is assumed on the path."""
        lo, hi = to_z3(lo), to_z3(hi)
        base_at = lo if direction == "up" else hi
        s1 = st.fork()
        if guard is not None:
            s1.assume(guard)
        ok1 = self.oblige(s1, z3.Implies(lo <= hi, prop(base_at)), f"{self.contract.prefix}.lemma.{name}.base", f"lemma {name}: base case k = {base_at}")
        s2 = st.fork()
        if guard is not None:
            s2.assume(guard)
        if direction == "up":
            s2.assume(z3.And(k >= lo, k < hi, prop(k)))
            goal = prop(k + 1)
        else:
            s2.assume(z3.And(k >= lo, k < hi, prop(k + 1)))
            goal = prop(k)
        ok2 = self.oblige(s2, goal, f"{self.contract.prefix}.lemma.{name}.step", f"lemma {name}: inductive step ({direction})")
        if ok1 and ok2:
            body = z3.Implies(z3.And(k >= lo, k <= hi), prop(k))
            if generalize:
                # the lemma was proved for arbitrary (fresh, unconstrained apart from `guard`) constants: universal generalisation
                vs = list(generalize) + [k]
                if guard is not None:
                    body = z3.Implies(guard, body)
                pats = patterns(k) if patterns else None
                try:
                    st.assume(z3.ForAll(vs, body, patterns=pats) if pats else z3.ForAll(vs, body))
                except z3.Z3Exception:
                    st.assume(z3.ForAll(vs, body))
            else:
                st.assume(forall(k, body, patterns=patterns(k) if patterns else None))
        return ok1 and ok2

    def at_return(self, state, val, fn):
        self.path_count += 1
        if not getattr(self, "_live_return", False) and getattr(self, "_return_probes", 0) < 8:
            # vacuity guard: at least one return must be reachable with non-contradictory assumptions (callee contracts,
            # models); paths whose condition is infeasible are legitimate (pruning is best effort), so the canary is
            # emitted once, after all paths, from what the first probes found
            self._return_probes = getattr(self, "_return_probes", 0) + 1
            status, *_ = self.solver.check(self.axioms + state.pc, z3.BoolVal(False), timeout_ms=1500, fallback=False)
            if status != "unsat":
                self._live_return = True
        for name, goal in self.contract.ensures(self, {**state.vars, "__entry__": self.entry, "__state__": state}, val):
            if name.startswith("canary:"):
                # the clause must NOT be provable (it states that the definitions used by the specification are contradictory)
                status, *_ = self.solver.check(self.axioms + state.pc, zbool(goal), timeout_ms=1500, fallback=False)
                self.counter[name] = self.counter.get(name, 0) + 1
                self.obligations.append(Obligation(name=f"{self.contract.prefix}.{name.replace(':', '.')}#{self.counter[name]}", function=self.contract.qualname, status=DISCHARGED if status != "unsat" else VIOLATED, backend="z3", kind="canary",
                                                   formula="the definitions the specification is stated over are satisfiable", detail=""))
                continue
            ok = self.oblige(state, goal, f"{self.contract.prefix}.post.{name}", f"ensures {name} at return (line {getattr(fn, 'lineno', '?')})")
            if ok and getattr(self.contract, "chain_ensures", False):
                state.assume(goal)  # cut rule: a clause that is proved may be used for the clauses after it

    def at_raise(self, state, exc):
        self.path_count += 1
        ok = exc in self.contract.raises
        if self.contract.exc_ensures is not None and ok:
            for name, goal in self.contract.exc_ensures(self, state.vars, exc):
                self.oblige(state, goal, f"{self.contract.prefix}.raises.{name}", f"raise {exc} only when {name}")
            return
        # raising an exception type outside the contract on a feasible path is an obligation failure
        self.oblige(state, z3.BoolVal(ok), self._name(f"raises.{exc}"), f"a feasible path raises {exc}; allowed: {self.contract.raises}")

    # ---------------------------------------------------------------- statements
    def exec_block(self, stmts, state):
        """Returns list of (state, signal, value)."""
        frontier = [(state, Signal.NORMAL, None)]
        for stmt in stmts:
            nxt = []
            for s, sig, val in frontier:
                if sig != Signal.NORMAL:
                    nxt.append((s, sig, val))
                    continue
                nxt.extend(self.exec_stmt(stmt, s))
            frontier = nxt
            if len(frontier) > 4000:
                raise Unsupported("path explosion (>4000 paths)")
        return frontier

    def exec_stmt(self, node, st):
        if isinstance(node, ast.Expr):
            if isinstance(node.value, ast.Constant):
                return [(st, Signal.NORMAL, None)]  # docstring
            if self.is_dropped_call(node.value):
                return [(st, Signal.NORMAL, None)]
            outs = []
            for s, v in self.eval(node.value, st):
                if type(v).__name__ == "Raised":
                    outs.append((s, Signal.RAISE, v.exc))
                else:
                    outs.append((s, Signal.NORMAL, None))
            return outs
        if isinstance(node, (ast.Assign, ast.AnnAssign)):
            if isinstance(node, ast.AnnAssign):
                if node.value is None:
                    return [(st, Signal.NORMAL, None)]
                targets = [node.target]
            else:
                targets = node.targets
            outs = []
            for s, v in self.eval(node.value, st):
                if type(v).__name__ == "Raised":
                    outs.append((s, Signal.RAISE, v.exc))
                    continue
                for t in targets:
                    self.assign(t, v, s)
                outs.append((s, Signal.NORMAL, None))
            return outs
        if isinstance(node, ast.AugAssign):
            if isinstance(node.target, ast.Name) and hasattr(st.vars.get(node.target.id), "pyvc_iop"):
                # an object with in-place semantics of its own (an array that keeps its dtype under  x /= y)
                outs = []
                for s, rhs in self.eval(node.value, st):
                    s.vars[node.target.id] = s.vars[node.target.id].pyvc_iop(self, s, node.op, rhs, node)
                    outs.append((s, Signal.NORMAL, None))
                return outs
            bin_ = ast.BinOp(left=ast_load(node.target), op=node.op, right=node.value)
            ast.copy_location(bin_, node)
            outs = []
            for s, v in self.eval(bin_, st):
                self.assign(node.target, v, s)
                outs.append((s, Signal.NORMAL, None))
            return outs
        if isinstance(node, ast.Return):
            if node.value is None:
                return [(st, Signal.RETURN, None)]
            return [(s, Signal.RETURN, v) for s, v in self.eval(node.value, st)]
        if isinstance(node, ast.If):
            outs = []
            for s, c in self.eval(node.test, st):
                outs.extend(self.branch(s, c, node.body, node.orelse))
            return outs
        if isinstance(node, ast.Assert):
            outs = []
            for s, c in self.eval(node.test, st):
                cb = zbool(c)
                self.oblige(s, cb, self._name("assert", node.test), f"assert at line {node.lineno}: {self.src(node)}")
                s.assume(cb)
                outs.append((s, Signal.NORMAL, None))
            return outs
        if isinstance(node, ast.Raise):
            exc = node.exc
            name = None
            if isinstance(exc, ast.Call):
                exc = exc.func
            if isinstance(exc, ast.Name):
                name = exc.id
            elif isinstance(exc, ast.Attribute):
                name = exc.attr
            return [(st, Signal.RAISE, name or "Exception")]
        if isinstance(node, ast.For):
            return self.exec_for(node, st)
        if isinstance(node, ast.Continue):
            return [(st, Signal.CONTINUE, None)]
        if isinstance(node, ast.Break):
            return [(st, Signal.BREAK, None)]
        if isinstance(node, ast.Pass):
            return [(st, Signal.NORMAL, None)]
        if isinstance(node, (ast.Import, ast.ImportFrom)):
            # function-level imports bind names exactly like module-level ones (static resolution)
            from .prims import module_env_from_ast

            for k_, v_ in module_env_from_ast(ast.Module(body=[node], type_ignores=[])).items():
                if k_ not in st.vars:
                    st.vars[k_] = v_
            return [(st, Signal.NORMAL, None)]
        if isinstance(node, ast.With):
            # context managers modelled as no-ops (warnings.catch_warnings, np.errstate)
            return self.exec_block(node.body, st)
        if isinstance(node, ast.FunctionDef):
            st.vars[node.name] = ("localfunc", node)
            return [(st, Signal.NORMAL, None)]
        raise Unsupported(f"statement {type(node).__name__} at line {node.lineno}")

    def is_dropped_call(self, node):
        if isinstance(node, ast.Call):
            f = node.func
            if isinstance(f, ast.Attribute) and isinstance(f.value, ast.Name) and f.value.id in ("logger", "warnings"):
                return True
            if isinstance(f, ast.Name) and f.id == "print":
                return True
        return False

    def branch(self, st, cond, body, orelse):
        outs = []
        if isinstance(cond, (bool, int, type(None), str, tuple, list, dict)) and not is_sym(cond):
            return self.exec_block(body if cond else orelse, st)
        c = zbool(cond)
        cs = z3.simplify(c)  # only to recognise literal conditions; the original shape is kept for the solver's triggers
        if z3.is_true(cs):
            return self.exec_block(body, st)
        if z3.is_false(cs):
            return self.exec_block(orelse, st)
        s1 = st.fork()
        s1.assume(c)
        if self.feasible(s1):
            outs.extend(self.exec_block(body, s1))
        s2 = st.fork()
        s2.assume(z3.Not(c))
        if self.feasible(s2):
            outs.extend(self.exec_block(orelse, s2))
        return outs

    def assign(self, target, value, st):
        if isinstance(target, ast.Name):
            st.vars[target.id] = value
            cut = self.contract.cuts.get(target.id)
            if cut is not None and not st.ghost.get(("cut", target.id)):
                # cut rule: prove an intermediate fact about the freshly assigned variable once, then assume it
                st.ghost[("cut", target.id)] = True
                all_ok = True
                for name, f in cut(self, {**st.vars, "__state__": st}):
                    if name == "__rebind__":
                        # the facts proved so far show the variable extensionally equal to a simpler value: continue with that
                        if all_ok:
                            st.vars[target.id] = f
                        continue
                    if name == "__deferred__":
                        for n2, f2 in f(self, {**st.vars, "__state__": st}):
                            if self.oblige(st, f2, f"{self.contract.prefix}.cut.{target.id}.{n2}", f"intermediate fact about {target.id}: {n2}"):
                                st.assume(f2)
                        continue
                    if self.oblige(st, f, f"{self.contract.prefix}.cut.{target.id}.{name}", f"intermediate fact about {target.id}: {name}"):
                        st.assume(f)
                    else:
                        all_ok = False
        elif isinstance(target, (ast.Tuple, ast.List)) and any(isinstance(t, ast.Starred) for t in target.elts):
            # a, *rest = value  (one starred target, a concrete-length sequence)
            if not isinstance(value, (tuple, list)) or sum(isinstance(t, ast.Starred) for t in target.elts) != 1:
                raise Unsupported("starred unpacking of a symbolic sequence")
            k = next(i for i, t in enumerate(target.elts) if isinstance(t, ast.Starred))
            after = len(target.elts) - k - 1
            if len(value) < len(target.elts) - 1:
                self.oblige(st, z3.BoolVal(False), self._name("unpack"), f"unpacking {len(value)} values into at least {len(target.elts) - 1} targets")
                raise Unsupported("arity mismatch in unpacking")
            vals = list(value)
            for t, v in zip(target.elts[:k], vals[:k]):
                self.assign(t, v, st)
            self.assign(target.elts[k].value, vals[k:len(vals) - after], st)
            for t, v in zip(target.elts[k + 1:], vals[len(vals) - after:] if after else []):
                self.assign(t, v, st)
        elif isinstance(target, (ast.Tuple, ast.List)):
            vals = self.unpack(value, len(target.elts), st)
            for t, v in zip(target.elts, vals):
                self.assign(t, v, st)
        elif isinstance(target, ast.Subscript):
            base = None
            for s2, b in self.eval(target.value, st):
                base = b
            for s2, idx in self.eval(target.slice, st):
                pass
            if isinstance(base, z3.ArithRef) and isinstance(idx, z3.BoolRef):
                # pointwise view of a masked array store  result[mask] = v
                v = value if is_sym(value) else to_z3(value)
                if base.sort() == z3.RealSort() and v.sort() != z3.RealSort():
                    v = z3.ToReal(v)
                newv = z3.If(idx, v, base)
            else:
                newv = self.prims.setitem(self, st, base, idx, value, target)
            if isinstance(target.value, ast.Name):
                st.vars[target.value.id] = newv
            elif isinstance(target.value, ast.Subscript):
                # nested store  a[k][j] = v  ==  a[k] = (a[k] with [j] = v)   (functional update, outer container rebound)
                self.assign(target.value, newv, st)
            else:
                raise Unsupported("subscript store into a non-name")
        elif isinstance(target, ast.Attribute):
            if target.attr.startswith("__") and target.attr.endswith("__"):
                for s2, b in self.eval(target.value, st):
                    if type(b).__name__ == "PartialVal":
                        return  # naming metadata of a functools.partial object: no effect on what it computes
            for s2, b in self.eval(target.value, st):
                if hasattr(b, "pyvc_setattr"):
                    b.pyvc_setattr(self, s2, target.attr, value, target)  # an abstract record that tracks its own attribute writes
                    return
            raise Unsupported("attribute store")
        else:
            raise Unsupported(f"assignment target {type(target).__name__}")

    def unpack(self, value, n, st):
        if isinstance(value, (tuple, list)):
            if len(value) != n:
                self.oblige(st, z3.BoolVal(False), self._name("unpack"), f"unpacking {len(value)} values into {n} targets")
                raise Unsupported("arity mismatch in unpacking")
            return list(value)
        if isinstance(value, SSeq):
            self.oblige(st, value.length == n, self._name("unpack"), f"unpacking a sequence into {n} targets needs length {n}")
            return [value.at(i) for i in range(n)]
        raise Unsupported(f"unpacking {type(value).__name__}")

    # ---------------------------------------------------------------- loops
    def exec_for(self, node, st):
        ordinal = self.loop_ordinals[id(node)]
        outs = []
        for s, it in self.eval(node.iter, st):
            outs.extend(self.loop(node, s, it, ordinal))
        return outs

    def loop(self, node, st, it, ordinal):
        # concrete iterables: unroll
        if isinstance(it, (list, tuple, range)) or (isinstance(it, ZipIter) and it.concrete_len() is not None):
            items = list(it) if not isinstance(it, ZipIter) else it.concrete_items()
            frontier = [(st, Signal.NORMAL, None)]
            done = []
            for item in items:
                nxt = []
                for s, sig, val in frontier:
                    if sig in (Signal.RETURN, Signal.RAISE):
                        done.append((s, sig, val))
                        continue
                    if sig == Signal.BREAK:
                        done.append((s, Signal.NORMAL, None))
                        continue
                    self.assign(node.target, item, s)
                    for s2, sig2, v2 in self.exec_block(node.body, s):
                        if sig2 == Signal.CONTINUE:
                            sig2 = Signal.NORMAL
                        nxt.append((s2, sig2, v2))
                frontier = nxt
            out = done
            for s, sig, val in frontier:
                if sig == Signal.BREAK:
                    sig = Signal.NORMAL
                out.append((s, sig, val))
            if node.orelse:
                raise Unsupported("for-else")
            return out
        # symbolic-length iteration: needs an invariant
        if isinstance(it, SSeq):
            zi = ZipIter([it])
            single = True
        elif isinstance(it, ZipIter):
            zi = it
            single = False
        elif isinstance(it, EnumIter) or getattr(it, "pyvc_iter", False):
            zi = it
            single = False
        else:
            raise Unsupported(f"iteration over {type(it).__name__}")
        inv = self.contract.invariants.get(ordinal)
        if inv is None:
            raise ContractError(f"loop #{ordinal} (line {node.lineno}) iterates a symbolic-length sequence and needs an invariant")
        n = zi.length()
        modified = sorted(assigned_names(node.body))
        # concrete lists of integers that the loop mutates become symbolic sequences
        from .prims import seq_of

        for nm in modified:
            v = st.vars.get(nm)
            if isinstance(v, list) and all((isinstance(x, int) and not isinstance(x, bool)) or isinstance(x, z3.ArithRef) for x in v):
                st.vars[nm] = seq_of(v, "list")
                st.vars[nm].name = nm
        # 1. invariant on entry (k = 0)
        for name, f in inv(self, st.vars, z3.IntVal(0)):
            self.oblige(st, f, f"{self.contract.prefix}.inv{ordinal}.entry.{name}", f"loop #{ordinal} line {node.lineno}: invariant {name} holds on entry")
        # 2. preservation: havoc, assume inv(k) and 0 <= k < n, run body, check inv(k+1)
        k = fresh(f"k{ordinal}")
        hs = st.fork()
        self.havoc(hs, modified, node)
        hs.assume(z3.And(k >= 0, k < n))
        for name, f in inv(self, hs.vars, k):
            hs.assume(f)
        item = zi.item(k, single)
        self.assign(node.target, item, hs)
        results = []
        for s2, sig2, v2 in self.exec_block(node.body, hs):
            if sig2 in (Signal.NORMAL, Signal.CONTINUE):
                for name, f in inv(self, s2.vars, k + 1):
                    self.oblige(s2, f, f"{self.contract.prefix}.inv{ordinal}.preserve.{name}.{self._bump('p%d%s' % (ordinal, name))}", f"loop #{ordinal} line {node.lineno}: invariant {name} preserved by one iteration")
            elif sig2 == Signal.BREAK:
                raise Unsupported("break inside a loop with an invariant")
            else:
                results.append((s2, sig2, v2))
        # 3. after the loop: havoc, assume inv(n)
        after = st.fork()
        self.havoc(after, modified, node)
        after.assume(n >= 0)
        for name, f in inv(self, after.vars, n):
            after.assume(f)
        results.append((after, Signal.NORMAL, None))
        return results

    def _bump(self, key):
        self.counter[key] = self.counter.get(key, 0) + 1
        return self.counter[key]

    def havoc(self, st, names, node):
        for nm in names:
            old = st.vars.get(nm)
            if isinstance(old, SSeq):
                arr = z3.Const(f"{nm}_arr!{next(_fresh_counter)}", z3.ArraySort(I, old.elem_sort))
                ln = fresh(f"{nm}_len")
                st.vars[nm] = SSeq.from_array(ln, arr, kind=old.kind, name=nm)
                st.assume(ln >= 0)
            elif isinstance(old, z3.ArithRef) or isinstance(old, int) and not isinstance(old, bool):
                st.vars[nm] = fresh(nm)
            elif isinstance(old, (z3.BoolRef, bool)):
                st.vars[nm] = fresh(nm, B)
            elif is_sym(old) and z3.is_string(old):
                st.vars[nm] = z3.String(f"{nm}!{next(_fresh_counter)}")
            elif isinstance(old, (tuple, list)) and old and all(isinstance(x, SSeq) for x in old):
                outs = []
                for j_, x in enumerate(old):
                    arr = z3.Const(f"{nm}{j_}_arr!{next(_fresh_counter)}", z3.ArraySort(I, x.elem_sort))
                    ln = fresh(f"{nm}{j_}_len")
                    st.assume(ln >= 0)
                    outs.append(SSeq.from_array(ln, arr, kind=x.kind, name=f"{nm}{j_}"))
                st.vars[nm] = type(old)(outs)
            elif isinstance(old, dict):
                # a dict filled by the loop: content unknown afterwards; stores go through the contract's store protocol (if any)
                from .prims import GhostDict

                st.vars[nm] = GhostDict(nm)
            elif type(old).__name__ in ("Opaque", "Record") or hasattr(old, "pyvc_havoc"):
                st.vars[nm] = old.pyvc_havoc() if hasattr(old, "pyvc_havoc") else old  # untracked objects stay untracked
            elif old is None and nm not in st.vars:
                # first assigned inside the loop: its value before the loop is irrelevant
                st.vars.pop(nm, None)
            else:
                st.vars[nm] = fresh(nm)

    # ---------------------------------------------------------------- expressions
    def src(self, node):
        try:
            return ast.unparse(node)[:160]
        except Exception:
            return "?"

    def eval(self, node, st):
        """Returns list of (state, value): expression evaluation may fork (short-circuit operators, ternaries)."""
        return self.prims.eval(self, node, st)


class ZipIter:
    def __init__(self, seqs):
        self.seqs = seqs

    def length(self):
        ls = [s.length if isinstance(s, SSeq) else (s.length() if getattr(s, "pyvc_iter", False) else z3.IntVal(len(s))) for s in self.seqs]
        out = ls[0]
        for l in ls[1:]:
            out = z3.If(l < out, l, out)
        return z3.simplify(out)

    def concrete_len(self):
        if all(isinstance(s, (list, tuple, range)) for s in self.seqs):
            return min(len(s) for s in self.seqs)
        return None

    def concrete_items(self):
        return list(zip(*self.seqs))

    def item(self, k, single=False):
        vals = tuple(s.at(k) if isinstance(s, SSeq) else (s.item(k, False) if getattr(s, "pyvc_iter", False) else None) for s in self.seqs)
        if any(v is None for v in vals):
            raise Unsupported("zip of a symbolic and a concrete sequence")
        return vals[0] if single else vals


class EnumIter(ZipIter):
    def __init__(self, seq, start=0):
        self.seq = seq
        self.start = start
        self.seqs = [seq]

    def item(self, k, single=False):
        return (k + self.start, self.seq.at(k))


def assigned_names(stmts):
    names = set()
    for stmt in stmts:
        for node in ast.walk(stmt):
            if isinstance(node, ast.Name) and isinstance(node.ctx, ast.Store):
                names.add(node.id)
            elif isinstance(node, ast.Call) and isinstance(node.func, ast.Attribute) and node.func.attr in ("append", "extend", "update", "add", "insert", "pop") and isinstance(node.func.value, ast.Name):
                names.add(node.func.value.id)
            elif isinstance(node, ast.Subscript) and isinstance(node.ctx, ast.Store) and isinstance(node.value, ast.Name):
                names.add(node.value.id)
            elif isinstance(node, ast.AugAssign) and isinstance(node.target, ast.Name):
                names.add(node.target.id)
    return names


def ast_load(target):
    t = ast.parse(ast.unparse(target), mode="eval").body
    return t
