"""Expression evaluation and the assumed contracts ("models") of library primitives for PyVC.

Every model here is an ASSUMED contract of an external primitive (numpy, pandas, toolz, builtins); each is
listed in the evidence; the ones with a non-trivial statement have a conformance test against the real library in
vlib/pyvc/conformance.py (run inside the checks whose proofs use them).
"""

from __future__ import annotations

import ast
import math

import z3

from .engine import B, EnumIter, I, Signal, SSeq, Unsupported, ZipIter, forall, fresh, in_range, is_sym, to_z3, zbool


NAN_R = z3.Real("NaN")  # pointwise real-valued code: NaN is a distinguished, otherwise unconstrained constant
SQRT = z3.Function("sqrt", z3.RealSort(), z3.RealSort())


def coerce(a, b):
    """Make two arithmetic terms agree in sort (Int -> Real when mixed)."""
    a, b = to_z3(a), to_z3(b)
    if z3.is_arith(a) and z3.is_arith(b) and a.sort() != b.sort():
        if a.sort() == z3.IntSort():
            a = z3.ToReal(a)
        if b.sort() == z3.IntSort():
            b = z3.ToReal(b)
    return a, b


class ModRef:
    def __init__(self, path):
        self.path = path

    def __eq__(self, other):
        return isinstance(other, ModRef) and other.path == self.path

    def __hash__(self):
        return hash(self.path)

    def __repr__(self):
        return f"<mod {self.path}>"


class RepoFunc:
    def __init__(self, name):
        self.name = name

    def __repr__(self):
        return f"<repo {self.name}>"


class Method:
    def __init__(self, obj, attr):
        self.obj = obj
        self.attr = attr


class SqrtOf:
    """x ** 0.5 of a symbolic non-negative integer; int(SqrtOf(x)) is the integer square root (model in the contract)"""

    def __init__(self, arg):
        self.arg = arg


class PartialVal:
    """functools.partial(f, *args, **kwargs)"""

    def __init__(self, fn, args, kwargs):
        self.fn, self.args, self.kwargs = fn, args, kwargs

    def pyvc_call(self, ex, st, args, kwargs, node, prims):
        return prims.call(ex, st, self.fn, self.args + list(args), {**self.kwargs, **kwargs}, node)

    def pyvc_getattr(self, ex, st, attr, node, prims):
        if attr == "func":
            return self.fn
        if attr == "keywords":
            return dict(self.kwargs)
        if attr == "args":
            return tuple(self.args)
        raise Unsupported(f"attribute {attr!r} of a functools.partial object")


class Raised:
    """Result of a modelled call that raises (the statement executor turns it into a RAISE signal)."""

    def __init__(self, exc):
        self.exc = exc


class Closure:
    def __init__(self, node, env):
        self.node = node
        self.env = env


class Opaque:
    """A value the engine does not interpret (strings built at run time, objects passed through)."""

    def __init__(self, what, **attrs):
        self.what = what
        self.attrs = attrs

    def __repr__(self):
        return f"<opaque {self.what}>"

    # an opaque value is inert: parts of it are opaque, predicates on it are unknown booleans
    def pyvc_getitem(self, ex, st, idx, node, prims):
        return Opaque(self.what + "[...]")

    def pyvc_getattr(self, ex, st, attr, node, prims):
        if attr in self.attrs:
            return self.attrs[attr]
        return Method(self, attr)

    def pyvc_method(self, ex, st, attr, args, kwargs, node, prims):
        return Opaque(f"{self.what}.{attr}()")

    def pyvc_compare(self, ex, st, op, other, flip, node, prims):
        if other is self and isinstance(op, (ast.Eq, ast.NotEq)):
            return isinstance(op, ast.Eq)  # the very same object equals itself
        return z3.Bool(f"opq!{fresh('o').decl().name()}")

    def pyvc_binop(self, ex, st, op, other, flip, node, prims):
        return Opaque(self.what + "-op")


BUILTINS = {"len", "abs", "sum", "tuple", "list", "zip", "enumerate", "range", "min", "max", "int", "bool", "isinstance", "sorted", "set", "dict", "all", "any", "print", "float", "str", "hasattr", "callable", "getattr", "type", "map", "reversed", "slice"}

MODULE_ALIASES = {
    "numpy": "numpy", "numpy_groupies": "numpy_groupies", "pandas": "pandas", "toolz": "toolz", "math": "math", "itertools": "itertools",
    "operator": "operator", "builtins": "builtins", "dask": "dask", "copy": "copy", "warnings": "warnings", "functools": "functools",
}


UFUNCS_WITH_OUT = {"numpy.add", "numpy.subtract", "numpy.maximum.accumulate", "numpy.divide", "numpy.true_divide"}


def _literal(node, env):
    """value of a module-level literal table: constants, dotted names (as ModRef), nested dicts / tuples; None if anything else"""
    if isinstance(node, ast.Constant):
        return node.value
    if isinstance(node, ast.UnaryOp) and isinstance(node.op, ast.USub) and isinstance(node.operand, ast.Constant):
        return -node.operand.value
    if isinstance(node, ast.Name):
        return env.get(node.id)
    if isinstance(node, ast.Attribute):
        base = _literal(node.value, env)
        return ModRef(base.path + "." + node.attr) if isinstance(base, ModRef) else None
    if isinstance(node, ast.Tuple):
        vals = [_literal(e, env) for e in node.elts]
        return None if any(v is None for v in vals) else tuple(vals)
    if isinstance(node, ast.Dict):
        out = {}
        for k, v in zip(node.keys, node.values):
            kk, vv = (_literal(k, env) if k is not None else None), _literal(v, env)
            if kk is None or (vv is None and not (isinstance(v, ast.Constant) and v.value is None)):
                return None
            try:
                out[kk] = vv
            except TypeError:
                return None
        return out
    return None


def module_env_from_ast(tree):
    """Static name resolution through the module's import table and top-level definitions."""
    env = {}
    for node in tree.body:
        nodes = [node]
        if isinstance(node, ast.If):  # `if TYPE_CHECKING:` and version switches: take both arms' imports
            nodes = list(node.body) + list(node.orelse)
        for n in nodes:
            if isinstance(n, ast.Import):
                for a in n.names:
                    env[a.asname or a.name.split(".")[0]] = ModRef(a.name if a.asname else a.name.split(".")[0])
            elif isinstance(n, ast.ImportFrom):
                mod = ("." * n.level) + (n.module or "")
                for a in n.names:
                    env[a.asname or a.name] = ModRef(f"{mod}.{a.name}" if not mod.startswith(".") else f"flox{mod[1:] and '.' + mod[1:]}.{a.name}")
            elif isinstance(n, (ast.FunctionDef, ast.ClassDef)):
                env[n.name] = RepoFunc(n.name)
            elif isinstance(n, ast.Assign) and len(n.targets) == 1 and isinstance(n.targets[0], ast.Name):
                if isinstance(n.value, ast.Constant):
                    env[n.targets[0].id] = n.value.value
                elif isinstance(n.value, ast.UnaryOp) and isinstance(n.value.op, ast.USub) and isinstance(n.value.operand, ast.Constant):
                    env[n.targets[0].id] = -n.value.operand.value
                elif isinstance(n.value, ast.Dict):
                    lit = _literal(n.value, env)
                    if lit is not None:
                        env[n.targets[0].id] = lit  # a module-level constant table
                elif isinstance(n.value, ast.Call) and isinstance(n.value.func, ast.Name) and n.value.func.id == "namedtuple":
                    env[n.targets[0].id] = RepoFunc(n.targets[0].id)  # a record constructor defined by the module
                elif isinstance(n.value, ast.Call) and isinstance(n.value.func, ast.Name) and n.value.func.id == "partial":
                    env[n.targets[0].id] = RepoFunc(n.targets[0].id)  # a module-level callable (shadows a builtin of that name in this module): called through its contract
                elif isinstance(n.value, ast.Call) and n.targets[0].id.isupper():
                    # module-level feature flags (HAS_NUMBAGG = module_available(...)): an unknown but fixed boolean
                    o = Opaque("flag:" + n.targets[0].id)
                    o.truth = z3.Bool("flag_" + n.targets[0].id)
                    env[n.targets[0].id] = o
    return env


class Prims:
    def __init__(self):
        self.models = {}
        self.used = set()  # names of assumed contracts actually used (reported in the evidence)
        self.register_defaults()

    # ------------------------------------------------------------------ expression evaluator
    def eval(self, ex, node, st):
        m = getattr(self, "e_" + type(node).__name__, None)
        if m is None:
            raise Unsupported(f"expression {type(node).__name__} at line {getattr(node, 'lineno', '?')}: {ex.src(node)}")
        return m(ex, node, st)

    def eval1(self, ex, node, st):
        """Evaluate when forking is not expected (pure sub-expressions)."""
        res = self.eval(ex, node, st)
        if len(res) != 1:
            raise Unsupported(f"unexpected fork in sub-expression {ex.src(node)}")
        return res[0][1]

    def e_Constant(self, ex, node, st):
        return [(st, node.value)]

    def e_Slice(self, ex, node, st):
        lo = self.eval1(ex, node.lower, st) if node.lower else None
        hi = self.eval1(ex, node.upper, st) if node.upper else None
        if node.step is not None:
            raise Unsupported("slice step")
        return [(st, slice(lo, hi))]

    def e_Name(self, ex, node, st):
        if node.id in st.vars:
            return [(st, st.vars[node.id])]
        if node.id in ex.module_env:
            v = ex.module_env[node.id]
            if isinstance(v, ModRef) and v.path.endswith("TYPE_CHECKING"):
                v = False
            return [(st, v)]
        if node.id in BUILTINS:
            return [(st, ModRef("builtins." + node.id))]
        if node.id in ("True", "False", "None"):
            return [(st, {"True": True, "False": False, "None": None}[node.id])]
        if node.id in ("ValueError", "NotImplementedError", "TypeError", "AssertionError", "KeyError", "ImportError", "Exception", "AttributeError", "IndexError"):
            return [(st, ModRef("builtins." + node.id))]
        raise Unsupported(f"unresolved name {node.id!r} at line {node.lineno}")

    def e_Tuple(self, ex, node, st):
        vals = []
        for e in node.elts:
            if isinstance(e, ast.Starred):
                v = self.eval1(ex, e.value, st)
                if isinstance(v, Opaque) or hasattr(v, "pyvc_getattr"):
                    vals.append(Opaque("starred", of=v))
                    continue
                if not isinstance(v, (tuple, list)):
                    raise Unsupported("starred symbolic sequence")
                vals.extend(v)
            else:
                vals.append(self.eval1(ex, e, st))
        return [(st, tuple(vals))]

    def e_List(self, ex, node, st):
        (s, t), = self.e_Tuple(ex, node, st)
        lst = list(t)
        return [(s, lst)]

    def e_Dict(self, ex, node, st):
        d = {}
        for k, v in zip(node.keys, node.values):
            if k is None:
                d.update(self.eval1(ex, v, st))
            else:
                d[self.eval1(ex, k, st)] = self.eval1(ex, v, st)
        return [(st, d)]

    def e_JoinedStr(self, ex, node, st):
        # f-strings over strings / non-negative integers become string terms; anything else stays opaque (messages)
        parts = []
        try:
            for v in node.values:
                if isinstance(v, ast.Constant):
                    parts.append(str(v.value))
                    continue
                if v.format_spec is not None or v.conversion != -1:
                    raise Unsupported("format spec")
                val = self.eval1(ex, v.value, st)
                if isinstance(val, bool) or not (isinstance(val, (int, str)) or (is_sym(val) and (z3.is_string(val) or isinstance(val, z3.ArithRef) and val.is_int()))):
                    raise Unsupported("piece")
                parts.append(val)
        except Exception:  # messages may mention anything; they carry no meaning for the proof
            return [(st, Opaque("fstring", text=ex.src(node)))]
        if all(isinstance(p_, (int, str)) for p_ in parts):
            return [(st, "".join(str(p_) for p_ in parts))]
        terms = []
        for p_ in parts:
            if isinstance(p_, str):
                terms.append(z3.StringVal(p_))
            elif isinstance(p_, int):
                terms.append(z3.StringVal(str(p_)))
            elif z3.is_string(p_):
                terms.append(p_)
            else:
                ex.oblige(st, p_ >= 0, ex._name("fstring", node), f"line {node.lineno}: integers formatted into names are non-negative (str(i) as a term)")
                terms.append(z3.IntToStr(p_))
        return [(st, z3.Concat(*terms) if len(terms) > 1 else terms[0])]

    def e_Lambda(self, ex, node, st):
        return [(st, Closure(node, dict(st.vars)))]

    def e_NamedExpr(self, ex, node, st):
        v = self.eval1(ex, node.value, st)
        ex.assign(node.target, v, st)
        return [(st, v)]

    def e_IfExp(self, ex, node, st):
        out = []
        c = self.eval1(ex, node.test, st)
        if not is_sym(c):
            return self.eval(ex, node.body if c else node.orelse, st)
        cb = zbool(c)
        s1 = st.fork()
        s1.assume(cb)
        a = self.eval1(ex, node.body, s1)
        s2 = st.fork()
        s2.assume(z3.Not(cb))
        b = self.eval1(ex, node.orelse, s2)
        if (is_sym(a) or is_sym(b) or isinstance(a, (int, bool)) and isinstance(b, (int, bool))) and a is not None and b is not None:
            return [(st, z3.If(cb, to_z3(a), to_z3(b)))]
        out = []
        if ex.feasible(s1):
            out.append((s1, a))
        if ex.feasible(s2):
            out.append((s2, b))
        return out

    def e_UnaryOp(self, ex, node, st):
        v = self.eval1(ex, node.operand, st)
        if isinstance(node.op, ast.Not):
            if is_sym(v) or (hasattr(v, "truth") and not isinstance(v, (bool, int))):
                return [(st, z3.Not(zbool(v)))]
            if isinstance(v, SSeq):
                return [(st, z3.Not(zbool(v)))]
            return [(st, not v)]
        if isinstance(node.op, ast.USub):
            if isinstance(v, SSeq):
                return [(st, v.map(lambda x: -x))]
            if is_sym(v) and str(v.sort()) == "Val":
                from . import valsort as V

                return [(st, z3.If(V.is_pinf(v), V.ninf, z3.If(V.is_ninf(v), V.pinf, z3.If(V.is_nan(v), V.nan, V.fin(-V.rv(v)))))) if not (v.eq(V.pinf) or v.eq(V.ninf)) else (st, V.ninf if v.eq(V.pinf) else V.pinf)]
            return [(st, -v)]
        if hasattr(v, "pyvc_binop") and isinstance(node.op, (ast.Invert, ast.USub)):
            return [(st, v.pyvc_binop(ex, st, node.op, None, False, node, self))]
        if isinstance(node.op, ast.Invert):
            if isinstance(v, SSeq) and v.elem_sort == B:
                return [(st, v.map(lambda x: z3.Not(x), B))]
            if isinstance(v, z3.BoolRef):
                return [(st, z3.Not(v))]
        raise Unsupported(f"unary {type(node.op).__name__}")

    def e_BoolOp(self, ex, node, st):
        is_and = isinstance(node.op, ast.And)
        acc = None
        cur = st
        conds = []
        for i, vnode in enumerate(node.values):
            # evaluate operand i under the assumption that evaluation reached it
            sub = st.fork()
            for c in conds:
                sub.assume(c)
            v = self.eval1(ex, vnode, sub)
            for nm, val in sub.vars.items():  # bindings made by := inside the operand are visible afterwards
                if st.vars.get(nm, None) is not val:
                    st.vars[nm] = val
            if acc is None and not isinstance(v, (bool, z3.BoolRef, SSeq)):
                # value semantics of `a or b` / `a and b` on non-boolean operands (the operand itself is the result)
                t_ = v.truth if (hasattr(v, "truth") and not is_sym(v)) else ((v != 0) if isinstance(v, z3.ArithRef) else None)
                if t_ is not None and is_sym(t_):
                    ts = z3.simplify(t_)
                    definite = True if z3.is_true(ts) else (False if z3.is_false(ts) else None)
                    if definite is None and isinstance(v, z3.ArithRef):
                        # decided by the path condition?  (e.g. a parameter required to be >= 2)
                        if ex.solver.check(ex.axioms + sub.pc, t_, timeout_ms=2000, fallback=False)[0] == "unsat":
                            definite = True
                        elif ex.solver.check(ex.axioms + sub.pc, z3.Not(t_), timeout_ms=2000, fallback=False)[0] == "unsat":
                            definite = False
                    if definite is not None:
                        if definite != is_and:  # `or` on a true operand / `and` on a false one: this operand is the result
                            return [(st, v)]
                        if i == len(node.values) - 1:
                            return [(st, v)]
                        continue
                    if isinstance(v, z3.ArithRef) and not is_and and i == len(node.values) - 2:
                        rest = self.eval1(ex, node.values[-1], st.fork())
                        if isinstance(rest, (int, z3.ArithRef)) and not isinstance(rest, bool):
                            return [(st, z3.If(t_, v, to_z3(rest)))]
            if hasattr(v, "truth") and not is_sym(v):
                v = v.truth
            if not is_sym(v) and not isinstance(v, SSeq):
                truth = bool(v)
                if is_and and not truth:
                    res = v if acc is None else z3.And(acc, z3.BoolVal(False))
                    return [(st, res if acc is not None else v)]
                if (not is_and) and truth:
                    if acc is None:
                        return [(st, v)]
                    return [(st, z3.BoolVal(True)) if True else None]
                if i == len(node.values) - 1 and acc is None:
                    return [(st, v)]
                continue
            vb = zbool(v)
            acc = vb if acc is None else (z3.And(acc, vb) if is_and else z3.Or(acc, vb))
            conds.append(vb if is_and else z3.Not(vb))
        if acc is None:
            return [(st, True if is_and else False)]
        return [(st, acc)]

    def e_Compare(self, ex, node, st):
        left = self.eval1(ex, node.left, st)
        acc = None
        for op, rnode in zip(node.ops, node.comparators):
            right = self.eval1(ex, rnode, st)
            r = self.compare(ex, st, op, left, right, node)
            if not isinstance(r, (bool, int)) and not is_sym(r) and not isinstance(r, SSeq):
                if len(node.ops) != 1:
                    raise Unsupported("chained comparison of array-like values")
                return [(st, r)]  # an array-like comparison result
            if not is_sym(r) and not isinstance(r, SSeq):
                if not r:
                    return [(st, False if acc is None else z3.BoolVal(False))]
            else:
                if isinstance(r, SSeq):
                    if len(node.ops) != 1:
                        raise Unsupported("chained elementwise comparison")
                    return [(st, r)]
                acc = r if acc is None else z3.And(acc, r)
            left = right
        return [(st, True if acc is None else acc)]

    def compare(self, ex, st, op, a, b, node):
        if not isinstance(op, (ast.Is, ast.IsNot, ast.In, ast.NotIn)):
            for x, y, flip in ((a, b, False), (b, a, True)):
                if hasattr(x, "pyvc_compare"):
                    return x.pyvc_compare(ex, st, op, y, flip, node, self)
        if isinstance(op, (ast.Is, ast.IsNot)):
            if is_sym(a) or is_sym(b) or isinstance(a, SSeq) or isinstance(b, SSeq):
                # identity with None / sentinels: symbolic values are never None
                r = False if (a is None or b is None) else None
                if r is None:
                    other, symv = (b, a) if is_sym(a) else (a, b)
                    if isinstance(other, bool) and isinstance(symv, z3.BoolRef):
                        r = symv if other else z3.Not(symv)  # `x is True` for a bool-valued x
                        return r if isinstance(op, ast.Is) else z3.Not(r)
                    if isinstance(other, (bool, Record, ModRef)):
                        r = False
                    else:
                        raise Unsupported("identity comparison of symbolic values")
            elif isinstance(a, ModRef) and isinstance(b, ModRef):
                r = a.path == b.path
            else:
                r = a is b
            return r if isinstance(op, ast.Is) else (not r)
        if isinstance(op, (ast.In, ast.NotIn)):
            r = self.contains(ex, st, b, a)
            if isinstance(op, ast.NotIn):
                r = z3.Not(r) if is_sym(r) else (not r)
            return r
        if isinstance(a, SSeq) or isinstance(b, SSeq):
            f = {ast.Eq: lambda x, y: x == y, ast.NotEq: lambda x, y: x != y, ast.Lt: lambda x, y: x < y, ast.LtE: lambda x, y: x <= y, ast.Gt: lambda x, y: x > y, ast.GtE: lambda x, y: x >= y}[type(op)]
            from . import valsort as V

            def is_val(t):
                return (isinstance(t, SSeq) and t.elem_sort == V.Val) or (is_sym(t) and t.sort() == V.Val)

            if is_val(a) or is_val(b):
                # IEEE comparisons on extended reals: anything compared with NaN is false (!= is true)
                f = {ast.Eq: V.v_eq, ast.NotEq: lambda x, y: z3.Not(V.v_eq(x, y)), ast.Lt: V.v_lt, ast.LtE: V.v_le, ast.Gt: lambda x, y: V.v_lt(y, x), ast.GtE: lambda x, y: V.v_le(y, x)}[type(op)]
            if isinstance(a, SSeq) and isinstance(b, SSeq):
                if a.kind in ("tuple", "list") and b.kind in ("tuple", "list") and isinstance(op, (ast.Eq, ast.NotEq)):
                    k = fresh("i")
                    eq = z3.And(a.length == b.length, forall(k, z3.Implies(in_range(k, 0, a.length), a.at(k) == b.at(k))))
                    return eq if isinstance(op, ast.Eq) else z3.Not(eq)
                ex.oblige(st, a.length == b.length, ex._name("broadcast", node), f"line {node.lineno}: elementwise comparison needs equal lengths: {ex.src(node)}")
                return a.zipwith(b, f, B)
            if isinstance(a, SSeq):
                return a.map(lambda x: f(x, to_z3(b) if not isinstance(b, float) else b), B)
            return b.map(lambda y: f(to_z3(a) if not isinstance(a, float) else a, y), B)
        if is_sym(a) or is_sym(b):
            a_, b_ = (to_z3(a) if not isinstance(a, str) else z3.StringVal(a)), (to_z3(b) if not isinstance(b, str) else z3.StringVal(b))
            if (z3.is_string(a_) != z3.is_string(b_)) or (isinstance(a_, z3.BoolRef) != isinstance(b_, z3.BoolRef) and not z3.is_arith(a_)):
                # values of different kinds are never equal (a str is not None / not a number)
                if isinstance(op, ast.Eq):
                    return False
                if isinstance(op, ast.NotEq):
                    return True
            if z3.is_arith(a_) and z3.is_arith(b_):
                a_, b_ = coerce(a_, b_)
            return {ast.Eq: lambda: a_ == b_, ast.NotEq: lambda: a_ != b_, ast.Lt: lambda: a_ < b_, ast.LtE: lambda: a_ <= b_, ast.Gt: lambda: a_ > b_, ast.GtE: lambda: a_ >= b_}[type(op)]()
        if isinstance(a, (tuple, list)) and isinstance(b, (tuple, list)) and isinstance(op, (ast.Eq, ast.NotEq)) and any(is_sym(x) for x in list(a) + list(b)):
            # tuples of symbolic terms (shapes): equal iff same length and equal element by element
            if len(a) != len(b):
                r = False
            else:
                parts = [self.compare(ex, st, ast.Eq(), x, y, node) for x, y in zip(a, b)]
                r = z3.And([zbool(p_) for p_ in parts]) if parts else True
            if isinstance(op, ast.NotEq):
                r = z3.Not(r) if is_sym(r) else (not r)
            return r
        import operator as o

        return {ast.Eq: o.eq, ast.NotEq: o.ne, ast.Lt: o.lt, ast.LtE: o.le, ast.Gt: o.gt, ast.GtE: o.ge}[type(op)](a, b)

    def contains(self, ex, st, container, item):
        if isinstance(container, ModRef) and container.path in getattr(self, "constants", {}):
            container = self.constants[container.path]  # a module-level constant table of another repository module, read from its source
        if isinstance(container, SSeq):
            return seq_member(ex, container)(to_z3(item))
        if isinstance(container, (list, tuple, set, dict)):
            if is_sym(item):
                if z3.is_string(item):
                    return z3.Or([item == z3.StringVal(c) for c in container if isinstance(c, str)] + [item == c for c in container if is_sym(c) and z3.is_string(c)] or [z3.BoolVal(False)])
                if str(item.sort()) == "Val":
                    return z3.Or([item == c for c in container if is_sym(c) and c.sort() == item.sort()] or [z3.BoolVal(False)])
                return z3.Or([to_z3(item) == to_z3(c) for c in container if (isinstance(c, (int, bool)) or (is_sym(c) and not z3.is_string(c) and str(c.sort()) != "Val"))] or [z3.BoolVal(False)])
            if isinstance(item, Record):
                return False
            return item in container
        if is_sym(container) and z3.is_string(container):
            return z3.Contains(container, z3.StringVal(item) if isinstance(item, str) else item)
        if isinstance(container, str) and isinstance(item, str):
            return item in container
        if isinstance(container, str) and is_sym(item) and z3.is_string(item):
            return z3.Contains(z3.StringVal(container), item)
        if isinstance(container, GhostSet):
            return container.member(to_z3(item))
        raise Unsupported(f"membership in {type(container).__name__}")

    def e_BinOp(self, ex, node, st):
        a = self.eval1(ex, node.left, st)
        b = self.eval1(ex, node.right, st)
        return [(st, self.binop(ex, st, node.op, a, b, node))]

    def binop(self, ex, st, op, a, b, node):
        if isinstance(op, ast.BitOr) and all(isinstance(x, (ModRef, RepoFunc)) or (isinstance(x, tuple) and all(isinstance(y, (ModRef, RepoFunc)) for y in x)) for x in (a, b)):
            # a union of types (X | Y) as used in isinstance: the tuple of its members
            return (a if isinstance(a, tuple) else (a,)) + (b if isinstance(b, tuple) else (b,))
        for x, y, flip in ((a, b, False), (b, a, True)):
            if hasattr(x, "pyvc_binop"):
                return x.pyvc_binop(ex, st, op, y, flip, node, self)
        if isinstance(a, (tuple, list)) and isinstance(b, SSeq) and b.kind == "tuple" and isinstance(op, ast.Add):
            return Opaque("tuple-concat")
        if isinstance(a, (tuple, list)) and isinstance(b, (tuple, list)) and isinstance(op, ast.Add):
            return a + b
        if isinstance(a, (tuple, list)) and isinstance(b, int) and not is_sym(b) and isinstance(op, ast.Mult):
            return a * b
        if isinstance(a, SSeq) or isinstance(b, SSeq):
            f = self.arith(op)
            if isinstance(a, SSeq) and isinstance(b, SSeq):
                if isinstance(op, ast.Add) and a.kind in ("tuple", "list") and b.kind == a.kind:
                    return seq_concat(a, b)
                ex.oblige(st, a.length == b.length, ex._name("broadcast", node), f"line {node.lineno}: elementwise {type(op).__name__} needs equal lengths")
                return a.zipwith(b, f)
            if isinstance(a, SSeq):
                if isinstance(b, (tuple, list)) and isinstance(op, ast.Add) and a.kind in ("tuple", "list"):
                    return seq_concat(a, seq_of(b, a.kind))
                return a.map(lambda x: f(x, to_z3(b)))
            if isinstance(a, (tuple, list)) and isinstance(op, ast.Add) and b.kind in ("tuple", "list"):
                return seq_concat(seq_of(a, b.kind), b)
            return b.map(lambda y: f(to_z3(a), y))
        if is_sym(a) or is_sym(b):
            if isinstance(op, ast.Pow):
                if isinstance(b, float) and b == 1.0:
                    return a  # x ** 1.0 is x (as a float; callers convert back with int())
                if isinstance(b, float) and b == 0.5:
                    return SqrtOf(a)  # only int(.) of it is modelled (integer square root)
                if isinstance(b, int) and not is_sym(b) and 0 <= b <= 4:
                    out = to_z3(1)
                    for _ in range(b):
                        out = out * to_z3(a) if not (isinstance(out, z3.IntNumRef) and out.as_long() == 1) else to_z3(a)
                    return out
                raise Unsupported("power with a symbolic or large exponent")
            if isinstance(op, ast.Div):
                x, y = coerce(a, b)
                if x.sort() == z3.IntSort():
                    x, y = z3.ToReal(x), z3.ToReal(y)
                return x / y  # real division; numpy's division by zero gives inf/nan: the contract must guard the use
            if isinstance(op, (ast.FloorDiv, ast.Mod)):
                ex.oblige(st, to_z3(b) != 0, ex._name("divzero", node), f"line {node.lineno}: divisor is not zero")
            x, y = coerce(a, b)
            return self.arith(op)(x, y)
        import operator as o

        table = {ast.Add: o.add, ast.Sub: o.sub, ast.Mult: o.mul, ast.FloorDiv: o.floordiv, ast.Mod: o.mod, ast.Pow: o.pow, ast.Div: o.truediv, ast.BitOr: o.or_, ast.BitAnd: o.and_}
        return table[type(op)](a, b)

    def arith(self, op):
        def floordiv(x, y):
            # Python floor division for integers (z3 div rounds toward -inf for positive divisors only)
            return z3.If(y > 0, x / y, -((-x) / (-y)) if False else z3.If((x % y) == 0, x / y, x / y))

        def pyfloordiv(x, y):
            q = x / y  # z3: floor for y>0, ceil for y<0  (Euclidean-style division)
            return z3.If(y > 0, q, z3.If(x % y == 0, q, q - 1) if False else z3.If(x % (-y) == 0, -(x / (-y)), -(x / (-y)) - 1))

        def pymod(x, y):
            return x - y * pyfloordiv(x, y)

        return {
            ast.Add: lambda x, y: x + y, ast.Sub: lambda x, y: x - y, ast.Mult: lambda x, y: x * y,
            ast.FloorDiv: pyfloordiv, ast.Mod: pymod,
            ast.BitOr: lambda x, y: z3.Or(x, y), ast.BitAnd: lambda x, y: z3.And(x, y),
        }[type(op)]

    def e_Attribute(self, ex, node, st):
        base = self.eval1(ex, node.value, st)
        return [(st, self.getattr(ex, st, base, node.attr, node))]

    def getattr(self, ex, st, base, attr, node):
        if hasattr(base, "pyvc_getattr"):
            return base.pyvc_getattr(ex, st, attr, node, self)
        if isinstance(base, RepoFunc):
            if attr == "__name__":
                return base.name
            return ModRef(f"flox.core.{base.name}.{attr}")  # class attribute / enum member
        if isinstance(base, ModRef):
            if base.path == "numpy" and attr == "nan":
                return NAN_R
            if base.path == "numpy" and attr == "inf":
                from . import valsort as V

                return V.pinf
            return ModRef(base.path + "." + attr)
        if isinstance(base, SSeq):
            if attr == "size":
                return base.length
            if attr == "shape":
                return (base.length,)
            if attr == "ndim":
                return 1
            if attr == "dtype":
                return Record("dtype", kind={"Int": "i", "Real": "f", "Bool": "b", "Val": "f"}.get(str(base.elem_sort), "f"))
            return Method(base, attr)
        if isinstance(base, (list, tuple, dict, set, str)):
            return Method(base, attr)
        if isinstance(base, Record):
            if attr in base.fields:
                return base.fields[attr]
            return Method(base, attr)
        if isinstance(base, Opaque) and attr in base.attrs:
            return base.attrs[attr]
        if isinstance(base, GhostSet):
            return Method(base, attr)
        raise Unsupported(f"attribute {attr!r} of {type(base).__name__} at line {node.lineno}")

    def e_Subscript(self, ex, node, st):
        base = self.eval1(ex, node.value, st)
        if isinstance(node.slice, ast.Slice):
            lo = self.eval1(ex, node.slice.lower, st) if node.slice.lower else None
            hi = self.eval1(ex, node.slice.upper, st) if node.slice.upper else None
            if node.slice.step is not None:
                raise Unsupported("slice step")
            return [(st, self.getslice(ex, st, base, lo, hi, node))]
        idx = self.eval1(ex, node.slice, st)
        return [(st, self.getitem(ex, st, base, idx, node))]

    def norm_index(self, ex, st, seq, idx, node):
        """Python index semantics incl. negative constants; emits the bounds obligation."""
        n = seq.length
        if isinstance(idx, int) and not is_sym(idx):
            if idx < 0:
                ex.oblige(st, n >= -idx, ex._name("index", node), f"line {node.lineno}: index {idx} in range of {ex.src(node)}")
                return n + idx
            ex.oblige(st, n > idx, ex._name("index", node), f"line {node.lineno}: index {idx} in range of {ex.src(node)}")
            return z3.IntVal(idx)
        i = to_z3(idx)
        ex.oblige(st, z3.And(i >= -n, i < n), ex._name("index", node), f"line {node.lineno}: index in range: {ex.src(node)}")
        return z3.If(i < 0, i + n, i)

    def getitem(self, ex, st, base, idx, node):
        if isinstance(base, ModRef) and base.path in getattr(self, "constants", {}):
            base = self.constants[base.path]
        if hasattr(base, "pyvc_getitem"):
            return base.pyvc_getitem(ex, st, idx, node, self)
        if isinstance(base, SSeq):
            if isinstance(idx, SSeq) and idx.elem_sort != B:
                k = fresh("i")
                nonneg = forall(k, z3.Implies(in_range(k, 0, idx.length), z3.And(idx.at(k) >= 0, idx.at(k) < base.length)))
                status, *_ = ex.solver.check(ex.axioms + st.pc, nonneg, timeout_ms=3000, fallback=False)
                if status == "unsat":
                    # the common case: indices proved non-negative, no wrap-around term needed
                    ex.oblige(st, nonneg, ex._name("index", node), f"line {node.lineno}: fancy index within [0, len): {ex.src(node)}")
                    return SSeq(idx.length, lambda i: base.fn(idx.fn(i)), kind="array", elem_sort=base.elem_sort)
                ex.oblige(st, forall(k, z3.Implies(in_range(k, 0, idx.length), z3.And(idx.at(k) >= -base.length, idx.at(k) < base.length))), ex._name("index", node), f"line {node.lineno}: fancy index in range: {ex.src(node)}")
                return SSeq(idx.length, lambda i: base.fn(z3.If(idx.fn(i) < 0, idx.fn(i) + base.length, idx.fn(i))), kind="array", elem_sort=base.elem_sort)
            if isinstance(idx, tuple):
                idx = tuple(x for x in idx if x is not Ellipsis)
                if len(idx) == 0:
                    return base
                if len(idx) != 1:
                    raise Unsupported("multi-dimensional index into a 1-D sequence")
                return self.getitem(ex, st, base, idx[0], node)
            if isinstance(idx, slice):
                return self.getslice(ex, st, base, idx.start, idx.stop, node)
            if isinstance(idx, SSeq) and idx.elem_sort == B:
                ex.oblige(st, idx.length == base.length, ex._name("broadcast", node), f"line {node.lineno}: boolean mask has the length of the indexed array")
                m, P, R = nonzero_of(ex, st, idx)
                out = SSeq(m, lambda j: base.fn(P(j)), kind="array", elem_sort=base.elem_sort, name="masked")
                out.selected_from = (base, idx)
                return out
            if isinstance(idx, list):
                elems = [base.fn(self.norm_index(ex, st, base, j, node)) for j in idx]
                return seq_of_terms(elems, base.elem_sort)
            i = self.norm_index(ex, st, base, idx, node)
            return base.fn(i)
        if isinstance(base, (list, tuple)):
            if is_sym(idx):
                vals = [to_z3(v) for v in base]
                ex.oblige(st, in_range(to_z3(idx), -len(base), len(base)), ex._name("index", node), f"line {node.lineno}: index in range: {ex.src(node)}")
                out = vals[-1]
                i = z3.If(to_z3(idx) < 0, to_z3(idx) + len(base), to_z3(idx))
                for j in range(len(vals) - 2, -1, -1):
                    out = z3.If(i == j, vals[j], out)
                return out
            try:
                return base[idx]
            except IndexError:
                ex.oblige(st, z3.BoolVal(False), ex._name("index", node), f"line {node.lineno}: index {idx} out of range for a sequence of length {len(base)}: {ex.src(node)}")
                raise Unsupported("concrete index out of range")
        if isinstance(base, dict):
            if idx not in base:
                ex.oblige(st, z3.BoolVal(False), ex._name("key", node), f"line {node.lineno}: key {idx!r} present: {ex.src(node)}")
                raise Unsupported("missing key")
            return base[idx]
        if isinstance(base, GhostMap):
            return base.get(ex, st, idx, node)
        if isinstance(base, range) and isinstance(idx, int) and not isinstance(idx, bool):
            if not (-len(base) <= idx < len(base)):
                ex.oblige(st, z3.BoolVal(False), ex._name("index", node), f"line {node.lineno}: index in range: {ex.src(node)}")
                raise Unsupported("index out of a concrete range")
            return base[idx]
        raise Unsupported(f"subscript of {type(base).__name__} at line {node.lineno}")

    def getslice(self, ex, st, base, lo, hi, node):
        if hasattr(base, "pyvc_getitem"):
            return base.pyvc_getitem(ex, st, slice(lo, hi), node, self)
        if isinstance(base, (list, tuple)) and not is_sym(lo) and not is_sym(hi):
            return base[lo:hi]
        if isinstance(base, SSeq):
            n = base.length

            def clamp(v, default):
                if v is None:
                    return default
                v = to_z3(v)
                v = z3.If(v < 0, v + n, v)
                return z3.If(v < 0, 0, z3.If(v > n, n, v))

            lo_ = clamp(lo, z3.IntVal(0))
            hi_ = clamp(hi, n)
            ln = z3.If(hi_ > lo_, hi_ - lo_, 0)
            return SSeq(z3.simplify(ln), lambda i: base.fn(i + lo_), kind=base.kind, elem_sort=base.elem_sort)
        raise Unsupported(f"slice of {type(base).__name__}")

    def setitem(self, ex, st, base, idx, value, node):
        if hasattr(base, "pyvc_setitem"):
            return base.pyvc_setitem(ex, st, idx, value, node, self)
        if isinstance(base, SSeq):
            if isinstance(idx, tuple):
                idx = tuple(x for x in idx if x is not Ellipsis)
                if len(idx) == 1:
                    idx = idx[0]
            if isinstance(idx, SSeq) and idx.elem_sort == I and isinstance(value, SSeq):
                # scatter  x[..., idx] = vals  with duplicate-free idx (numpy: last write wins; required here)
                i1, i2 = fresh("i"), fresh("j")
                ex.oblige(st, value.length == idx.length, ex._name("broadcast", node), f"line {node.lineno}: as many values as indices in the scatter store")
                ex.oblige(st, forall(i1, z3.Implies(in_range(i1, 0, idx.length), in_range(idx.at(i1), 0, base.length))), ex._name("index", node), f"line {node.lineno}: scatter indices in range: {ex.src(node)[:60]}")
                ex.oblige(st, z3.ForAll([i1, i2], z3.Implies(z3.And(in_range(i1, 0, idx.length), in_range(i2, 0, idx.length), i1 != i2), idx.at(i1) != idx.at(i2))), ex._name("scatter_unique", node), f"line {node.lineno}: scatter indices are pairwise different")
                W = z3.Function(f"scatter_w!{fresh('w').decl().name()}", I, I)
                st.assume(forall(i1, z3.Implies(in_range(i1, 0, idx.length), W(idx.at(i1)) == i1)))
                hit = lambda g: z3.And(in_range(W(g), 0, idx.length), idx.fn(W(g)) == g)
                return SSeq(base.length, lambda g: z3.If(hit(g), value.fn(W(g)), base.fn(g)), kind=base.kind, elem_sort=base.elem_sort, name=base.name)
            if isinstance(idx, SSeq) and idx.elem_sort == I and not isinstance(value, SSeq):
                # scatter of one scalar  x[..., idx] = v : the positions listed in idx get v, the others keep their value
                i1 = fresh("i")
                ex.oblige(st, forall(i1, z3.Implies(in_range(i1, 0, idx.length), in_range(idx.at(i1), 0, base.length))), ex._name("index", node), f"line {node.lineno}: scatter indices in range: {ex.src(node)[:60]}")
                mem = seq_member(ex, idx)
                v = value
                if base.elem_sort == B:
                    v = z3.BoolVal(bool(value)) if not is_sym(value) else value
                elif not is_sym(v):
                    from . import valsort as V

                    v = V.as_val(value) if str(base.elem_sort) == "Val" else to_z3(value)
                out = SSeq(base.length, lambda g: z3.If(mem(g), v, base.fn(g)), kind=base.kind, elem_sort=base.elem_sort, name=base.name)
                out.scattered = (base, idx, v, mem)
                return out
            if isinstance(idx, SSeq) and idx.elem_sort == B:
                # masked store  x[mask] = v  (value semantics: the variable is re-bound to the updated array)
                ex.oblige(st, idx.length == base.length, ex._name("broadcast", node), f"line {node.lineno}: boolean mask has the length of the array")
                if isinstance(value, SSeq):
                    raise Unsupported("masked store of an array value")
                v = to_z3(value) if not (isinstance(value, float)) else value
                if base.elem_sort != I and not is_sym(v):
                    from . import valsort as V

                    v = V.as_val(value)
                return SSeq(base.length, lambda i: z3.If(idx.fn(i), v, base.fn(i)), kind=base.kind, elem_sort=base.elem_sort, name=base.name)
            raise Unsupported("store into a symbolic sequence other than through a boolean mask")
        if isinstance(base, dict):
            d = dict(base)
            d[idx] = value
            return d
        if isinstance(base, list) and not is_sym(idx):
            l = list(base)
            l[idx] = value
            return l
        if isinstance(base, GhostMap):
            return base.set(ex, st, idx, value, node)
        raise Unsupported(f"subscript store into {type(base).__name__}")

    def e_ListComp(self, ex, node, st):
        r = self.comprehension(ex, node, st)
        return [(st, r if isinstance(r, (SSeq, Opaque)) else list(r))]

    def e_DictComp(self, ex, node, st):
        """{k: v for x in <concrete iterable>}: unrolled"""
        if len(node.generators) != 1:
            raise Unsupported("nested dict comprehension")
        g = node.generators[0]
        it = self.eval1(ex, g.iter, st)
        if isinstance(it, dict):
            it = list(it)
        if type(it).__name__ == "ZipIter" and it.concrete_len() is not None:
            it = it.concrete_items()
        if not isinstance(it, (list, tuple, range)):
            raise Unsupported("dict comprehension over a symbolic-length sequence")
        out = {}
        for item in it:
            base = len(st.pc)
            s = st.fork()
            ex.assign(g.target, item, s)
            ok = True
            for cond in g.ifs:
                c = self.eval1(ex, cond, s)
                if is_sym(c):
                    # decided by the path condition? (as for list comprehensions)
                    cb = zbool(c)
                    s_t, s_f = s.fork(), s.fork()
                    s_t.assume(cb)
                    s_f.assume(z3.Not(cb))
                    ft, ff = ex.feasible(s_t), ex.feasible(s_f)
                    if ft and ff:
                        raise Unsupported("symbolic filter in a dict comprehension")
                    c = ft
                ok = ok and bool(c)
            if ok:
                kk = self.eval1(ex, node.key, s)
                if is_sym(kk):
                    raise Unsupported("symbolic key in a dict comprehension")
                out[kk] = self.eval1(ex, node.value, s)
            for f in s.pc[base:]:
                st.assume(f)
        return [(st, out)]

    def e_GeneratorExp(self, ex, node, st):
        r = self.comprehension(ex, node, st)
        return [(st, r if isinstance(r, (SSeq, Opaque)) else list(r))]

    def comprehension(self, ex, node, st):
        if len(node.generators) != 1:
            raise Unsupported("nested comprehension")
        g = node.generators[0]
        it = self.eval1(ex, g.iter, st)
        if isinstance(it, ZipIter) and it.concrete_len() is not None:
            it = it.concrete_items()
        if isinstance(it, dict):
            it = list(it)
        if isinstance(it, SSeq):
            if g.ifs:
                raise Unsupported("filtered comprehension over a symbolic-length sequence")
            k = fresh("ck")
            s2 = st.fork()
            s2.assume(in_range(k, 0, it.length))
            ex.assign(g.target, it.at(k), s2)
            elt = self.eval1(ex, node.elt, s2)
            if is_sym(elt):
                return SSeq(it.length, lambda i, elt=elt, k=k: z3.substitute(elt, (k, i)), kind="list", elem_sort=elt.sort())
            if isinstance(elt, int) and not isinstance(elt, bool):
                return SSeq(it.length, lambda i, elt=elt: z3.IntVal(elt), kind="list", elem_sort=I)  # a constant per member
            return Opaque("list-of-objects", length=it.length)
        if isinstance(it, Opaque):
            return Opaque("list-of-objects")
        if not isinstance(it, (list, tuple, range)):
            raise Unsupported("comprehension over a symbolic-length sequence")
        out = []
        for item in it:
            base = len(st.pc)
            s = st.fork()
            ex.assign(g.target, item, s)
            ok = True
            for cond in g.ifs:
                c = self.eval1(ex, cond, s)
                if is_sym(c):
                    # decided by the path condition? (a size known to be >= 2 is not 1)
                    cb = zbool(c)
                    s_t, s_f = s.fork(), s.fork()
                    s_t.assume(cb)
                    s_f.assume(z3.Not(cb))
                    ft, ff = ex.feasible(s_t), ex.feasible(s_f)
                    if ft and ff:
                        raise Unsupported("symbolic filter in a comprehension")
                    c = ft
                ok = ok and bool(c)
            if ok:
                out.append(self.eval1(ex, node.elt, s))
            # path-local ghost records made by callees while evaluating the element belong to this path as well
            if getattr(s, "ghost", None) is not None and s.ghost is not st.ghost:
                st.ghost.update(s.ghost)
            # facts established while evaluating the element (postconditions of callees) hold afterwards:
            # with a concrete iterable every element expression is evaluated exactly once
            for f in s.pc[base:]:
                st.assume(f)
        return out

    # ------------------------------------------------------------------ calls
    def e_Call(self, ex, node, st):
        fn = self.eval1(ex, node.func, st)
        args = []
        for a in node.args:
            if isinstance(a, ast.Starred):
                v = self.eval1(ex, a.value, st)
                if type(v).__name__ == "ZipIter" and v.concrete_len() is not None:
                    v = v.concrete_items()
                if not isinstance(v, (list, tuple)):
                    raise Unsupported("star-args of a symbolic sequence")
                args.extend(v)
            else:
                args.append(self.eval1(ex, a, st))
        kwargs = {}
        out_name = None
        for kw in node.keywords:
            if kw.arg is None:
                kwargs.update(self.eval1(ex, kw.value, st))
            else:
                kwargs[kw.arg] = self.eval1(ex, kw.value, st)
                if kw.arg == "out" and isinstance(kw.value, ast.Name) and isinstance(fn, ModRef) and fn.path in UFUNCS_WITH_OUT:
                    out_name = kw.value.id
        res = self.call(ex, st, fn, args, kwargs, node)
        if out_name is not None:
            # ufunc(..., out=x) writes its result into x (and returns x): the variable is rebound to the new content
            for s2, v in res:
                s2.vars[out_name] = v
                cut = ex.contract.cuts.get(out_name + "@out")
                if cut is not None and not s2.ghost.get(("cut", out_name + "@out")):
                    s2.ghost[("cut", out_name + "@out")] = True
                    for name_, f_ in cut(ex, {**s2.vars, "__state__": s2}):
                        if ex.oblige(s2, f_, f"{ex.contract.prefix}.cut.{out_name}.{name_}", f"intermediate fact about {out_name} after the in-place update: {name_}"):
                            s2.assume(f_)
        return res

    def call(self, ex, st, fn, args, kwargs, node):
        if isinstance(fn, ModRef) and fn.path.startswith("flox.") and fn.path not in self.models:
            fn = RepoFunc(fn.path.split(".")[-1])  # imported from another module of the repository
        if isinstance(fn, ModRef):
            m = self.models.get(fn.path)
            if m is None:
                raise Unsupported(f"no model for {fn.path} (line {node.lineno})")
            self.used.add(fn.path)
            r = m(ex, st, args, kwargs, node)
            return r if isinstance(r, list) and r and isinstance(r[0], tuple) and len(r[0]) == 2 and hasattr(r[0][0], "pc") else [(st, r)]
        if isinstance(fn, Method):
            r = self.method(ex, st, fn.obj, fn.attr, args, kwargs, node)
            return [(st, r)]
        if isinstance(fn, RepoFunc):
            c = ex.callees.get(fn.name)
            if c is None:
                raise Unsupported(f"call of in-repo function {fn.name} without a contract (line {node.lineno})")
            r = c(ex, st, args, kwargs, node)
            if isinstance(r, list) and r and isinstance(r[0], tuple) and len(r[0]) == 2 and hasattr(r[0][0], "pc"):
                return r
            return [(st, r)]
        if isinstance(fn, Closure):
            return [(st, self.call_closure(ex, st, fn, args, kwargs, node))]
        if hasattr(fn, "pyvc_call"):
            r = fn.pyvc_call(ex, st, args, kwargs, node, self)
            return r if isinstance(r, list) else [(st, r)]
        if isinstance(fn, tuple) and fn and fn[0] == "localfunc":
            return self.call_local(ex, st, fn[1], args, kwargs, node)
        raise Unsupported(f"call of {type(fn).__name__} at line {node.lineno}")

    def call_local(self, ex, st, fdef, args, kwargs, node):
        """A nested def (closure over the enclosing function's variables): executed in place, path by path."""
        child = st.fork()
        params = [a.arg for a in fdef.args.args]
        for p_, a in zip(params, args):
            child.vars[p_] = a
        for k_, v in kwargs.items():
            child.vars[k_] = v
        outs = []
        for s2, sig, val in ex.exec_block(fdef.body, child):
            if sig not in (Signal.RETURN, Signal.NORMAL):
                raise Unsupported("nested function raising / looping out")
            s3 = st.fork()
            s3.pc = list(s2.pc)
            outs.append((s3, val if sig == Signal.RETURN else None))
        return outs

    def call_closure(self, ex, st, fn, args, kwargs, node):
        s = st.fork()
        s.vars = dict(fn.env)
        params = [a.arg for a in fn.node.args.args]
        for p, a in zip(params, args):
            s.vars[p] = a
        return self.eval1(ex, fn.node.body, s)

    def method(self, ex, st, obj, attr, args, kwargs, node):
        if hasattr(obj, "pyvc_method"):
            return obj.pyvc_method(ex, st, attr, args, kwargs, node, self)
        if isinstance(obj, SSeq):
            if attr == "all":
                k = fresh("i")
                return forall(k, z3.Implies(in_range(k, 0, obj.length), zbool(obj.at(k))))
            if attr == "any":
                k = fresh("i")
                return z3.Exists([k], z3.And(in_range(k, 0, obj.length), zbool(obj.at(k))))  # numpy: any non-zero / true element
            if attr == "append":
                (v,) = args
                arr = z3.Const(f"{obj.name}_app!{fresh('a').decl().name()}", z3.ArraySort(I, obj.elem_sort))
                k = fresh("i")
                n = obj.length
                st.assume(forall(k, z3.Implies(in_range(k, 0, n), z3.Select(arr, k) == obj.at(k))))
                st.assume(z3.Select(arr, n) == to_z3(v))
                new = SSeq.from_array(n + 1, arr, kind=obj.kind, name=obj.name)
                self.rebind(ex, st, obj, new, node)
                return None
            if attr in ("astype", "copy", "tolist", "squeeze", "ravel", "flatten", "to_numpy"):
                return obj
            if attr == "reshape":
                shp = args[0] if len(args) == 1 else tuple(args)
                if isinstance(shp, tuple) and len(shp) == 2:
                    from .arr2 import reshape_seq

                    if isinstance(shp[1], int) and shp[1] == -1:
                        ex.oblige(st, to_z3(shp[0]) == obj.length, ex._name("reshape", node), f"line {node.lineno}: reshape((n, -1)) of a length-n array gives one column")
                    return reshape_seq(obj, shp)
                return obj
            if attr == "sum":
                return psum(ex, st, obj)(obj.length)
            if attr == "item":
                ex.oblige(st, obj.length == 1, ex._name("item", node), f"line {node.lineno}: .item() needs exactly one element")
                return obj.at(0)
            if attr == "nonzero":
                m, P, R = nonzero_of(ex, st, obj)
                return (SSeq(m, lambda j: P(j), kind="array", name="nonzero"),)
            if attr == "argsort":
                return stable_argsort(ex, st, obj, kwargs, node)
            if attr == "max":
                return seq_max(ex, st, obj, node)
            if attr == "min":
                return seq_min(ex, st, obj, node)
        if isinstance(obj, list):
            if attr == "append":
                new = list(obj) + [args[0]]
                self.rebind(ex, st, obj, new, node)
                return None
            if attr == "extend":
                new = list(obj) + list(args[0])
                self.rebind(ex, st, obj, new, node)
                return None
        if isinstance(obj, dict):
            if attr == "get":
                return obj.get(args[0], args[1] if len(args) > 1 else None)
            if attr == "items":
                return list(obj.items())
            if attr == "keys":
                return list(obj.keys())
            if attr == "values":
                return list(obj.values())
            if attr == "update":
                newd = dict(obj)
                for a_ in args:
                    newd.update(a_)
                newd.update(kwargs)
                self.rebind(ex, st, obj, newd, node)
                return None
        if isinstance(obj, (GhostSet, GhostMap, Record)):
            return obj.method(ex, st, attr, args, kwargs, node, self)
        # side-effect free methods of concrete Python containers on concrete arguments: CPython's own semantics
        pure = {set: ("issubset", "issuperset", "union", "intersection", "difference", "isdisjoint"), frozenset: ("issubset", "issuperset", "union", "intersection", "difference", "isdisjoint"),
                list: ("index", "count"), tuple: ("index", "count"), str: ("startswith", "endswith", "lower", "upper")}
        for ty, names in pure.items():
            if type(obj) is ty and attr in names and not kwargs and all(isinstance(a_, (int, str, float, bool, tuple, list, set, frozenset, type(None))) and not is_sym(a_) for a_ in args):
                if ty in (list, tuple) and attr == "index" and not any(x is args[0] or (not is_sym(x) and not hasattr(x, "pyvc_getattr") and x == args[0]) for x in obj):
                    ex.oblige(st, z3.BoolVal(False), ex._name("python.index.member", node), f"line {node.lineno}: .index() needs a member of the sequence (ValueError otherwise)")
                    raise Unsupported(f".index of a non-member at line {node.lineno}")
                return getattr(obj, attr)(*args)
        raise Unsupported(f"method {attr!r} of {type(obj).__name__} at line {node.lineno}")

    def rebind(self, ex, st, old, new, node):
        """list.append etc.: functional update of every variable bound to the mutated object."""
        hit = False
        for k, v in list(st.vars.items()):
            if v is old:
                st.vars[k] = new
                hit = True
            elif isinstance(v, dict) and any(x is old for x in v.values()):
                # the mutated object is a value of a dict bound to a variable (results["intermediates"].append(...))
                st.vars[k] = {kk: (new if x is old else x) for kk, x in v.items()}
                hit = True
            elif isinstance(v, list) and any(x is old for x in v):
                st.vars[k] = [new if x is old else x for x in v]
                hit = True
        if not hit:
            raise Unsupported(f"mutation of an object not bound to a variable (line {node.lineno})")

    # ------------------------------------------------------------------ models of primitives (ASSUMED contracts)
    def register(self, path, fn):
        self.models[path] = fn

    def register_defaults(self):
        R = self.register
        R("builtins.len", self.m_len)
        R("builtins.abs", lambda ex, st, a, k, n: z3.If(to_z3(a[0]) >= 0, to_z3(a[0]), -to_z3(a[0])) if is_sym(a[0]) else abs(a[0]))
        R("builtins.sum", self.m_sum)
        R("builtins.tuple", lambda ex, st, a, k, n: (retag(a[0], "tuple") if isinstance(a[0], SSeq) else (a[0] if isinstance(a[0], Opaque) else tuple(a[0]))) if a else ())
        R("builtins.list", lambda ex, st, a, k, n: (retag(a[0], "list") if isinstance(a[0], SSeq) else (a[0] if isinstance(a[0], Opaque) else list(a[0]))) if a else [])
        R("builtins.map", lambda ex, st, a, k, n: Opaque("map-object"))
        R("functools.partial", lambda ex, st, a, k, n: PartialVal(a[0], list(a[1:]), dict(k)))
        R("builtins.zip", lambda ex, st, a, k, n: ZipIter(list(a)))
        R("builtins.enumerate", lambda ex, st, a, k, n: EnumIter(a[0]) if isinstance(a[0], SSeq) else list(enumerate(a[0].concrete_items() if isinstance(a[0], ZipIter) else a[0])))
        R("builtins.range", self.m_range)
        R("builtins.int", lambda ex, st, a, k, n: a[0])
        R("builtins.bool", lambda ex, st, a, k, n: zbool(a[0]) if is_sym(a[0]) or isinstance(a[0], SSeq) else bool(a[0]))
        R("builtins.isinstance", self.m_isinstance)
        R("builtins.max", self.m_max)
        R("builtins.min", self.m_min)
        R("builtins.all", self.m_all)
        R("builtins.any", self.m_any)
        def m_sorted(ex, st, a, k, n):
            if isinstance(a[0], (SSeq, Opaque)):
                if k:
                    raise Unsupported("sorted(key= / reverse=) of a symbolic sequence")
                return a[0]  # order of a symbolic sequence is immaterial at this level
            items = list(a[0])
            key, rev = k.get("key"), k.get("reverse", False)
            if set(k) - {"key", "reverse"} or not isinstance(rev, bool):
                raise Unsupported("sorted with unknown keyword arguments")
            if key is None:
                return sorted(items, reverse=rev)
            keys = []
            for it in items:  # the key function is executed on every member; it must come back with one concrete value
                outs = self.call(ex, st, key, [it], {}, n)
                if len(outs) != 1 or is_sym(outs[0][1]) or not isinstance(outs[0][1], (int, float, str, tuple)):
                    raise Unsupported("sorted(key=...) with a key that is not a concrete value on one path")
                keys.append(outs[0][1])
            order = sorted(range(len(items)), key=lambda i: keys[i], reverse=rev)  # CPython: stable
            return [items[i] for i in order]

        R("builtins.sorted", m_sorted)
        def m_dict(ex, st, a, k, n):
            if a and isinstance(a[0], ZipIter):
                if a[0].concrete_len() is None:
                    raise Unsupported("dict(zip(...)) of symbolic-length sequences")
                a = [a[0].concrete_items()] + list(a[1:])
            return dict(*a, **k)

        R("builtins.dict", m_dict)
        R("builtins.set", lambda ex, st, a, k, n: GhostSet.empty() if not a else set(a[0]))
        R("numpy.cumsum", self.m_cumsum)
        R("numpy.diff", self.m_diff)
        R("numpy.arange", self.m_arange)
        R("numpy.asarray", lambda ex, st, a, k, n: a[0])
        R("numpy.array", lambda ex, st, a, k, n: a[0] if isinstance(a[0], SSeq) else (seq_of_terms([z3.BoolVal(x) for x in a[0]], B) if isinstance(a[0], (list, tuple)) and a[0] and all(isinstance(x, bool) for x in a[0]) else (seq_of(a[0], "array") if isinstance(a[0], (list, tuple)) and a[0] and all(isinstance(x, int) or is_sym(x) for x in a[0]) else a[0])))
        R("numpy.insert", self.m_insert)
        R("numpy.isin", self.m_isin)
        R("numpy.any", lambda ex, st, a, k, n: self.method(ex, st, a[0], "any", [], {}, n))
        R("numpy.all", lambda ex, st, a, k, n: self.method(ex, st, a[0], "all", [], {}, n))
        R("numpy.median", self.m_opaque_int("numpy.median"))
        R("math.prod", self.m_prod)
        R("typing.cast", lambda ex, st, a, k, n: a[1])  # dropped by extraction: cast(T, x) -> x
        R("numpy.concatenate", lambda ex, st, a, k, n: seq_concat(a[0][0], a[0][1]) if len(a[0]) == 2 else (_ for _ in ()).throw(Unsupported("concatenate of other than two arrays")))
        R("builtins.callable", lambda ex, st, a, k, n: isinstance(a[0], (RepoFunc, Closure, PartialVal)) or hasattr(a[0], "pyvc_call") or (isinstance(a[0], ModRef)) or (isinstance(a[0], tuple) and a[0] and a[0][0] == "localfunc"))
        R("numpy.isnan", self.m_isnan)
        R("numpy.maximum.accumulate", self.m_running_max)
        R("numpy.nan_to_num", self.m_nan_to_num)
        R("builtins.slice", lambda ex, st, a, k, n: slice(*a))
        R("numpy.add", lambda ex, st, a, k, n: self.m_ufunc2(ex, st, ast.Add(), a, k, n))
        R("numpy.subtract", lambda ex, st, a, k, n: self.m_ufunc2(ex, st, ast.Sub(), a, k, n))
        R("numpy.empty_like", self.m_empty_like)
        R("builtins.reversed", lambda ex, st, a, k, n: list(reversed(a[0])) if isinstance(a[0], (list, tuple, range)) else (SSeq(a[0].length, lambda i, s_=a[0]: s_.fn(s_.length - 1 - i), kind=a[0].kind, elem_sort=a[0].elem_sort) if isinstance(a[0], SSeq) else (_ for _ in ()).throw(Unsupported("reversed of an opaque value"))))
        R("numpy.full", self.m_full)
        R("numpy.where", self.m_where)
        R("numpy.zeros_like", lambda ex, st, a, k, n: SSeq(a[0].length, lambda i: z3.IntVal(0), kind="array"))
        R("numpy.digitize", self.m_digitize)
        R("numpy.sqrt", lambda ex, st, a, k, n: SQRT(coerce(a[0], z3.RealVal(0))[0]))
        R("numpy.errstate", lambda ex, st, a, k, n: None)
        R("math.ceil", lambda ex, st, a, k, n: a[0] if isinstance(a[0], int) else math.ceil(a[0]) if not is_sym(a[0]) else a[0])
        R("numpy_groupies.aggregate_numpy.aggregate", self.m_npg_aggregate)

    def m_all(self, ex, st, a, k, node):
        x = a[0]
        if isinstance(x, Opaque):
            return z3.Bool(f"all!{fresh('a').decl().name()}")
        if isinstance(x, SSeq):
            return self.method(ex, st, x, "all", [], {}, node)
        return z3.And([zbool(v) for v in x]) if any(is_sym(v) or hasattr(v, "truth") for v in x) else all(x)

    def m_any(self, ex, st, a, k, node):
        x = a[0]
        if isinstance(x, Opaque):
            return z3.Bool(f"any!{fresh('a').decl().name()}")
        if isinstance(x, SSeq):
            return self.method(ex, st, x, "any", [], {}, node)
        return z3.Or([zbool(v) for v in x]) if any(is_sym(v) or hasattr(v, "truth") for v in x) else any(x)

    def m_opaque_int(self, name):
        def f(ex, st, a, k, n):
            return fresh(name.replace(".", "_"))

        return f

    def m_len(self, ex, st, a, k, node):
        x = a[0]
        if hasattr(x, "pyvc_len"):
            return x.pyvc_len()
        if isinstance(x, SSeq):
            return x.length
        if isinstance(x, GhostMap):
            return x.size
        if isinstance(x, Opaque):
            n = x.attrs.get("length")
            if n is None:
                n = fresh("len")
                st.assume(n >= 0)
            return n
        return len(x)

    def m_sum(self, ex, st, a, k, node):
        x = a[0]
        if isinstance(x, SSeq):
            return psum(ex, st, x)(x.length)
        vals = list(x)
        if any(is_sym(v) for v in vals):
            return z3.Sum([to_z3(v) for v in vals]) if vals else z3.IntVal(0)
        return sum(vals)

    def m_range(self, ex, st, a, k, node):
        if all(isinstance(x, int) and not is_sym(x) for x in a):
            return range(*a)
        if len(a) == 1:
            n = to_z3(a[0])
            return SSeq(z3.If(n > 0, n, 0), lambda i: i, kind="range")
        if len(a) == 2:
            lo, hi = to_z3(a[0]), to_z3(a[1])
            return SSeq(z3.If(hi > lo, hi - lo, 0), lambda i: i + lo, kind="range")
        raise Unsupported("range with a symbolic step")

    def m_isinstance(self, ex, st, a, k, node):
        val, typ = a
        names = [t.path.split(".")[-1] for t in (typ if isinstance(typ, tuple) else (typ,)) if isinstance(t, ModRef)]
        names += [t.name for t in (typ if isinstance(typ, tuple) else (typ,)) if isinstance(t, RepoFunc)]
        if isinstance(val, SSeq):
            kinds = {"array": {"ndarray"}, "tuple": {"tuple", "Sequence"}, "list": {"list", "Sequence"}, "range": {"range", "Sequence"}}[val.kind]
            return any(nm in kinds for nm in names)
        if isinstance(val, Record):
            return val.kind in names
        if is_sym(val) and z3.is_string(val):
            return any(nm == "str" for nm in names)
        if is_sym(val):
            if isinstance(val, z3.ArithRef):
                return any(nm in ("int", "Integral", "integer") for nm in names)
            return any(nm in ("bool",) for nm in names)
        pyt = {"int": int, "str": str, "tuple": tuple, "list": list, "dict": dict, "bool": bool, "float": float, "Integral": int, "Sequence": (list, tuple), "slice": slice}
        return any(isinstance(val, pyt[nm]) for nm in names if nm in pyt)

    def m_max(self, ex, st, a, k, node):
        vals = list(a[0]) if len(a) == 1 and isinstance(a[0], (list, tuple)) else list(a)
        if len(a) == 1 and isinstance(a[0], SSeq):
            return seq_max(ex, st, a[0], node)
        if any(is_sym(v) for v in vals):
            out = to_z3(vals[0])
            for v in vals[1:]:
                out = z3.If(to_z3(v) > out, to_z3(v), out)
            return out
        return max(vals)

    def m_min(self, ex, st, a, k, node):
        vals = list(a[0]) if len(a) == 1 and isinstance(a[0], (list, tuple)) else list(a)
        if len(a) == 1 and isinstance(a[0], SSeq):
            return seq_min(ex, st, a[0], node)
        if any(is_sym(v) for v in vals):
            out = to_z3(vals[0])
            for v in vals[1:]:
                out = z3.If(to_z3(v) < out, to_z3(v), out)
            return out
        return min(vals)

    def m_prod(self, ex, st, a, k, node):
        vals = list(a[0])
        out = 1
        for v in vals:
            out = out * v
        return out

    def m_cumsum(self, ex, st, a, k, node):
        x = a[0]
        if not isinstance(x, SSeq):
            raise Unsupported("cumsum of a concrete sequence")
        P = psum(ex, st, x)
        return SSeq(x.length, lambda i: P(i + 1), kind="array")

    def m_diff(self, ex, st, a, k, node):
        x = a[0]
        if not isinstance(x, SSeq):
            raise Unsupported("diff of a concrete sequence")
        ex.oblige(st, x.length >= 1, ex._name("diff", node), f"line {node.lineno}: np.diff of a non-empty sequence")
        d = SSeq(x.length - 1, lambda i: x.fn(i + 1) - x.fn(i), kind="array")
        d.diff_of = x
        return d

    def m_arange(self, ex, st, a, k, node):
        if len(a) == 1:
            n = to_z3(a[0])
            return SSeq(n, lambda i: i, kind="array", name="arange")
        raise Unsupported("arange with several arguments")

    def m_insert(self, ex, st, a, k, node):
        arr, pos, val = a
        if isinstance(arr, SSeq) and pos == 0:
            return SSeq(arr.length + 1, lambda i: z3.If(i == 0, to_z3(val), arr.fn(i - 1)), kind="array")
        raise Unsupported("np.insert other than at position 0")

    def m_isin(self, ex, st, a, k, node):
        x, test = a[0], a[1]
        if isinstance(x, SSeq):
            return x.map(lambda v: self.contains(ex, st, test, v), B)
        raise Unsupported("isin on a concrete sequence")

    def m_isnan(self, ex, st, a, k, node):
        """np.isnan elementwise on extended reals (ASSUMED)"""
        from . import valsort as V

        x = a[0]
        if isinstance(x, SSeq):
            if x.elem_sort == V.Val:
                return x.map(lambda v: V.is_nan(v), B)
            return x.map(lambda v: z3.BoolVal(False), B)  # integers / reals of the model are never NaN
        if is_sym(x) and x.sort() == V.Val:
            return V.is_nan(x)
        raise Unsupported("np.isnan of this value")

    def m_running_max(self, ex, st, a, k, node):
        """np.maximum.accumulate(x) along the (only) axis (ASSUMED): M[0] = x[0], M[i+1] = max(M[i], x[i+1])"""
        x = a[0]
        if not (isinstance(x, SSeq) and x.elem_sort == I):
            raise Unsupported("maximum.accumulate of this value")
        M = z3.Function(f"running_max!{fresh('m').decl().name()}", I, I)
        i = fresh("i")
        st.assume(z3.Implies(x.length >= 1, M(0) == x.at(0)))
        st.assume(forall(i, z3.Implies(in_range(i, 0, x.length - 1), M(i + 1) == z3.If(x.at(i + 1) >= M(i), x.at(i + 1), M(i))), patterns=[M(i + 1)]))
        out = SSeq(x.length, lambda t: M(t), kind="array", elem_sort=I, name="running_max")
        out.running_max_of = (x, M)
        return out

    def m_nan_to_num(self, ex, st, a, k, node):
        """np.nan_to_num(x, nan=v, posinf=None, neginf=None): NaN -> v, and - unless told otherwise - +inf / -inf -> the largest /
        smallest finite float64"""
        from . import valsort as V

        x = a[0]
        if not (isinstance(x, SSeq) and x.elem_sort == V.Val):
            raise Unsupported("np.nan_to_num of this value")
        big = z3.RealVal("179769313486231570814527423731704356798070567525844996598917476803157260780028538760589558632766878171540458953514382464234321326889464182768467546703537516986049910576551282076245490090389328944075868508455133942304583236903222948165808559332123348274797826204144723168738177180919299881250404026184124858368")
        nanv = V.as_val(k.get("nan", 0.0))
        pos = V.as_val(k["posinf"]) if k.get("posinf") is not None else V.fin(big)
        neg = V.as_val(k["neginf"]) if k.get("neginf") is not None else V.fin(-big)
        return x.map(lambda v: z3.If(V.is_nan(v), nanv, z3.If(V.is_pinf(v), pos, z3.If(V.is_ninf(v), neg, v))), V.Val)

    def m_ufunc2(self, ex, st, op, a, k, node):
        """np.add / np.subtract (ASSUMED elementwise); with out= and where=: positions where the mask is false keep out's content"""
        r = self.binop(ex, st, op, a[0], a[1], node)
        where, out = k.get("where"), k.get("out")
        if where is None:
            return r
        if not (isinstance(out, SSeq) and isinstance(where, SSeq) and isinstance(r, SSeq)):
            raise Unsupported("ufunc where= without an out array")
        ex.oblige(st, z3.And(where.length == r.length, out.length == r.length), ex._name("broadcast", node), f"line {node.lineno}: where / out have the length of the result")
        return SSeq(r.length, lambda i: z3.If(where.fn(i), r.fn(i), out.fn(i)), kind="array", elem_sort=r.elem_sort, name="ufunc_where")

    def m_empty_like(self, ex, st, a, k, node):
        x = a[0]
        if not isinstance(x, SSeq):
            raise Unsupported("np.empty_like of a non-array")
        f = z3.Function(f"uninitialised!{fresh('e').decl().name()}", I, x.elem_sort)
        return SSeq(x.length, lambda i: f(i), kind="array", elem_sort=x.elem_sort, name="empty_like")

    def m_where(self, ex, st, a, k, node):
        cond, x, y = a
        if not isinstance(cond, SSeq):
            raise Unsupported("np.where on a scalar condition")
        xs = (lambda i: x.fn(i)) if isinstance(x, SSeq) else (lambda i: x if is_sym(x) else to_z3(x))
        ys = (lambda i: y.fn(i)) if isinstance(y, SSeq) else (lambda i: y if is_sym(y) else to_z3(y))
        sort = (x if isinstance(x, SSeq) else y).elem_sort if isinstance(x, SSeq) or isinstance(y, SSeq) else I
        if str(sort) == "Val":
            from . import valsort as V

            if not isinstance(x, SSeq):
                xs = lambda i: V.as_val(x)
            if not isinstance(y, SSeq):
                ys = lambda i: V.as_val(y)
        return SSeq(cond.length, lambda i: z3.If(cond.fn(i), xs(i), ys(i)), kind="array", elem_sort=sort, name="where")

    def m_full(self, ex, st, a, k, node):
        shape = a[0] if a else k.get("shape")
        fv = k.get("fill_value", a[1] if len(a) > 1 else None)
        if not (isinstance(shape, tuple) and len(shape) == 1):
            raise Unsupported("np.full with a shape other than (n,)")
        v = fv
        sort = I
        dt = k.get("dtype")
        want_val = isinstance(dt, Record) and dt.fields.get("kind") == "f"
        if want_val and not is_sym(fv):
            from . import valsort as V

            return SSeq(to_z3(shape[0]), lambda i, v=V.as_val(fv if fv is not None else float("nan")): v, kind="array", elem_sort=V.Val, name="full")
        if is_sym(fv):
            sort = fv.sort()
        elif isinstance(fv, float) or fv is None:
            from . import valsort as V

            v = V.as_val(fv if fv is not None else float("nan"))
            sort = V.Val
        else:
            v = to_z3(fv)
        return SSeq(to_z3(shape[0]), lambda i, v=v: v, kind="array", elem_sort=sort, name="full")

    def m_digitize(self, ex, st, a, k, node):
        """np.digitize(x, bins, right) for increasing real bins and extended-real x (ASSUMED contract):
        d = number of bins below x  (bins[j] <= x, or bins[j] < x when right=True); NaN sorts after every bin."""
        from . import valsort as V

        x = a[0]
        bins = k.get("bins", a[1] if len(a) > 1 else None)
        right = k.get("right", False)
        nb = bins.length
        j, i = fresh("j"), fresh("i")
        ex.oblige(st, forall(j, z3.Implies(in_range(j, 0, nb - 1), bins.at(j) < bins.at(j + 1))), ex._name("digitize", node), f"line {node.lineno}: np.digitize is given monotonically increasing bins")
        # name the bins by an array constant so that the axioms below have if-free triggers
        barr = z3.Const(f"bins!{fresh('b').decl().name()}", z3.ArraySort(I, bins.elem_sort))
        st.assume(forall(j, z3.Implies(in_range(j, 0, nb), z3.Select(barr, j) == bins.at(j)), patterns=[z3.Select(barr, j)]))
        bins0 = bins
        try:
            # second trigger: from the bins' own element term to its array name (only when that term is a plain application)
            t0 = bins0.at(j)
            if z3.is_app(t0) and t0.decl().kind() == z3.Z3_OP_UNINTERPRETED and t0.num_args() == 1 and t0.arg(0).eq(j):
                st.assume(forall(j, z3.Implies(in_range(j, 0, nb), z3.Select(barr, j) == t0), patterns=[t0]))
        except z3.Z3Exception:
            pass
        bins = SSeq(nb, lambda t, barr=barr: z3.Select(barr, t), kind="array", elem_sort=bins.elem_sort, name="bins")
        D = z3.Function(f"digitize!{fresh('d').decl().name()}", I, I)
        below = (lambda b, xv: V.v_lt(b, xv)) if right is True else ((lambda b, xv: V.v_le(b, xv)) if right is False else (lambda b, xv: z3.If(right, V.v_lt(b, xv), V.v_le(b, xv))))
        st.assume(forall(i, z3.Implies(in_range(i, 0, x.length), z3.And(D(i) >= 0, D(i) <= nb)), patterns=[D(i)]))
        st.assume(forall(i, z3.Implies(z3.And(in_range(i, 0, x.length), V.is_nan(x.at(i))), D(i) == nb), patterns=[D(i)]))
        st.assume(z3.ForAll([i, j], z3.Implies(z3.And(in_range(i, 0, x.length), in_range(j, 0, nb), z3.Not(V.is_nan(x.at(i)))), (j < D(i)) == below(bins.at(j), x.at(i))), patterns=[z3.MultiPattern(D(i), bins.at(j))]))
        return SSeq(x.length, lambda t: D(t), kind="array", name="digitized")

    def m_npg_aggregate(self, ex, st, a, k, node):
        """numpy_groupies.aggregate(labels, arange(n), func='first'|'last'): index of the first / last occurrence of
        every label (ASSUMED contract; labels non-negative)."""
        labels, values = a[0], a[1]
        func = k.get("func")
        if not (isinstance(labels, SSeq) and isinstance(values, SSeq) and getattr(values, "name", "") == "arange" and func in ("first", "last")):
            raise Unsupported("npg.aggregate pattern other than (labels, arange(len(labels)), func='first'|'last')")
        n = labels.length
        ex.oblige(st, values.length == n, ex._name("npg", node), f"line {node.lineno}: group_idx and values have equal lengths")
        i = fresh("i")
        ex.oblige(st, forall(i, z3.Implies(in_range(i, 0, n), labels.at(i) >= 0)), ex._name("npg", node), f"line {node.lineno}: numpy_groupies needs non-negative group indices")
        f = z3.Function(f"npg_{func}!{fresh('f').decl().name()}", I, I)
        size = fresh("npg_size")
        st.assume(size >= 0)
        st.assume(forall(i, z3.Implies(in_range(i, 0, n), z3.And(labels.at(i) < size))))
        if func == "last":
            st.assume(forall(i, z3.Implies(in_range(i, 0, n), z3.And(f(labels.at(i)) >= i, f(labels.at(i)) < n, labels.at(f(labels.at(i))) == labels.at(i))), patterns=[f(labels.at(i))]))
        else:
            st.assume(forall(i, z3.Implies(in_range(i, 0, n), z3.And(f(labels.at(i)) <= i, f(labels.at(i)) >= 0, labels.at(f(labels.at(i))) == labels.at(i))), patterns=[f(labels.at(i))]))
        # derived fact (proved from the assumed contract above, then used with a good trigger):
        # the position next to the last (before the first) occurrence of a label holds a different label
        s2 = st.fork()
        i0 = fresh("i0")
        s2.assume(in_range(i0, 0, n))
        if func == "last":
            derived = lambda t: z3.Implies(f(labels.at(t)) + 1 < n, labels.at(f(labels.at(t)) + 1) != labels.at(t))
        else:
            derived = lambda t: z3.Implies(f(labels.at(t)) >= 1, labels.at(f(labels.at(t)) - 1) != labels.at(t))
        if ex.oblige(s2, derived(i0), ex._name(f"npg_{func}_neighbour", node), f"line {node.lineno}: consequence of the {func}-occurrence contract: the neighbouring position holds another label"):
            st.assume(forall(i, z3.Implies(in_range(i, 0, n), derived(i)), patterns=[f(labels.at(i))]))
        out = SSeq(size, lambda j: f(j), kind="array")
        out.npg = (func, labels)
        return out


# ---------------------------------------------------------------------- helpers on sequences


def retag(seq, kind):
    s = SSeq(seq.length, seq.fn, kind=kind, elem_sort=seq.elem_sort, name=seq.name)
    for a in ("diff_of", "_psum"):
        if hasattr(seq, a):
            setattr(s, a, getattr(seq, a))
    return s


def seq_of(values, kind="tuple"):
    vals = [to_z3(v) for v in values]
    n = len(vals)

    def fn(i):
        out = vals[-1] if vals else z3.IntVal(0)
        for j in range(n - 2, -1, -1):
            out = z3.If(i == j, vals[j], out)
        return out

    return SSeq(z3.IntVal(n), fn, kind=kind)


def seq_of_terms(terms, sort):
    n = len(terms)

    def fn(i):
        out = terms[-1]
        for j in range(n - 2, -1, -1):
            out = z3.If(i == j, terms[j], out)
        return out

    return SSeq(z3.IntVal(n), fn, kind="array", elem_sort=sort)


def seq_concat(a, b):
    return SSeq(z3.simplify(a.length + b.length), lambda i: z3.If(i < a.length, a.fn(i), b.fn(i - a.length)), kind="array" if "array" in (a.kind, b.kind) else a.kind, elem_sort=a.elem_sort)


def nonzero_of(ex, st, mask):
    """Positions of the true entries of a boolean sequence (np.nonzero / boolean-mask indexing, ASSUMED contract):
    P(0) < P(1) < ... < P(m-1) are exactly the indices i with mask[i]; R(i) is the rank of a true position."""
    cached = getattr(mask, "_nz", None)
    if cached is not None:
        return cached
    tag = fresh("z").decl().name()
    m = fresh("nnz")
    P = z3.Function(f"nz_pos!{tag}", I, I)
    R = z3.Function(f"nz_rank!{tag}", I, I)
    j, i = fresh("j"), fresh("i")
    n = mask.length
    st.assume(z3.And(m >= 0, m <= n))
    st.assume(forall(j, z3.Implies(in_range(j, 0, m), z3.And(in_range(P(j), 0, n), mask.at(P(j)), R(P(j)) == j)), patterns=[P(j)]))
    st.assume(forall(j, z3.Implies(in_range(j, 0, m - 1), P(j) < P(j + 1)), patterns=[P(j + 1)]))
    st.assume(forall(i, z3.Implies(z3.And(in_range(i, 0, n), mask.at(i)), z3.And(in_range(R(i), 0, m), P(R(i)) == i)), patterns=[R(i)]))
    mask._nz = (m, P, R)
    return mask._nz


def stable_argsort(ex, st, seq, kwargs, node):
    """ndarray.argsort(kind='stable') (ASSUMED): a permutation that sorts, ties in original order."""
    tag = fresh("s").decl().name()
    p = z3.Function(f"argsort!{tag}", I, I)
    inv = z3.Function(f"argsort_inv!{tag}", I, I)
    i, j = fresh("i"), fresh("j")
    n = seq.length
    st.assume(forall(i, z3.Implies(in_range(i, 0, n), z3.And(in_range(p(i), 0, n), inv(p(i)) == i)), patterns=[p(i)]))
    st.assume(forall(i, z3.Implies(in_range(i, 0, n), z3.And(in_range(inv(i), 0, n), p(inv(i)) == i)), patterns=[inv(i)]))
    st.assume(forall(i, z3.Implies(in_range(i, 0, n - 1), seq.at(p(i)) <= seq.at(p(i + 1))), patterns=[p(i + 1)]))
    if kwargs.get("kind") == "stable":
        st.assume(forall(i, z3.Implies(z3.And(in_range(i, 0, n - 1), seq.at(p(i)) == seq.at(p(i + 1))), p(i) < p(i + 1)), patterns=[p(i + 1)]))
    out = SSeq(n, lambda t: p(t), kind="array", name="perm")
    out.perm_of = (seq, p, inv, kwargs.get("kind") == "stable")
    return out


def seq_member(ex, seq):
    """Membership predicate Mem of a sequence as a named function with its defining axioms (added once):
    every element is a member, and every member has a witness position.  Keeps membership tests quantifier-free."""
    mem = getattr(seq, "_mem", None)
    if mem is not None:
        return mem
    tag = fresh("m").decl().name()
    mem = z3.Function(f"mem!{seq.name}!{tag}", seq.elem_sort, B)
    wit = z3.Function(f"memwit!{seq.name}!{tag}", seq.elem_sort, I)
    t = fresh("t")
    x = fresh("x", seq.elem_sort)
    ex.axioms.append(forall(t, z3.Implies(in_range(t, 0, seq.length), mem(seq.at(t)))))
    ex.axioms.append(z3.ForAll([x], z3.Implies(mem(x), z3.And(in_range(wit(x), 0, seq.length), seq.at(wit(x)) == x)), patterns=[mem(x)]))
    seq._mem = mem
    return mem


def psum(ex, st, seq):
    """Partial-sum function P of a sequence: P(0) = 0, P(k+1) = P(k) + seq[k]  (definition, added to the axioms).
    For d = np.diff(a) the telescoping lemma P(k) == a[k] - a[0] is proved by induction (two obligations) and then used."""
    if seq._psum is not None:
        return seq._psum
    P = z3.Function(f"psum!{seq.name}!{fresh('p').decl().name()}", I, I)
    k = fresh("k")
    ex.axioms.append(P(0) == 0)
    ex.axioms.append(forall(k, z3.Implies(in_range(k, 0, seq.length), P(k + 1) == P(k) + seq.at(k)), patterns=[P(k + 1)]))
    seq._psum = P
    a = getattr(seq, "diff_of", None)
    if a is not None:
        # lemma TELESCOPE(seq): forall k in [0, len]: P(k) == a[k] - a[0]; proof by induction on k
        kk = fresh("k")
        base = P(0) == a.at(0) - a.at(0)
        ex.oblige(st, base, f"{ex.contract.prefix}.lemma.telescope.base.{ex._bump('tel')}", "lemma TELESCOPE base: psum(diff(a))(0) == a[0] - a[0]", kind="vc")
        s2 = st.fork()
        s2.assume(z3.And(kk >= 0, kk < seq.length, P(kk) == a.at(kk) - a.at(0)))
        ex.oblige(s2, P(kk + 1) == a.at(kk + 1) - a.at(0), f"{ex.contract.prefix}.lemma.telescope.step.{ex._bump('tel2')}", "lemma TELESCOPE step: P(k) == a[k]-a[0] ==> P(k+1) == a[k+1]-a[0]", kind="vc")
        ex.axioms.append(forall(kk, z3.Implies(z3.And(kk >= 0, kk <= seq.length), P(kk) == a.at(kk) - a.at(0)), patterns=[P(kk)]))
    return P


def seq_max(ex, st, seq, node):
    ex.oblige(st, seq.length >= 1, ex._name("max", node), f"line {node.lineno}: max() of a non-empty sequence")
    m = fresh("max", seq.elem_sort)
    k = fresh("i")
    w = fresh("w")
    st.assume(forall(k, z3.Implies(in_range(k, 0, seq.length), seq.at(k) <= m)))
    st.assume(z3.And(in_range(w, 0, seq.length), seq.at(w) == m))
    return m


def seq_min(ex, st, seq, node):
    ex.oblige(st, seq.length >= 1, ex._name("min", node), f"line {node.lineno}: min() of a non-empty sequence")
    m = fresh("min")
    k = fresh("i")
    w = fresh("w")
    st.assume(forall(k, z3.Implies(in_range(k, 0, seq.length), seq.at(k) >= m)))
    st.assume(z3.And(in_range(w, 0, seq.length), seq.at(w) == m))
    return m


# ---------------------------------------------------------------------- ghost containers


class GhostSet:
    """A set of integers as a characteristic predicate (z3 Array Int->Bool)."""

    def __init__(self, arr):
        self.arr = arr

    @staticmethod
    def empty():
        return GhostSet(z3.K(I, z3.BoolVal(False)))

    def member(self, x):
        return z3.Select(self.arr, x)

    def method(self, ex, st, attr, args, kwargs, node, prims):
        if attr == "add":
            new = GhostSet(z3.Store(self.arr, to_z3(args[0]), z3.BoolVal(True)))
            prims.rebind(ex, st, self, new, node)
            return None
        if attr == "update":
            seq = args[0]
            if isinstance(seq, SSeq):
                arr = z3.Const(f"set!{fresh('s').decl().name()}", z3.ArraySort(I, B))
                x = fresh("x")
                st.assume(forall(x, z3.Select(arr, x) == z3.Or(z3.Select(self.arr, x), prims.contains(ex, st, seq, x))))
                prims.rebind(ex, st, self, GhostSet(arr), node)
                return None
        raise Unsupported(f"set method {attr}")


class GhostMap:
    pass


class GhostDict:
    """A dict whose content the engine does not track (filled by a loop with a symbolic trip count). Every store is handed to the
    contract's store protocol  contract.store_hooks[<variable>](ex, st, key, value, node), which states what each entry must satisfy."""

    def __init__(self, name):
        self.name = name

    def pyvc_havoc(self):
        return self

    def pyvc_setitem(self, ex, st, idx, value, node, prims):
        hook = getattr(ex.contract, "store_hooks", {}).get(self.name)
        if hook is not None:
            hook(ex, st, idx, value, node)
        return self


class Record:
    """An abstract record (configuration-level execution): fields are concrete or symbolic values."""

    def __init__(self, _kind, **fields):
        self.kind = _kind
        self.fields = fields

    def method(self, ex, st, attr, args, kwargs, node, prims):
        raise Unsupported(f"method {attr} of record {self.kind}")
