"""The extended-real value sort  Val = Fin(r) | +Inf | -Inf | NaN  shared by the C04 algebra and the pointwise kernels."""

import z3

Val = z3.Datatype("Val")
Val.declare("fin", ("r", z3.RealSort()))
Val.declare("pinf")
Val.declare("ninf")
Val.declare("nan")
Val = Val.create()
fin, pinf, ninf, nan = Val.fin, Val.pinf, Val.ninf, Val.nan
is_fin, is_pinf, is_ninf, is_nan = Val.is_fin, Val.is_pinf, Val.is_ninf, Val.is_nan
rv = Val.r


def as_val(x):
    """lift a real/int term or python number to Val"""
    if isinstance(x, (int, float)):
        if x != x:
            return nan
        if x == float("inf"):
            return pinf
        if x == float("-inf"):
            return ninf
        return fin(z3.RealVal(x))
    if z3.is_expr(x) and x.sort() == Val:
        return x
    if z3.is_int(x):
        return fin(z3.ToReal(x))
    return fin(x)


def v_lt(a, b):
    """IEEE a < b on Val (false if either is NaN)"""
    a, b = as_val(a), as_val(b)
    return z3.And(z3.Not(is_nan(a)), z3.Not(is_nan(b)), z3.Or(z3.And(is_ninf(a), z3.Not(is_ninf(b))), z3.And(is_pinf(b), z3.Not(is_pinf(a))), z3.And(is_fin(a), is_fin(b), rv(a) < rv(b))))


def v_le(a, b):
    a, b = as_val(a), as_val(b)
    return z3.And(z3.Not(is_nan(a)), z3.Not(is_nan(b)), z3.Or(is_ninf(a), is_pinf(b), z3.And(is_fin(a), is_fin(b), rv(a) <= rv(b))))


def v_eq(a, b):
    a, b = as_val(a), as_val(b)
    return z3.And(z3.Not(is_nan(a)), a == b)
