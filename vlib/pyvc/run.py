"""Run a list of contracts through PyVC against the working tree and hand the obligations to the check context."""

from __future__ import annotations

import ast
import os
import time

from ..core import REPO, VIOLATED
from .engine import Executor, Solver
from .prims import Prims, module_env_from_ast

REPO_DIR = os.environ.get("VERIF_REPO", REPO)


def run_contract(contract, callees=None, timeout_ms=15000):
    prims = Prims()
    ex = Executor(REPO_DIR, contract, prims, callee_contracts=callees or {}, solver=Solver(timeout_ms))
    src = open(os.path.join(REPO_DIR, contract.file)).read()
    ex.module_env = module_env_from_ast(ast.parse(src))
    obs = ex.run()
    # replay counter-models on the real function
    if contract.replay is not None and False:
        pass
    if contract.replay is not None:
        for o in obs:
            if o.status == VIOLATED and o.kind == "vc" and isinstance(o.model, dict):
                try:
                    bad, text = contract.replay(o.model)
                except Exception as e:  # replay problems never turn into violations by themselves
                    bad, text = None, f"replay failed: {type(e).__name__}: {e}"
                o.detail += f" | replay on the real function: {text}"
                o.replayed = bool(bad)
    # obligations that did not go through: look for a failing input of the real function in the contract's
    # bounded domain (the function's bounded stand-in); a hit turns "undecided" into a violation with an input
    search = getattr(contract, "search", None)
    if search is not None and any(o.status in (VIOLATED, "undecided", "error") and o.kind == "vc" and not getattr(o, "replayed", False) for o in obs):
        try:
            hit = search()
        except Exception as e:
            hit = None
        for o in obs:
            if o.status in (VIOLATED, "undecided", "error") and o.kind == "vc" and not getattr(o, "replayed", False):
                if hit is not None:
                    o.status = VIOLATED
                    o.model = hit[0]
                    o.replayed = True
                    o.detail += f" | failing input of the real function found by bounded search: {hit[1]}"
                else:
                    o.detail += " | bounded search of the function's contract domain found no failing input"
    return ex, obs


def add_to_ctx(ctx, contract, callees=None, level_if_ok="proved"):
    t0 = time.time()
    ex, obs = run_contract(contract, callees)
    ctx.add_obligations(obs)
    fn = f"flox.{contract.file[5:-3].replace('/', '.')}.{contract.qualname}"
    ok = all(o.status == "discharged" for o in obs)
    ctx.under_contract(fn, "proved" if ok else "bounded")
    for a in contract.assumed:
        ctx.trust(f"assumed contract: {a}")
    for u in sorted(ex.prims.used):
        ctx.trust(f"assumed contract: {u}")
    return ex, obs
