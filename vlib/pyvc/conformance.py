"""Conformance of the ASSUMED contracts ("models") PyVC rests on, against the real libraries and the real flox callees.

For a model M of a primitive f and a concrete input x:  instantiate M on x (the same code path the proofs use), add
`result == f(x)` computed by the real f, and ask z3 whether the assumed facts are satisfiable.
  sat      the assumption is consistent with what f really returned on x (conforms),
  unsat    the assumption contradicts reality on x  ->  conformance FAILURE with the input,
  unknown  inconclusive (counted, never a verdict).
Inputs are small (length <= 5), seeded, and include boundary shapes (empty, singletons, ties, NaN, +-inf, missing codes).

Two classes (reported differently by the checks):
  external : numpy / pandas primitives.  A failure voids proofs resting on the assumption -> checker failure.
  internal : flox functions that enter a proof only through an assumed callee contract (AlignedArrays.last,
             generic_aggregate(ffill), chunk_reduce on arg-reduction pairs, _factorize_single's generic branch).
             This is the bounded stand-in of those functions: a failure is a VIOLATION with the failing input.
"""

from __future__ import annotations

import ast
import itertools
import math

import numpy as np
import z3

from . import valsort as V
from .engine import Contract, Executor, I, SSeq, State, to_z3

NAN = float("nan")
INF = float("inf")


def _node():
    n = ast.parse("f(x)").body[0].value
    for s in ast.walk(n):
        s.lineno = 0
        s.col_offset = 0
    return n


class _Ex(Executor):
    def __init__(self):
        from .prims import Prims

        super().__init__("/repo", Contract("conformance", "flox/core.py", "CONF", params=lambda ex: {}), Prims())
        self.pre = []
        self.src_lines = [""]

    def oblige(self, state, goal, name, formula_text, kind="vc"):
        self.pre.append((name, goal))
        return True

    def src(self, node):
        return "<conformance>"


_counter = itertools.count()


def cseq(values, sort, st, name="c"):
    """a concrete sequence as an uninterpreted function pinned at its positions"""
    f = z3.Function(f"{name}!{next(_counter)}", I, sort)
    for j, v in enumerate(values):
        st.assume(f(j) == lift(v, sort))
    return SSeq(len(values), lambda i: f(i), kind="array", elem_sort=sort, name=name)


def lift(v, sort):
    if sort == V.Val:
        return V.as_val(float(v))
    if sort == z3.BoolSort():
        return z3.BoolVal(bool(v))
    if sort == z3.RealSort():
        return z3.RealVal(repr(float(v)))
    return z3.IntVal(int(v))


def link(sym, real, sort, st):
    """result == real output"""
    if isinstance(sym, SSeq):
        real = list(np.asarray(real).ravel().tolist())
        st.assume(sym.length == len(real))
        for j, v in enumerate(real):
            st.assume(sym.at(j) == lift(v, sort))
    else:
        st.assume(to_z3(sym) == lift(real, sort) if not isinstance(sym, z3.ExprRef) or sym.sort() != sort else sym == lift(real, sort))


def decide_valid(ex, st, goal, timeout_ms=4000):
    """for models that DEFINE their result (folds, element-wise maps): the definition must yield the real output"""
    s = z3.Solver()
    s.set("timeout", timeout_ms)
    for a in ex.axioms + st.pc:
        s.add(a)
    s.add(z3.Not(goal))
    r = s.check()
    return "conforms" if r == z3.unsat else ("FAILS" if r == z3.sat else "inconclusive")


def decide(ex, st, timeout_ms=4000):
    s = z3.Solver()
    s.set("timeout", timeout_ms)
    for a in ex.axioms + st.pc:
        s.add(a)
    for _, p in ex.pre:
        s.add(p if isinstance(p, z3.BoolRef) else z3.BoolVal(bool(p)))
    r = s.check()
    return "conforms" if r == z3.sat else ("FAILS" if r == z3.unsat else "inconclusive")


# ------------------------------------------------------------------------------------------------ test cases


def _floats(rng, n, alphabet=(1.0, 2.0, -1.0, NAN, INF, -INF, 0.0)):
    return [alphabet[rng.integers(len(alphabet))] for _ in range(n)]


def external_cases(rng, k):
    """yield (name, thunk) ; thunk() -> verdict string"""
    from . import prims as P

    for t in range(k):
        n = int(rng.integers(0, 6))
        ints = [int(x) for x in rng.integers(-2, 4, size=n)]

        def argsort_case(ints=ints):
            ex, st = _Ex(), State()
            a = cseq(ints, I, st)
            out = P.stable_argsort(ex, st, a, {"kind": "stable"}, _node())
            link(out, np.argsort(np.array(ints, dtype=np.int64), kind="stable"), I, st)
            return decide(ex, st), {"a": ints}

        yield "numpy.argsort(kind='stable')", argsort_case

        mask = [bool(x) for x in rng.integers(0, 2, size=n)]

        def nonzero_case(mask=mask):
            ex, st = _Ex(), State()
            m_ = cseq(mask, z3.BoolSort(), st)
            m, Pz, R = P.nonzero_of(ex, st, m_)
            nz = np.nonzero(np.array(mask, dtype=bool))[0]
            st.assume(m == len(nz))
            for j, v in enumerate(nz.tolist()):
                st.assume(Pz(j) == v)
            return decide(ex, st), {"mask": mask}

        yield "numpy.nonzero / boolean-mask indexing", nonzero_case

        if n >= 1:
            def max_case(ints=ints):
                ex, st = _Ex(), State()
                a = cseq(ints, I, st)
                m = P.seq_max(ex, st, a, _node())
                st.assume(m == max(ints))
                lo = P.seq_min(ex, st, a, _node())
                st.assume(lo == min(ints))
                return decide(ex, st), {"a": ints}

            yield "ndarray.max / ndarray.min", max_case

        nb = int(rng.integers(1, 4))
        bins = sorted({float(x) for x in rng.integers(-1, 4, size=nb)})
        xs = _floats(rng, int(rng.integers(0, 5)), (0.0, 1.0, 2.0, 2.5, -1.0, 3.0, NAN, INF, -INF))
        right = bool(t % 2)

        def digitize_case(bins=bins, xs=xs, right=right):
            ex, st = _Ex(), State()
            b = cseq(bins, z3.RealSort(), st)
            x = cseq(xs, V.Val, st)
            out = ex.prims.m_digitize(ex, st, [x, b], {"right": right}, _node())
            link(out, np.digitize(np.array(xs, dtype=float), np.array(bins, dtype=float), right=right), I, st)
            return decide(ex, st), {"x": xs, "bins": bins, "right": right}

        yield "numpy.digitize", digitize_case

        frm = list(dict.fromkeys(int(x) for x in rng.integers(0, 5, size=max(1, n))))
        to = [int(x) for x in rng.integers(0, 6, size=int(rng.integers(0, 5)))]

        def get_indexer_case(frm=frm, to=to):
            import pandas as pd

            from ..contracts.finalize import IndexRec

            ex, st = _Ex(), State()
            f, t_ = IndexRec(cseq(frm, I, st)), IndexRec(cseq(to, I, st))
            out = f.pyvc_method(ex, st, "get_indexer", [t_], {}, _node(), ex.prims)
            link(out, pd.Index(frm).get_indexer(pd.Index(to, dtype="int64")), I, st)
            eq = f.pyvc_method(ex, st, "equals", [t_], {}, _node(), ex.prims)
            st.assume(eq == bool(pd.Index(frm).equals(pd.Index(to, dtype="int64"))))
            return decide(ex, st), {"from": frm, "to": to}

        yield "pandas.Index.get_indexer / equals", get_indexer_case

        if n >= 1:
            starts = sorted({int(x) for x in rng.integers(0, n, size=int(rng.integers(1, n + 1)))})
            vals = [float(x) for x in rng.integers(-3, 4, size=n)]

            def reduceat_case(starts=starts, vals=vals):
                from ..contracts.kernels import ReduceAt, v_add

                ex, st = _Ex(), State()
                a = cseq(vals, V.Val, st)
                s_ = cseq(starts, I, st)
                ra = ReduceAt("add", v_add)
                out = ra.pyvc_call(ex, st, [a, s_], {}, _node(), ex.prims)
                real = np.add.reduceat(np.array(vals), np.array(starts)).tolist()
                goal = z3.And([out.length == len(real)] + [out.at(j) == lift(v, V.Val) for j, v in enumerate(real)])
                return decide_valid(ex, st, goal), {"array": vals, "starts": starts}

            yield "numpy.add.reduceat", reduceat_case

        labs = [int(x) for x in rng.integers(-3, 4, size=n)]

        def sort_case(labs=labs):
            from ..contracts.factorize import LabelsRec

            ex, st = _Ex(), State()
            r = LabelsRec("Index", cseq(labs, I, st)).sorted_copy(ex, st, _node())
            link(r.labels, np.sort(np.array(labs, dtype=np.int64)), I, st)
            return decide(ex, st), {"labels": labs}

        yield "numpy.sort / Index.sort_values", sort_case

        a_ = [float(x) for x in rng.integers(-3, 4, size=n)]
        b_ = [float(x) for x in rng.integers(-3, 4, size=n)]
        w_ = [bool(x) for x in rng.integers(0, 2, size=n)]

        def ufunc_case(a_=a_, b_=b_, w_=w_):
            ex, st = _Ex(), State()
            R = z3.RealSort()
            a, b, w, o = cseq(a_, R, st), cseq(b_, R, st), cseq(w_, z3.BoolSort(), st), cseq([0.0] * len(a_), R, st)
            out = ex.prims.m_ufunc2(ex, st, ast.Sub(), [a, b], {"where": w, "out": o}, _node())
            real = np.zeros(len(a_))
            np.subtract(np.array(a_), np.array(b_), out=real, where=np.array(w_, dtype=bool))
            link(out, real, R, st)
            return decide(ex, st), {"a": a_, "b": b_, "where": w_}

        yield "numpy.subtract(out=, where=)", ufunc_case

        c0 = [int(x) for x in rng.integers(-1, 3, size=n)]
        c1 = [int(x) for x in rng.integers(-1, 2, size=n)]

        def ravel_case(c0=c0, c1=c1):
            ex, st = _Ex(), State()
            m = ex.prims.models.get("numpy.ravel_multi_index")
            if m is None:
                return "inconclusive", {}
            out = m(ex, st, [(cseq(c0, I, st), cseq(c1, I, st)), (3, 2)], {"mode": "wrap"}, _node())
            link(out, np.ravel_multi_index((np.array(c0, dtype=np.int64), np.array(c1, dtype=np.int64)), (3, 2), mode="wrap"), I, st)
            return decide(ex, st), {"codes": [c0, c1], "shape": [3, 2]}

        yield "numpy.ravel_multi_index(mode='wrap')", ravel_case


def internal_cases(rng, k):
    """flox functions that the proofs only see through an assumed callee contract"""
    for t in range(k):
        n = int(rng.integers(1, 6))
        codes = [int(x) for x in rng.integers(0, 3, size=n)]
        vals = _floats(rng, n, (1.0, 2.0, -1.0, NAN, 0.5))

        def last_case(codes=codes, vals=vals):
            from flox.aggregations import AlignedArrays

            from ..contracts.scan import AARec, last_contract

            ex, st = _Ex(), State()
            aa = AARec(cseq(vals, V.Val, st), cseq(codes, I, st))
            out = last_contract(ex, st, aa)
            real = AlignedArrays(array=np.array(vals, dtype="float64"), group_idx=np.array(codes, dtype="int64")).last()
            link(out.group_idx, real.group_idx, I, st)
            link(out.array, real.array, V.Val, st)
            return decide(ex, st), {"function": "AlignedArrays.last", "array": vals, "group_idx": codes, "got": [np.asarray(real.group_idx).tolist(), [repr(x) for x in np.asarray(real.array).tolist()]]}

        yield "flox.aggregations.AlignedArrays.last (chunk_reduce nanlast)", last_case

        def unique_case(vals=vals):
            from flox.core import _unique

            from ..contracts.findgroups import c_unique

            ex, st = _Ex(), State()
            out = c_unique(ex, st, [cseq(vals, V.Val, st)], {}, _node())
            real = _unique(np.array(vals, dtype="float64"))
            link(out, real, V.Val, st)
            return decide(ex, st), {"function": "_unique", "array": [repr(v) for v in vals], "got": [repr(x) for x in real.tolist()]}

        yield "flox.core._unique (np.sort(pd.unique(.)))", unique_case

        def ffill_case(codes=codes, vals=vals):
            from flox.aggregations import generic_aggregate

            from ..contracts.scan import callee_generic_aggregate

            ex, st = _Ex(), State()
            out = callee_generic_aggregate(ex, st, [cseq(codes, I, st), cseq(vals, V.Val, st)], {"func": "ffill"}, _node())
            real = generic_aggregate(np.array(codes, dtype="int64"), np.array(vals, dtype="float64"), func="ffill", axis=0, engine="flox", fill_value=np.nan)
            link(out, real, V.Val, st)
            return decide(ex, st), {"function": "generic_aggregate(func='ffill', engine='flox')", "array": vals, "group_idx": codes, "got": [repr(x) for x in np.asarray(real).tolist()]}

        yield "flox.aggregations.generic_aggregate(func='ffill', engine='flox')", ffill_case

        fvals = [float(x) for x in rng.integers(-2, 3, size=n)]
        func = [("max", "argmax"), ("min", "argmin"), ("nanmax", "nanargmax"), ("nanmin", "nanargmin")][t % 4]

        def argreduce_case(codes=codes, fvals=fvals, func=func):
            from flox.core import chunk_reduce

            from ..contracts.argreduce import ChunkReduceCallee

            ex, st = _Ex(), State()
            cr = ChunkReduceCallee()
            res = cr(ex, st, [cseq(fvals, V.Val, st), cseq(codes, I, st)], {"expected_groups": None}, _node())
            real = chunk_reduce(np.array(fvals), np.array(codes, dtype="int64"), func=func, expected_groups=None, axis=-1, fill_value=(-np.inf if "max" in func[0] else np.inf, -1), dtype=(np.dtype("float64"), np.dtype("intp")))
            link(res["groups"], real["groups"], I, st)
            link(res["intermediates"][0], real["intermediates"][0], V.Val, st)
            link(res["intermediates"][1], real["intermediates"][1], I, st)
            return decide(ex, st), {"function": f"chunk_reduce(func={func})", "array": fvals, "by": codes, "got": [np.asarray(x).tolist() for x in real["intermediates"]]}

        yield "flox.core.chunk_reduce on an arg-reduction pair", argreduce_case

        labs = [[5.0, 15.0, 25.0, NAN][rng.integers(4)] for _ in range(n)]
        sort = bool(t % 2)

        def factorize_single_case(labs=labs, sort=sort):
            from flox.core import _factorize_single

            from ..contracts.factorize import FactorizeSingleCallee

            ex, st = _Ex(), State()
            fs = FactorizeSingleCallee()
            found, codes_ = fs(ex, st, [cseq([0] * len(labs), I, st)], {}, _node())
            g, c = _factorize_single(np.array(labs), None, sort=sort, reindex=False)
            st.assume(found.labels.length == len(g))
            link(codes_, c, I, st)
            return decide(ex, st), {"function": "_factorize_single(expect=None)", "by": [repr(x) for x in labs], "sort": sort, "got": [np.asarray(g).tolist(), np.asarray(c).tolist()]}

        yield "flox.core._factorize_single (pandas.factorize branch)", factorize_single_case


def external_cases_graph(rng, k):
    """models introduced by the graph-layer and engine='flox' mean contracts"""
    for t in range(k):
        nd = int(rng.integers(1, 4))
        shape = [int(x) for x in rng.integers(1, 4, size=nd)]
        flat = int(rng.integers(0, int(np.prod(shape))))

        def unravel_case(shape=shape, flat=flat):
            from ..contracts.collapse import m_unravel_index_scalar

            ex, st = _Ex(), State()
            out = m_unravel_index_scalar(None)(ex, st, [z3.IntVal(flat), tuple(z3.IntVal(s) for s in shape)], {}, _node())
            real = np.unravel_index(flat, tuple(shape))
            if len(out) != len(real):
                return "FAILS", {"flat": flat, "shape": shape}
            for o, r in zip(out, real):
                st.assume(o == int(r))
            return decide(ex, st), {"flat": flat, "shape": shape}

        yield "numpy.unravel_index (one flat index)", unravel_case

        uvals = _floats(rng, int(rng.integers(0, 6)), (1.0, 2.0, -1.0, NAN, 0.5))

        def pd_unique_case(vals=uvals):
            import pandas as pd

            from ..contracts.getexpected import m_pd_unique

            ex, st = _Ex(), State()
            out = m_pd_unique(ex, st, [cseq(vals, V.Val, st)], {}, _node())
            link(out, pd.unique(np.array(vals, dtype="float64")), V.Val, st)
            return decide(ex, st), {"array": [repr(v) for v in vals]}

        yield "pandas.unique (first appearance)", pd_unique_case

        npa, kpa = int(rng.integers(0, 9)), int(rng.integers(1, 5))

        def partition_case(npa=npa, kpa=kpa):
            import toolz

            from ..contracts.parts import m_partition_all
            from .prims import Prims

            ex, st = _Ex(), State()
            rng_seq = Prims().m_range(ex, st, [z3.IntVal(npa)], {}, _node())
            st.assume(rng_seq.length == npa)
            parts = m_partition_all(ex, st, [z3.IntVal(kpa), rng_seq], {}, _node())
            real = list(toolz.partition_all(kpa, range(npa)))
            st.assume(parts.length == len(real))
            # the reading of the model: run j = seq[j*k : (j+1)*k]
            if [tuple(r) for r in real] != [tuple(range(j * kpa, min((j + 1) * kpa, npa))) for j in range(len(real))]:
                return "FAILS", {"n": npa, "k": kpa}
            return decide(ex, st), {"n": npa, "k": kpa}

        yield "toolz.partition_all", partition_case

        n = int(rng.integers(1, 5))
        sums = [int(x) for x in rng.integers(-9, 10, size=n)]
        counts = [int(x) for x in rng.integers(1, 5, size=n)]

        def divide_case(sums=sums, counts=counts, as_int=bool(t % 2)):
            from ..contracts.floxmean import QUOT, GArr

            ex, st = _Ex(), State()
            R_ = z3.RealSort()
            for sv, cv in zip(sums, counts):  # the intended interpretation of the abstract exact quotient
                st.assume(QUOT(z3.RealVal(sv), z3.IntVal(cv)) == z3.RealVal(sv) / z3.RealVal(cv))
            a = GArr("i" if as_int else "f", cseq(sums, R_, st), "dtype")
            c = cseq(counts, I, st)
            q = a.quotient(ex, c, a.kind_)
            out = np.array(sums, dtype=np.int64 if as_int else np.float64)
            np.divide(out, np.array(counts), out=out, casting="unsafe")
            st.assume(q.vals.length == len(out))
            for j, v in enumerate(out.tolist()):
                st.assume(q.vals.at(j) == (z3.IntVal(int(v)) if as_int else z3.RealVal(repr(float(v)))))
            return decide(ex, st), {"sums": sums, "counts": counts, "integer_out": as_int}

        # floating outputs are compared only where the exact quotient is a binary fraction (float64 rounding is not modelled)
        if t % 2 or all((sv / cv).as_integer_ratio()[1] <= 16 for sv, cv in zip(sums, counts)):
            yield "numpy.divide(a, b, out=a, casting='unsafe')", divide_case


def run(seed=0, k_external=12, k_internal=30, only=None):
    """returns dict(external={model: tally}, internal={...}); `only`: substrings selecting models by name"""
    out = {}
    for cls, gen_, k in (("external", external_cases, k_external), ("external", external_cases_graph, k_external), ("internal", internal_cases, k_internal)):
        rng = np.random.default_rng(1000 + seed)
        tallies = out.get(cls, {})
        for name, thunk in gen_(rng, k):
            if only is not None and not any(o in name for o in only):
                continue
            t = tallies.setdefault(name, {"conforms": 0, "inconclusive": 0, "failures": []})
            try:
                verdict, inp = thunk()
            except Exception as e:  # a harness problem is not a verdict
                verdict, inp = "inconclusive", {"harness_error": f"{type(e).__name__}: {e}"}
                t.setdefault("harness_errors", []).append(inp["harness_error"])
            if verdict == "FAILS":
                t["failures"].append(inp)
            else:
                t[verdict] += 1
        out[cls] = tallies
    return out


if __name__ == "__main__":
    import json
    import sys

    r = run(int(sys.argv[1]) if len(sys.argv) > 1 else 0)
    for cls, tallies in r.items():
        for name, t in tallies.items():
            print(cls, "|", name, "| conforms", t["conforms"], "inconclusive", t["inconclusive"], "FAIL", len(t["failures"]), (t.get("harness_errors") or [""])[0][:150])
            for f in t["failures"][:2]:
                print("     ", json.dumps(f, default=str)[:300])


def add_to_ctx(ctx, only):
    """Run the conformance tests of the assumed contracts a property's proofs rest on and file them in the check context:
    external failures void the proofs (checker failure); internal failures are violations of the flox callee's assumed
    contract with the failing input (this is that callee's bounded stand-in)."""
    import time

    from ..core import BoundedPart

    t0 = time.time()
    r = run(seed=ctx.seed, k_external=8 if ctx.quick else 40, k_internal=24 if ctx.quick else 150, only=only)
    for name, t in r["external"].items():
        ctx.assume(f"assumed contract of {name}: conformance-tested on {t['conforms'] + t['inconclusive'] + len(t['failures'])} seeded inputs ({t['conforms']} conform, {t['inconclusive']} inconclusive)")
        for f in t["failures"][:3]:
            ctx.fail_checker(f"ASSUMPTION REFUTED: the model of {name} contradicts the real library on {f}")
    for name, t in r["internal"].items():
        fn = name.split(" ")[0]
        part = BoundedPart(name=f"{ctx.pid}.conformance.{fn.split('.')[-1]}", function=fn,
                           bound="seeded inputs of length <= 5 over small alphabets (NaN, ties, missing codes); quick 24 / thorough 150 per callee",
                           rule="the callee contract assumed at the call sites of the proved functions must be satisfiable together with what the real callee returns (z3 sat); unsat = the real callee breaks the assumed contract on that input",
                           evaluations=t["conforms"] + t["inconclusive"] + len(t["failures"]), distinct_nontrivial=t["conforms"], seconds=0.0)
        part.extra = {"inconclusive": t["inconclusive"], "harness_errors": (t.get("harness_errors") or [])[:2]}
        for f in t["failures"]:
            part.failures.append({"case": f, "why": f"assumed callee contract of {fn} contradicted by the real function", "sig": {"part": part.name}})
        ctx.under_contract(fn, "bounded")
        ctx.add_bounded(part)
    return time.time() - t0
