"""Two-dimensional arrays for PyVC: (rows, cols, (r, c) -> element).  Only what offset_labels needs:
broadcasting arithmetic against scalars and column vectors, comparisons, boolean-mask stores."""

from __future__ import annotations

import ast

import z3

from .engine import B, I, SSeq, Unsupported, fresh, is_sym, to_z3


class Arr2:
    def __init__(self, rows, cols, fn, sort=I, name="arr2"):
        self.rows, self.cols, self.fn, self.sort, self.name = to_z3(rows), to_z3(cols), fn, sort, name

    def at(self, r, c):
        return self.fn(to_z3(r), to_z3(c))

    def pyvc_getattr(self, ex, st, attr, node, prims):
        from .prims import Method

        if attr == "ndim":
            return 2
        if attr == "shape":
            return (self.rows, self.cols)
        return Method(self, attr)

    def pyvc_method(self, ex, st, attr, args, kwargs, node, prims):
        if attr == "reshape":
            shape = args[0] if len(args) == 1 and isinstance(args[0], tuple) else tuple(args)
            if len(shape) == 2:
                # only the reshape to the array's own shape is modelled (the identity)
                ex.oblige(st, z3.And(to_z3(shape[0]) == self.rows, to_z3(shape[1]) == self.cols), ex._name("reshape", node), f"line {node.lineno}: reshape of a 2-D array to its own shape")
                return self
            raise Unsupported("reshape of a 2-D array to another rank")
        if attr == "any" and self.sort == B:
            r, c = fresh("r"), fresh("c")
            b = z3.Bool(f"any!{fresh('a').decl().name()}")
            wr, wc = fresh("wr"), fresh("wc")
            inb = lambda x, y: z3.And(x >= 0, x < self.rows, y >= 0, y < self.cols)
            st.assume(z3.Implies(b, z3.And(inb(wr, wc), self.fn(wr, wc))))
            st.assume(z3.ForAll([r, c], z3.Implies(z3.And(inb(r, c), self.fn(r, c)), b)))
            return b
        raise Unsupported(f"method {attr} of a 2-D array")

    def _lift(self, other):
        if isinstance(other, Arr2):
            return other
        if isinstance(other, SSeq):
            raise Unsupported("broadcast of a 1-D array against a 2-D array")
        v = other if is_sym(other) else to_z3(other)
        return Arr2(self.rows, self.cols, lambda r, c: v, sort=self.sort)

    def _zip(self, ex, st, other, f, sort, node):
        o = self._lift(other)
        # numpy broadcasting: equal extents, or extent 1 on one side (here: a column vector)
        ex.oblige(st, z3.And(o.rows == self.rows, z3.Or(o.cols == self.cols, o.cols == 1, self.cols == 1)), ex._name("broadcast", node), f"line {node.lineno}: operands broadcast: {ex.src(node)[:70]}")
        a, b = self, o
        return Arr2(self.rows, z3.If(a.cols == 1, b.cols, a.cols), lambda r, c: f(a.fn(r, z3.If(a.cols == 1, 0, c)), b.fn(r, z3.If(b.cols == 1, 0, c))), sort=sort)

    def pyvc_binop(self, ex, st, op, other, flip, node, prims):
        f = prims.arith(op)
        if flip:
            return self._zip(ex, st, other, lambda x, y: f(y, x), self.sort, node)
        return self._zip(ex, st, other, f, self.sort, node)

    def pyvc_compare(self, ex, st, op, other, flip, node, prims):
        f = {ast.Eq: lambda x, y: x == y, ast.NotEq: lambda x, y: x != y, ast.Lt: lambda x, y: x < y, ast.LtE: lambda x, y: x <= y, ast.Gt: lambda x, y: x > y, ast.GtE: lambda x, y: x >= y}[type(op)]
        if flip:
            return self._zip(ex, st, other, lambda x, y: f(y, x), B, node)
        return self._zip(ex, st, other, f, B, node)

    def pyvc_setitem(self, ex, st, idx, value, node, prims):
        if isinstance(idx, Arr2) and idx.sort == B:
            v = value if is_sym(value) else to_z3(value)
            ex.oblige(st, z3.And(idx.rows == self.rows, idx.cols == self.cols), ex._name("broadcast", node), f"line {node.lineno}: boolean mask has the shape of the array")
            return Arr2(self.rows, self.cols, lambda r, c: z3.If(idx.fn(r, c), v, self.fn(r, c)), sort=self.sort, name=self.name)
        raise Unsupported("2-D store other than through a boolean mask")


def reshape_seq(seq, shape):
    """SSeq.reshape((rows, -1)) / reshape((rows, cols)) -> Arr2 (row-major)"""
    rows, cols = shape
    if isinstance(cols, int) and cols == -1:
        # a column count of -1 is inferred; for np.arange(rows).reshape((rows, -1)) that is 1
        return Arr2(rows, 1, lambda r, c: seq.fn(r), sort=seq.elem_sort)
    return Arr2(rows, cols, lambda r, c: seq.fn(r * to_z3(cols) + c), sort=seq.elem_sort)
