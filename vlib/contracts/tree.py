"""Sidecar contract of flox.dask_array_ops._tree_reduce (C03.tree, C06.order, C09.cover): the orchestration of the
hand-written per-cohort tree reduction.

What is proved here (for one or two reduced axes, symbolic block counts, symbolic split_every):
  * the tree has enough levels: after the last partial_reduce exactly ONE block is left along every reduced axis
    (lemma LEVELS by induction over the loop: blocks(level) <= fan_in ** (depth - level));
  * the levels are chained: level 0 reads the blockwise layer x.name, level l reads what level l-1 wrote, the last level
    writes `name` and is the only one that gets block_index and the final `aggregate` (all earlier ones get `combine`);
  * intermediate layer names are derived from (name, block_index, level).
What is ASSUMED (listed in the evidence):
  * partial_reduce's contract (one level: ceil(n / fan_in) blocks along every reduced axis, other axes untouched) - this
    is the bounded tree-builder contract of vlib/rtc/tree_case.py, checked exhaustively up to the stated size;
  * math.ceil(math.log(n, k)) is the least d >= 0 with k**d >= n (true over the reals; float rounding of math.log is
    trusted for block counts far below 2**53 - and errs upwards for exact powers, which only adds a level).
"""

from __future__ import annotations

import z3

from ..pyvc.engine import B, Contract, I, SSeq, forall, fresh, in_range
from ..pyvc.prims import ModRef, Opaque, PartialVal, Record
from .kernels import sym_seq

POW = z3.Function("pow", I, I, I)


def pow_axioms():
    k, e = fresh("k"), fresh("e")
    # unfolding towards the predecessor, triggered by any occurrence POW(k, e)
    return [z3.ForAll([k], POW(k, 0) == 1, patterns=[POW(k, 0)]),
            z3.ForAll([k, e], z3.Implies(z3.And(e >= 1, k >= 1), z3.And(POW(k, e) == k * POW(k, e - 1), POW(k, e - 1) >= 1)), patterns=[POW(k, e)])]


class FuncRec(Record):
    def __init__(self, name):
        super().__init__("function", name=name)
        self.truth = z3.BoolVal(True)


class LogRec:
    def __init__(self, n, k):
        self.n, self.k = n, k


class Ghost:
    def __init__(self):
        self.entry = {}  # the parameter values of the run (calls are recorded path-locally in state.ghost)


def ceil_div_lemma(ex, st):
    """CEIL_DIV_LE (nonlinear integer arithmetic, proved once per contract):
    k >= 1 and (m-1)*k < n <= m*k and n <= k*P  ==>  m <= P      (ceil(n/k) is the least multiple count covering n)"""
    if getattr(ex, "_ceil_div_proved", None) is None:
        n, k, m, P = z3.Ints("n k m P")
        goal = z3.Implies(z3.And(k >= 1, (m - 1) * k < n, n <= m * k, n <= k * P), m <= P)
        ex._ceil_div_proved = ex.oblige(State_empty(), goal, f"{ex.contract.prefix}.lemma.CEIL_DIV_LE", "lemma CEIL_DIV_LE: k >= 1, (m-1)k < n <= mk, n <= kP ==> m <= P")
    return ex._ceil_div_proved


def State_empty():
    from ..pyvc.engine import State

    return State()


def ceil_div_blocks(ex, st, n, k, tag):
    """m = ceil(n / k) for n >= 0, k >= 1, as a fresh integer with its defining inequalities (+ the proved lemma CEIL_DIV_LE
    instantiated for this n, k, m)"""
    m = fresh(f"blocks_{tag}")
    st.assume(z3.And(m >= 0, (m - 1) * k < n, n <= m * k))
    if ceil_div_lemma(ex, st):
        P = fresh("P")
        st.assume(forall(P, z3.Implies(z3.And(k >= 1, n <= k * P), m <= P), patterns=[k * P]))
    return m


def make_callees(g, naxes):
    def partial_reduce(ex, st, a, k, node):
        func, dsk = a[0], a[1]
        chunks, split_every, axis = k["chunks"], k["split_every"], k["axis"]
        name, dep_name, block_index = k["name"], k["dep_name"], k.get("block_index")
        ex.oblige(st, dep_name != name, ex._name("pre.partial_reduce", node), f"line {node.lineno}: partial_reduce asserts dep_name != name (a level never overwrites its own input layer)")
        outs = []
        for ax, c in enumerate(chunks):
            if ax in split_every:
                m = ceil_div_blocks(ex, st, c.length, split_every[ax], f"ax{ax}")
                outs.append(SSeq(m, lambda i: z3.IntVal(1), kind="tuple", name=f"out_chunks{ax}"))
            else:
                outs.append(c)
        # per-call protocol (checked at every call site, on every path): a level that gets a block_index is the last one - it
        # applies `aggregate` and writes the tree's own name; every other level applies `combine` (or `aggregate` when no
        # combine was given) and writes a derived name
        want_inner = g.entry["combine"] if g.entry.get("combine") is not None else g.entry["aggregate"]
        if block_index is not None:
            ok = isinstance(func, PartialVal) and func.fn is g.entry["aggregate"] and name is g.entry["name"] and block_index is g.entry["block_index"]
            ex.oblige(st, z3.BoolVal(bool(ok)), ex._name("protocol.last_level", node), f"line {node.lineno}: the level that gets block_index applies aggregate and writes the tree name")
        else:
            ok = isinstance(func, PartialVal) and func.fn is want_inner and name is not g.entry["name"]
            ex.oblige(st, z3.BoolVal(bool(ok)), ex._name("protocol.inner_level", node), f"line {node.lineno}: a level without block_index applies combine and writes a derived name")
        rec = dict(func=func, name=name, dep_name=dep_name, block_index=block_index, chunks_out=tuple(outs))
        st.ghost["calls"] = st.ghost.get("calls", ()) + (rec,)  # path-local
        return (dsk, tuple(outs))

    return {"partial_reduce": partial_reduce}


def register_models(prims):
    def config_get(ex, st, a, k, node):
        v = fresh("configured_split_every")
        st.assume(v >= 1)
        return v

    def fromkeys(ex, st, a, k, node):
        return {key: a[1] for key in a[0]}

    def m_log(ex, st, a, k, node):
        n, base = a
        ex.oblige(st, z3.And(n >= 1, base >= 2), ex._name("math.log", node), f"line {node.lineno}: math.log(n, k) with n >= 1 blocks and fan-in k >= 2 (k == 1 divides by zero)")
        return LogRec(n, base)

    orig_ceil = prims.models.get("math.ceil")

    def m_ceil(ex, st, a, k, node):
        x = a[0]
        if isinstance(x, LogRec):
            d = fresh("ceil_log")
            e = fresh("e")
            st.assume(z3.And(d >= 0, POW(x.k, d) >= x.n, z3.Implies(d >= 1, POW(x.k, d - 1) < x.n)))
            # ... and every larger exponent is enough as well (e >= log_k n  ==>  k**e >= n)
            st.assume(forall(e, z3.Implies(e >= d, POW(x.k, e) >= x.n), patterns=[POW(x.k, e)]))
            return d
        return orig_ceil(ex, st, a, k, node)

    def m_int(ex, st, a, k, node):
        x = a[0]
        if type(x).__name__ == "SqrtOf":
            r = fresh("isqrt")
            st.assume(z3.And(r >= 0, r * r <= x.arg, x.arg < (r + 1) * (r + 1)))
            return r
        return x

    orig_max = prims.models.get("builtins.max")

    def m_max(ex, st, a, k, node):
        vals = list(a[0]) if len(a) == 1 and isinstance(a[0], (list, tuple)) else list(a)
        if len(vals) == 2 and any(z3.is_expr(v) for v in vals) and all(isinstance(v, (int, z3.ArithRef)) for v in vals):
            # a fresh integer with the defining facts of max (keeps if-then-else out of the nonlinear terms)
            x, y = (v if z3.is_expr(v) else z3.IntVal(v) for v in vals)
            r = fresh("max")
            st.assume(z3.And(r >= x, r >= y, z3.Or(r == x, r == y)))
            return r
        return orig_max(ex, st, a, k, node)

    prims.register("builtins.max", m_max)
    prims.register("builtins.int", m_int)
    prims.register("dask.config.get", config_get)
    prims.register("builtins.dict.fromkeys", fromkeys)
    prims.register("math.log", m_log)
    prims.register("math.ceil", m_ceil)


def tree_reduce_contract(naxes, split_kind, with_combine):
    """naxes: 1 | 2 reduced axes (all axes of the layer); split_kind: 'int' | 'none' | 'dict'"""
    g = Ghost()

    def params(ex):
        ex.axioms.extend(pow_axioms())
        chunks = tuple(sym_seq(f"chunks{ax}") for ax in range(naxes))
        x = Record("ArrayLayer", name=z3.String("blockwise_layer"), chunks=chunks)
        if split_kind == "int":
            se = z3.Int("split_every")
        elif split_kind == "none":
            se = None
        else:
            se = {ax: z3.Int(f"split_every{ax}") for ax in range(naxes)}
        g.entry = {"x": x, "name": z3.String("name"), "out_dsk": Opaque("graph"), "aggregate": FuncRec("aggregate"), "axis": tuple(range(naxes)), "block_index": z3.Int("block_index"),
                   "split_every": se, "combine": FuncRec("combine") if with_combine else None}
        return dict(g.entry)

    def requires(ex, env):
        r = [c.length >= 1 for c in env["x"].fields["chunks"]] + [env["block_index"] >= 0,
             # the blockwise layer is not one of this tree's own layers (their names start with `name`)
             z3.Not(z3.PrefixOf(env["name"], env["x"].fields["name"]))]
        se = env["split_every"]
        if split_kind == "int":
            r.append(se >= 2)
        elif split_kind == "dict":
            r += [v >= 2 for v in se.values()]
        return r

    def inv(ex, env, lvl):
        """loop `for level in range(depth - 1)`: before iteration lvl"""
        depth = env["depth"]
        se = env["split_every"]
        out = [("levels_left", z3.And(depth >= 1, lvl >= 0, lvl <= depth - 1))]
        for ax in range(naxes):
            out.append((f"blocks_fit_the_remaining_levels_ax{ax}", z3.And(env["out_chunks"][ax].length >= 1, env["out_chunks"][ax].length <= POW(se[ax], depth - lvl))))
        nm, bi = env["name"], env["block_index"]
        prev = z3.Concat(nm, z3.StringVal("-"), z3.IntToStr(bi), z3.StringVal("-partial-"), z3.IntToStr(lvl - 1))
        out.append(("chained", env["agg_dep_name"] == z3.If(lvl == 0, env["x"].fields["name"], prev)))
        return out

    def ensures(ex, env, res):
        e = env["__entry__"]
        dsk, out_chunks = res
        cl = [(f"one_block_left_along_axis{ax}", out_chunks[ax].length == 1) for ax in range(naxes)]
        calls = env["__state__"].ghost.get("calls", ())
        last = calls[-1] if calls else None
        cl.append(("last_level_is_a_partial_reduce_with_block_index", z3.BoolVal(last is not None and last["block_index"] is not None)))
        if last is not None:
            cl.append(("last_level_reads_the_level_before_it", last["dep_name"] == env["agg_dep_name"]))
            cl.append(("what_is_returned_is_what_the_last_level_produced", z3.BoolVal(all(a_ is b_ for a_, b_ in zip(out_chunks, last["chunks_out"])))))
        return cl

    c = Contract(qualname="_tree_reduce", file="flox/dask_array_ops.py", prefix=f"C03.tree_reduce.ax{naxes}.{split_kind}.{'combine' if with_combine else 'nocombine'}", params=params, requires=requires, ensures=ensures,
                 invariants={2: inv}, raises=("ValueError",), serves=("C03", "C06", "C09"),
                 assumed=("partial_reduce: one level leaves ceil(n / fan_in) blocks along every reduced axis (bounded tree-builder contract, exhaustive up to the stated size)",
                          "math.ceil(math.log(n, k)) is the least d with k**d >= n (mathematical reals; float rounding trusted for realistic block counts)", "dask.config.get('split_every') is an integer >= 1"))
    c.search = search_tree
    return c, g


def all_tree():
    out = []
    for naxes in (1, 2):
        for sk in ("int", "none", "dict"):
            out.append(tree_reduce_contract(naxes, sk, True))
    out.append(tree_reduce_contract(1, "int", False))
    return out


def search_tree():
    """bounded search on the real tree builder: the tree-builder run-time contract (vlib/rtc/tree_case.py) up to 24 blocks"""
    from ..rtc.tree_case import check_tree, tree_cases

    for case in tree_cases(24, 8):
        try:
            r = check_tree(case)
        except Exception as e:
            r = {"case": case, "why": f"raised {type(e).__name__}: {e}"}
        if r is not None:
            return r.get("case", case), r.get("why", "tree-builder contract violated")
    return None
