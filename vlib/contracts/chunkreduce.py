"""Sidecar contract of flox.core.chunk_reduce for one block with 1-D labels reduced along its only axis
(C01.block, C05.dropped, C04.block): how the proved pieces are wired together.

  factorize_ (proved contract) -> group_idx with codes in [0, ngroups) and the sentinel slot `ngroups` for elements whose
  label is missing / not requested, size = ngroups (+ 1 iff such an element exists), props.nanmask;
  generic_aggregate (assumed, external kernels) -> one value per slot of `size`;
  the block result keeps exactly the first ngroups slots: the sentinel slot never reaches the result, and no real slot
  receives anything from an element with a missing label (that is factorize_'s clause, used here).
Variants: engine 'numpy' (no sorting), one or two reductions (the second one a count, as the min_count machinery adds it),
reindex True / False with expected_groups given or not, "no valid label at all" handled by the code path `empty`.
"""

from __future__ import annotations

import z3

from ..pyvc import valsort as V
from ..pyvc.engine import B, Contract, I, SSeq, forall, fresh, in_range
from ..pyvc.prims import Opaque, Record
from .finalize import IndexRec
from .kernels import sym_seq


class Ghost:
    def __init__(self):
        self.fact = None
        self.aggs = []


def chunk_reduce_contract(nfuncs, reindex, expected_given):
    g = Ghost()

    def params(ex):
        g.fact, g.aggs = None, []
        funcs = ("sum", "nanlen")[:nfuncs]
        eg = IndexRec(sym_seq("requested")) if expected_given else None
        return {"array": sym_seq("array", V.Val), "by": sym_seq("by"), "func": funcs, "expected_groups": eg, "axis": -1,
                "fill_value": tuple(z3.Const(f"fill{k}", V.Val) for k in range(nfuncs)), "dtype": tuple(Opaque(f"dtype{k}") for k in range(nfuncs)),
                "reindex": reindex, "engine": "numpy", "kwargs": None, "sort": True, "user_dtype": None}

    def requires(ex, env):
        return [env["array"].length == env["by"].length, env["array"].length >= 1]

    def callee_factorize(ex, st, a, k, node):
        (by,) = a[0]
        n = by.length
        found = IndexRec(sym_seq("found_groups"))
        ng = found.labels.length
        codes = sym_seq("codes")  # per-element codes before the sentinel is applied: -1 = missing / unrequested
        gi = SSeq(n, lambda i: z3.If(codes.at(i) == -1, ng, codes.at(i)), kind="array", elem_sort=I, name="group_idx")
        nanmask = SSeq(n, lambda i: codes.at(i) == -1, kind="array", elem_sort=B, name="nanmask")
        i = fresh("i")
        any_missing = z3.Bool("any_missing")
        w = fresh("w")
        st.assume(z3.And(ng >= 0, codes.length == n))
        st.assume(forall(i, z3.Implies(in_range(i, 0, n), z3.And(codes.at(i) >= -1, codes.at(i) < ng)), patterns=[codes.at(i)]))
        st.assume(z3.Implies(any_missing, z3.And(in_range(w, 0, n), codes.at(w) == -1)))
        st.assume(z3.Implies(z3.Not(any_missing), forall(i, z3.Implies(in_range(i, 0, n), codes.at(i) != -1))))
        size = z3.If(any_missing, ng + 1, ng)
        g.fact = dict(found=found, ng=ng, codes=codes, gi=gi, nanmask=nanmask, any_missing=any_missing, size=size, kwargs=dict(k), axes=a[1])
        st.ghost["fact"] = g.fact
        return (gi, (found,), (ng,), ng, size, Record("FactorProps", offset_group=False, nan_sentinel=ng, nanmask=nanmask))

    def callee_generic_aggregate(ex, st, a, k, node):
        out = sym_seq(f"slots_{fresh('s').decl().name()}", V.Val)
        st.assume(out.length == k["size"])
        # path-local ghost record (an immutable tuple: forks must not see each other's calls)
        st.ghost["aggs"] = st.ghost.get("aggs", ()) + (dict(group_idx=a[0], array=a[1], kw=dict(k), out=out),)
        return out

    def ensures(ex, env, res):
        e = env["__entry__"]
        f = env["__state__"].ghost.get("fact")
        aggs = env["__state__"].ghost.get("aggs", ())
        cl = [("labels_are_factorized_once", z3.BoolVal(f is not None))]
        if f is None:
            return cl
        ng, n = f["ng"], e["array"].length
        i = fresh("i")
        empty = forall(i, z3.Implies(in_range(i, 0, n), f["codes"].at(i) == -1))
        cl.append(("factorization_uses_the_requested_groups_and_options", z3.BoolVal(f["kwargs"].get("expected_groups") == (e["expected_groups"],) and f["kwargs"].get("reindex") is bool(reindex) and f["kwargs"].get("sort") is True and f["axes"] == (-1,))))
        groups = res["groups"]
        if reindex and expected_given:
            cl.append(("groups_are_the_requested_ones", z3.BoolVal(groups is e["expected_groups"])))
        inter = res["intermediates"]
        cl.append(("one_intermediate_per_reduction", z3.BoolVal(len(inter) == nfuncs)))
        for k_, out in enumerate(inter):
            agg = aggs[k_] if k_ < len(aggs) else None
            if agg is None:
                continue
            cl.append((f"reduction{k_}.kernel_gets_the_codes_the_block_and_room_for_every_slot", z3.BoolVal(agg["group_idx"] is f["gi"] and agg["array"] is e["array"] and agg["kw"].get("func") == e["func"][k_] and agg["kw"].get("fill_value") is e["fill_value"][k_] and agg["kw"].get("engine") == "numpy") if True else z3.BoolVal(False)))
            cl.append((f"reduction{k_}.kernel_size_is_the_factorized_size", agg["kw"]["size"] == f["size"]))
            cl.append((f"reduction{k_}.one_slot_per_group_and_the_sentinel_slot_is_dropped", z3.Implies(z3.Not(empty), z3.And(out.length == ng, forall(i, z3.Implies(in_range(i, 0, ng), out.at(i) == agg["out"].at(i)))))))
        return cl

    callees = {"_atleast_1d": lambda ex, st, a, k, n: a[0] if isinstance(a[0], (tuple, list)) else (a[0],) * (a[1] if len(a) > 1 else 1),
               "factorize_": callee_factorize, "generic_aggregate": callee_generic_aggregate, "is_nanlen": lambda ex, st, a, k, n: isinstance(a[0], str) and a[0] == "nanlen"}
    c = Contract(qualname="chunk_reduce", file="flox/core.py", prefix=f"C01.chunk_reduce.f{nfuncs}.{'reindex' if reindex else 'noreindex'}.{'expected' if expected_given else 'found'}", params=params, requires=requires, ensures=ensures,
                 serves=("C01", "C05", "C04"), assumed=("factorize_ through its proved contract (1 grouper, props)", "generic_aggregate returns one value per slot of `size` (external kernels)", "ndarray.astype / reshape to the own shape keep the values", "1-D block (n-D blocks are collapsed by _collapse_axis, bounded)"))
    return c, callees


def all_chunk_reduce():
    return [chunk_reduce_contract(nf, ri, eg) for nf in (1, 2) for ri, eg in ((False, False), (True, True), (False, True))]
