"""Sidecar contract of flox.core.chunk_argreduce (C06.global_index): the per-block arg-reduction reports GLOBAL positions.

1-D view of the block (the reduced axis); `idx` is the block's slice of the global position array that
dask_groupby_agg attaches to the data.  ASSUMED callee contract (chunk_reduce with expected_groups=None on an
arg-reduction pair such as ("max", "argmax")): one entry per code present; intermediates[1][g] is a position p of
the flattened block with by[p] == groups[g], and intermediates[0][g] == array[p].
Precondition reindex=False: `_validate_reindex` never lets arg-reductions reindex blockwise (proved in contracts/plan.py).
"""

from __future__ import annotations

import z3

from ..pyvc import valsort as V
from ..pyvc.engine import Contract, I, SSeq, forall, fresh, in_range
from ..pyvc.prims import Opaque
from .kernels import sym_seq


class ChunkReduceCallee:
    def __init__(self):
        self.local = None

    def __call__(self, ex, st, args, kwargs, node):
        array, by = args[0], args[1]
        ex.oblige(st, array.length == by.length, ex._name("pre.chunk_reduce", node), "requires of chunk_reduce: by has the shape of array")
        ex.oblige(st, z3.BoolVal(kwargs.get("expected_groups", "missing") is None), ex._name("pre.chunk_reduce.expected", node), "chunk_argreduce asks chunk_reduce for the groups present (expected_groups=None)")
        tag = fresh("cr").decl().name()
        groups = sym_seq(f"groups_{tag}", I)
        vals = sym_seq(f"block_extreme_{tag}", V.Val)
        local = sym_seq(f"block_position_{tag}", I)
        g = fresh("g")
        st.assume(z3.And(groups.length >= 0, vals.length == groups.length, local.length == groups.length))
        st.assume(forall(g, z3.Implies(in_range(g, 0, groups.length), z3.And(in_range(local.at(g), 0, array.length), by.at(local.at(g)) == groups.at(g), vals.at(g) == array.at(local.at(g)))), patterns=[local.at(g)]))
        self.local, self.groups, self.vals = local, groups, vals
        return {"groups": groups, "intermediates": [vals, local]}


def m_broadcast_to(ex, st, a, k, node):
    """np.broadcast_to(x, shape) for 1-D x and a 1-D shape: the identity, provided the lengths agree (or x has one element)"""
    x, shape = a[0], a[1]
    if type(x).__name__ == "IndexRec" and isinstance(shape, tuple) and len(shape) == 1:
        ex.oblige(st, x.labels.length == shape[0], ex._name("broadcast", node), f"line {node.lineno}: np.broadcast_to keeps a 1-D operand of the target length")
        return x
    n = shape[0] if isinstance(shape, tuple) else shape
    if not isinstance(x, SSeq) or (isinstance(shape, tuple) and len(shape) != 1):
        raise NotImplementedError("broadcast_to beyond 1-D")
    ex.oblige(st, x.length == n, ex._name("broadcast", node), f"line {node.lineno}: np.broadcast_to keeps a 1-D operand of the target length")
    return x


def m_unravel_index(ex, st, a, k, node):
    ind, shape = a[0], a[1]
    if not (isinstance(shape, tuple) and len(shape) == 1):
        raise NotImplementedError("unravel_index beyond 1-D")
    i = fresh("i")
    ex.oblige(st, forall(i, z3.Implies(in_range(i, 0, ind.length), in_range(ind.at(i), 0, shape[0]))), ex._name("pre.unravel_index", node), f"line {node.lineno}: np.unravel_index: flat indices within the shape")
    return (ind,)


def argreduce_models(prims):
    prims.register("numpy.broadcast_to", m_broadcast_to)
    prims.register("numpy.unravel_index", m_unravel_index)


def chunk_argreduce_contract():
    cr = ChunkReduceCallee()

    def params(ex):
        return {"array_plus_idx": (sym_seq("array", V.Val), sym_seq("global_positions", I)), "by": sym_seq("by", I), "func": Opaque("func"), "expected_groups": None, "axis": -1,
                "fill_value": Opaque("fill_value"), "dtype": Opaque("dtype"), "reindex": False, "engine": "numpy", "sort": True, "user_dtype": None}

    def requires(ex, env):
        arr, idx = env["array_plus_idx"]
        return [arr.length >= 0, idx.length == arr.length, env["by"].length == arr.length]

    def ensures(ex, env, res):
        e = env["__entry__"]
        arr, idx = e["array_plus_idx"]
        by = e["by"]
        g = fresh("g")
        out_vals, out_pos = res["intermediates"]
        groups = res["groups"]
        if cr.local is None:
            return [("chunk_reduce_called", z3.BoolVal(False))]
        return [
            ("one_entry_per_group_found", z3.And(out_pos.length == groups.length, out_vals.length == groups.length)),
            ("reports_the_global_position_of_the_block_extreme", forall(g, z3.Implies(in_range(g, 0, groups.length), out_pos.at(g) == idx.at(cr.local.at(g))))),
            ("position_belongs_to_a_member_of_the_group_with_the_reported_value", forall(g, z3.Implies(in_range(g, 0, groups.length), z3.And(by.at(cr.local.at(g)) == groups.at(g), out_vals.at(g) == arr.at(cr.local.at(g)))))),
        ]

    return Contract(qualname="chunk_argreduce", file="flox/core.py", prefix="C06.chunk_argreduce", params=params, requires=requires, ensures=ensures, serves=("C06",),
                    assumed=("labels of the groups found are not null (integer codes / non-missing labels)", "chunk_reduce on an arg-reduction pair returns block-local flattened positions of a member of each group", "np.unravel_index on a 1-D shape is the identity", "np.broadcast_to to the same shape is the identity")), {"chunk_reduce": cr, "isnull": lambda ex, st, a, k, n: SSeq(a[0].length, lambda i: z3.BoolVal(False), kind="array", elem_sort=z3.BoolSort(), name="isnull")}
