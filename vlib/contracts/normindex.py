"""Sidecar contract of flox.core._normalize_indexes (C09.block_selection, also C02): which blocks of the label axis a cohort selects.

For a block grid with ONE label axis of B blocks (B symbolic; data of rank 1 or 2 - a leading axis that the labels do not have) and
a non-empty list of requested flat block numbers (symbolic length, duplicates and any order allowed):
  * the result has one indexer per axis of the data: full slices on the leading axes and one indexer for the label axis;
  * that indexer - an integer, a slice or an open mesh of a list, whichever branch is taken - selects EXACTLY the requested blocks:
    every requested block is selected, nothing that was not requested is, each block once, in ascending block order
    (so new block j of the cohort's array is the j-th smallest requested block: the order the tree reduction relies on);
  * slice bounds are None only where None means the same bound (start 0, stop B).
ASSUMED: _unique (= np.sort(pd.unique(.)): the distinct members ascending; flox-internal, conformance-tested), np.unravel_index on a
1-tuple shape is the identity on in-range indices, np.array_equal = same length and members, np.arange, np.ix_ of one list keeps
its members in order, ndarray.squeeze() of a length-1 array is 0-d, basic / integer / list indexing of NumPy (what S(indexer) means).
n-D block grids (products of per-axis selections, a superset of the request - hence the reindexer) stay bounded (C09.rtc).
"""

from __future__ import annotations

import z3

from ..pyvc.engine import Contract, I, SSeq, forall, fresh, in_range
from ..pyvc.prims import Method, Record
from .kernels import sym_seq


class UArr:
    """the ascending distinct members of an integer array, possibly squeezed (0-d when there is exactly one)"""

    def __init__(self, seq):
        self.seq = seq

    def pyvc_len(self):
        return self.seq.length

    def pyvc_getattr(self, ex, st, attr, node, prims):
        if attr == "ndim":
            return z3.If(self.seq.length == 1, z3.IntVal(0), z3.IntVal(1))
        return Method(self, attr)

    def pyvc_method(self, ex, st, attr, args, kwargs, node, prims):
        if attr == "squeeze" and not args and not kwargs:
            return self
        if attr == "item":
            ex.oblige(st, self.seq.length == 1, ex._name("numpy.item.one_member", node), f"line {node.lineno}: .item() needs exactly one member")
            return self.seq.at(z3.IntVal(0))
        raise NotImplementedError(attr)

    def pyvc_getitem(self, ex, st, idx, node, prims):
        if isinstance(idx, int) and idx in (0, -1):
            ex.oblige(st, self.seq.length >= 1, ex._name("index.nonempty", node), f"line {node.lineno}: index {idx} needs a non-empty array")
            return self.seq.at(z3.IntVal(0)) if idx == 0 else self.seq.at(self.seq.length - 1)
        raise NotImplementedError("general indexing of the distinct members")


class UList:
    def __init__(self, seq):
        self.seq = seq

    def pyvc_len(self):
        return self.seq.length


class Mesh:
    """np.ix_ of one list: an open mesh that selects the list's members, in order, along its axis"""

    def __init__(self, ulist):
        self.ulist = ulist


def register_models(prims):
    def m_unravel(ex, st, a, k, node):
        ind, shape = a
        if not (isinstance(ind, SSeq) and isinstance(shape, tuple) and len(shape) == 1):
            raise NotImplementedError("unravel_index for this contract: an index array and a 1-tuple shape")
        j = fresh("j")
        ex.oblige(st, forall(j, z3.Implies(in_range(j, 0, ind.length), in_range(ind.at(j), 0, shape[0]))), ex._name("pre.unravel_index", node), f"line {node.lineno}: np.unravel_index: every flat block number is within the block grid")
        return (ind,)

    def m_array_equal(ex, st, a, k, node):
        x, y = a
        xs = x.seq if isinstance(x, (UArr, UList)) else x
        ys = y.seq if isinstance(y, (UArr, UList)) else y
        j = fresh("j")
        return z3.And(xs.length == ys.length, forall(j, z3.Implies(in_range(j, 0, xs.length), xs.at(j) == ys.at(j)), patterns=[xs.at(j)]))

    def m_arange(ex, st, a, k, node):
        if len(a) == 1:
            n = a[0] if z3.is_expr(a[0]) else z3.IntVal(a[0])
            return SSeq(z3.If(n > 0, n, 0), lambda i: i, kind="array", name="arange")
        lo, hi = a
        return SSeq(z3.If(hi > lo, hi - lo, 0), lambda i: lo + i, kind="array", name="arange")

    o_list = prims.models["builtins.list"]
    o_hasattr = prims.models.get("builtins.hasattr")
    prims.register("numpy.unravel_index", m_unravel)
    prims.register("numpy.array_equal", m_array_equal)
    prims.register("numpy.arange", m_arange)
    prims.register("builtins.list", lambda ex, st, a, k, n: UList(a[0].seq) if a and isinstance(a[0], UArr) else o_list(ex, st, a, k, n))

    def m_hasattr(ex, st, a, k, node):
        if a[1] == "__len__":
            if isinstance(a[0], (UList, Mesh)):
                return True
            if isinstance(a[0], slice) or z3.is_expr(a[0]) or isinstance(a[0], int):
                return False
        if o_hasattr is None:
            raise NotImplementedError("hasattr other than __len__ of an indexer")
        return o_hasattr(ex, st, a, k, node)

    prims.register("builtins.hasattr", m_hasattr)

    def m_ix(ex, st, a, k, node):
        if not all(isinstance(x, UList) for x in a):
            raise NotImplementedError("np.ix_ of something else than lists")
        if len(a) > 1:
            raise NotImplementedError("np.ix_ of several lists")
        return tuple(Mesh(x) for x in a)

    prims.register("numpy.ix_", m_ix)


def normalize_contract(ndim):
    box = {}

    def params(ex):
        fb = sym_seq("flatblocks", kind="list")
        B = z3.Int("nblocks")
        box.clear()
        box.update(fb=fb, B=B)
        return {"ndim": ndim, "flatblocks": fb, "blkshape": (B,)}

    def requires(ex, env):
        j = fresh("j")
        fb, B = env["flatblocks"], box["B"]
        return [fb.length >= 1, B >= 1, forall(j, z3.Implies(in_range(j, 0, fb.length), in_range(fb.at(j), 0, B)))]

    def c_unique(ex, st, a, k, node):
        (x,) = a
        if not isinstance(x, SSeq):
            raise NotImplementedError("_unique of a non-array")
        U = fresh("nunique")
        arr = z3.Const(f"unique!{U.decl().name()}", z3.ArraySort(I, I))
        u = SSeq.from_array(U, arr, kind="array", name="unique")
        W = z3.Function(f"witness!{U.decl().name()}", I, I)  # u[j] == x[W(j)]
        R = z3.Function(f"rank!{U.decl().name()}", I, I)  # x[k] == u[R(k)]
        j, j2, kk = fresh("j"), fresh("j2"), fresh("k")
        st.assume(z3.And(U >= 0, U <= x.length, z3.Implies(x.length >= 1, U >= 1)))
        st.assume(forall(j, z3.Implies(in_range(j, 0, U), z3.And(in_range(W(j), 0, x.length), x.at(W(j)) == u.at(j))), patterns=[u.at(j)]))
        st.assume(forall(kk, z3.Implies(in_range(kk, 0, x.length), z3.And(in_range(R(kk), 0, U), u.at(R(kk)) == x.at(kk))), patterns=[x.at(kk)]))
        st.assume(z3.ForAll([j, j2], z3.Implies(z3.And(0 <= j, j < j2, j2 < U), u.at(j) < u.at(j2)), patterns=[z3.MultiPattern(u.at(j), u.at(j2))]))
        box.update(u=u, W=W, R=R, x=x)
        return UArr(u)

    def c_issorted(ex, st, a, k, node):
        (x,) = a
        s = x.seq if isinstance(x, (UArr, UList)) else x
        j = fresh("j")
        return forall(j, z3.Implies(z3.And(j >= 0, j + 1 < s.length), s.at(j) <= s.at(j + 1)), patterns=[s.at(j)])

    def ensures(ex, env, res):
        fb, B = box["fb"], box["B"]
        ok = isinstance(res, tuple) and len(res) == ndim
        cl = [("one_indexer_per_axis_of_the_data", z3.BoolVal(ok))]
        if not ok:
            return cl
        cl.append(("leading_axes_taken_whole", z3.BoolVal(all(isinstance(r, slice) and r == slice(None) for r in res[:-1]))))
        e = res[-1]
        u, W, R = box.get("u"), box.get("W"), box.get("R")
        kk, x = fresh("k"), fresh("x")
        if u is None:
            return cl + [("label_axis_indexer_comes_from_the_distinct_requested_blocks", z3.BoolVal(False))]
        if z3.is_expr(e) and e.sort() == I:
            sel_all = forall(kk, z3.Implies(in_range(kk, 0, fb.length), fb.at(kk) == e), patterns=[fb.at(kk)])
            nothing_else = fb.at(W(z3.IntVal(0))) == e
            cl += [("every_requested_block_is_selected", sel_all), ("nothing_else_is_selected", nothing_else), ("within_the_grid", in_range(e, 0, B))]
        elif isinstance(e, slice) and e.step is None:
            lo = z3.IntVal(0) if e.start is None else e.start
            hi = B if e.stop is None else e.stop

            def pos(x_):
                return z3.simplify(x_ - lo)

            cl += [("every_requested_block_is_selected", forall(kk, z3.Implies(in_range(kk, 0, fb.length), in_range(fb.at(kk), lo, hi)), patterns=[fb.at(kk)])),
                   # witness form: block x of the slice is the (x - lo)-th distinct requested block, which the request holds at W(x - lo)
                   ("nothing_else_is_selected", forall(x, z3.Implies(in_range(x, lo, hi), z3.And(in_range(pos(x), 0, u.length), u.at(pos(x)) == x, in_range(W(pos(x)), 0, fb.length), fb.at(W(pos(x))) == x)), patterns=[u.at(pos(x))])),
                   ("within_the_grid", z3.And(0 <= lo, lo < hi, hi <= B))]
        elif isinstance(e, Mesh):
            s = e.ulist.seq
            j, j2 = fresh("j"), fresh("j2")
            cl += [("every_requested_block_is_selected", forall(kk, z3.Implies(in_range(kk, 0, fb.length), z3.And(in_range(R(kk), 0, s.length), s.at(R(kk)) == fb.at(kk))), patterns=[fb.at(kk)])),
                   ("nothing_else_is_selected", forall(j, z3.Implies(in_range(j, 0, s.length), z3.And(in_range(W(j), 0, fb.length), fb.at(W(j)) == s.at(j))), patterns=[s.at(j)])),
                   ("each_block_once_in_ascending_order", z3.ForAll([j, j2], z3.Implies(z3.And(0 <= j, j < j2, j2 < s.length), s.at(j) < s.at(j2)), patterns=[z3.MultiPattern(s.at(j), s.at(j2))])),
                   ("within_the_grid", forall(j, z3.Implies(in_range(j, 0, s.length), in_range(s.at(j), 0, B)), patterns=[s.at(j)]))]
        else:
            cl.append(("label_axis_indexer_is_an_integer_a_slice_or_a_mesh", z3.BoolVal(False)))
        return cl

    c = Contract(qualname="_normalize_indexes", file="flox/core.py", prefix=f"C09.normalize_indexes.nd{ndim}", params=params, requires=requires, ensures=ensures, serves=("C09", "C02"),
                 assumed=("_unique = np.sort(pd.unique(.)): the distinct members ascending (conformance-tested)", "np.unravel_index on a 1-tuple shape is the identity on in-range indices",
                          "np.array_equal: same length and members", "np.ix_ of one list keeps its members in order", "NumPy integer / slice / list indexing selects what the contract calls S(indexer)"))
    c.search = search_normalize
    return c, {"_unique": c_unique, "_issorted": c_issorted}


def all_normalize():
    return [normalize_contract(1), normalize_contract(2)]


def search_normalize():
    """bounded search on the real function: every non-empty multiset of requested blocks (as sorted / reversed / duplicated lists)
    of a grid of up to 6 blocks: indexing arange(B) with the result gives exactly the distinct requested blocks, ascending"""
    import itertools

    import numpy as np

    from flox.core import _normalize_indexes

    for B in range(1, 7):
        for r in range(1, B + 1):
            for sub in itertools.combinations(range(B), r):
                for req in (list(sub), list(reversed(sub)), list(sub) + [sub[0]]):
                    for ndim in (1, 2):
                        case = dict(function="_normalize_indexes", ndim=ndim, flatblocks=req, blkshape=[B])
                        try:
                            idx = _normalize_indexes(ndim, req, (B,))
                        except Exception as e:
                            return case, f"raised {type(e).__name__}: {e}"
                        grid = np.arange(B) if ndim == 1 else np.arange(3 * B).reshape(3, B) % B
                        idx2 = tuple(slice(k, k + 1) if isinstance(k, (int, np.integer)) else k for k in idx)
                        got = grid[idx2]
                        got = got if ndim == 1 else got[0]
                        if len(idx) != ndim or list(np.ravel(got)) != sorted(set(req)):
                            return case, f"indexer {idx} selects blocks {list(np.ravel(got))}, requested (distinct, ascending) {sorted(set(req))}"
    return None
