"""Sidecar contract of flox.aggregate_flox._lerp (C18.interpolation): the interpolation step of the grouped quantile.

Values are mathematical reals (finite data; rounding is outside the family, stated as an assumption)."""

from __future__ import annotations

import z3

from ..pyvc.engine import Contract, SSeq, forall, fresh, in_range
from ..pyvc.prims import Opaque

R = z3.RealSort()


def _rseq(name):
    f = z3.Function(name, z3.IntSort(), R)
    n = z3.Int(f"len_{name}")
    return SSeq(n, lambda i: f(i), kind="array", elem_sort=R, name=name)


def lerp_contract(with_out):
    def params(ex):
        return {"a": _rseq("lo_values"), "b": _rseq("hi_values"), "t": _rseq("gamma"), "dtype": Opaque("dtype"), "out": _rseq("out_buffer") if with_out else None}

    def requires(ex, env):
        n = env["a"].length
        r = [n >= 0, env["b"].length == n, env["t"].length == n]
        if with_out:
            r.append(env["out"].length == n)
        return r

    def ensures(ex, env, res):
        e = env["__entry__"]
        a, b, t = e["a"], e["b"], e["t"]
        i = fresh("i")
        return [("one_value_per_group", res.length == a.length),
                ("linear_interpolation_between_the_two_order_statistics", forall(i, z3.Implies(in_range(i, 0, a.length), res.at(i) == a.at(i) + t.at(i) * (b.at(i) - a.at(i)))))]

    return Contract(qualname="_lerp", file="flox/aggregate_flox.py", prefix=f"C18.lerp.{'out' if with_out else 'noout'}", params=params, requires=requires, ensures=ensures, serves=("C18",), replay=lambda cm: replay_lerp(cm),
                    assumed=("np.add / np.subtract elementwise, out= / where= semantics", "floats as mathematical reals (no rounding, finite values)"))


def all_quantile():
    return [lerp_contract(False), lerp_contract(True)]


def replay_lerp(cm):
    import json

    import numpy as np

    from flox.aggregate_flox import _lerp

    a, b, t = (np.array([float(x) for x in cm[k]], dtype="float64") for k in ("a", "b", "t"))
    if not (len(a) == len(b) == len(t)):
        return None, "outside the precondition"
    out = None if cm.get("out") is None else np.array([float(x) for x in cm["out"]], dtype="float64")
    got = _lerp(a, b, t=t, dtype=np.dtype("float64"), out=out)
    exp = a + t * (b - a)
    bad = not np.allclose(got, exp, rtol=1e-12, atol=1e-12)
    return bad, json.dumps({"verdict": "violated" if bad else "held", "input": {"a": a.tolist(), "b": b.tolist(), "t": t.tolist()}, "got": np.asarray(got).tolist(), "expected": exp.tolist()})
