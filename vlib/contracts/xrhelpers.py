"""Sidecar contracts of the xarray plumbing helpers of flox/xarray.py (C15.helpers):

  _broadcast_size_one_dims(*arrays, core_dims)   every grouper array is brought to the rank of the data's core dimensions: the
        dimensions it has are moved to the positions those dimensions have in core_dims[0] (sizes travel with them), the
        dimensions it lacks become size-1 axes AT THE POSITION of the lacking dimension; the data array is handed on untouched
  xarray_reduce.wrapper(array, *by, func, skipna, core_dims, **kwargs)   the documented skipna table: the nan-skipping variant
        of the reduction is used iff skipna is truthy, or skipna is None and the data can hold NaN (dtype kind c, f, O), and the
        reduction has such a variant (not all / any / count, not already nan*); skipna truthy with all / any / count is a
        ValueError; groupby_reduce is called ONCE on the broadcast array and the broadcast groupers with that name and the
        caller's keyword arguments; the (vector) quantile axis groupby_reduce puts first is moved last, and nothing else moves
  _restore_dim_order(result, obj, by, no_groupby_reorder)   the result is transposed so that the dimensions of the input keep
        their relative order, the group dimension of a 1-D grouper takes the place of the dimension it replaced (first of all
        when no_groupby_reorder), and dimensions the input does not have (new ones) come last in the order they had

Arrays are abstract (contracts/axes.py): a concrete rank, SYMBOLIC sizes and, per dimension, the identity of the input dimension.
Dimension names are concrete strings; every rank 1-3 of the core dimensions and every ordered subset as a grouper's dimensions
is enumerated - a loop-free harness over the full domain (ranks <= 3), sizes symbolic.
ASSUMED: ndarray.transpose permutes dimensions as listed; np.expand_dims(a, axes) inserts size-1 axes so that they sit at the listed
positions of the RESULT; np.moveaxis(a, 0, -1) rotates the first axis to the end; xarray's get_axis_num / transpose.
"""

from __future__ import annotations

import itertools

import z3

from ..pyvc.engine import Contract
from ..pyvc.prims import Method, Opaque, Record
from .axes import Arr, sym_arr

NAMES = ("a", "b", "c")


class DArr(Arr):
    """abstract ndarray with a dtype kind"""

    def __init__(self, shape, dims, kind="f"):
        super().__init__(shape, dims)
        self.kind = kind

    def pyvc_getattr(self, ex, st, attr, node, prims):
        if attr == "dtype":
            return Record("dtype", kind=self.kind)
        return super().pyvc_getattr(ex, st, attr, node, prims)

    def pyvc_method(self, ex, st, attr, args, kwargs, node, prims):
        r = super().pyvc_method(ex, st, attr, args, kwargs, node, prims)
        return DArr(r.shape, r.dims, self.kind) if isinstance(r, Arr) else r


def m_expand_dims(ex, st, a, k, node):
    arr = a[0]
    axis = k.get("axis", a[1] if len(a) > 1 else None)
    if not isinstance(arr, Arr):
        raise NotImplementedError("np.expand_dims of a non-array")
    axis = [int(x) for x in (axis if isinstance(axis, (tuple, list)) else (axis,))]
    n = len(arr.shape) + len(axis)
    ok = all(-n <= x < n for x in axis) and len({x % n for x in axis}) == len(axis)
    ex.oblige(st, z3.BoolVal(ok), ex._name("numpy.expand_dims.axes", node), f"line {node.lineno}: np.expand_dims needs distinct axes within the rank of the result (NumPy raises otherwise)")
    if not ok:
        raise NotImplementedError("expand_dims with bad axes")
    pos = {x % n for x in axis}
    it = iter(range(len(arr.shape)))
    shape, dims = [], []
    for p in range(n):
        if p in pos:
            shape.append(1)
            dims.append(("new", p))
        else:
            j = next(it)
            shape.append(arr.shape[j])
            dims.append(arr.dims[j])
    return type(arr)(shape, dims, *([arr.kind] if isinstance(arr, DArr) else []))


def m_moveaxis(ex, st, a, k, node):
    arr, src, dst = a
    if not isinstance(arr, Arr) or (src, dst) != (0, -1):
        raise NotImplementedError("np.moveaxis other than (0, -1)")
    ex.oblige(st, z3.BoolVal(len(arr.shape) >= 1), ex._name("numpy.moveaxis.rank", node), f"line {node.lineno}: np.moveaxis needs the axis to exist")
    return type(arr)(list(arr.shape[1:]) + [arr.shape[0]], list(arr.dims[1:]) + [arr.dims[0]], *([arr.kind] if isinstance(arr, DArr) else []))


def register_models(prims):
    prims.register("numpy.expand_dims", m_expand_dims)
    prims.register("numpy.moveaxis", m_moveaxis)


def _by(name, ndim):
    return DArr([z3.Int(f"{name}_n{d}") for d in range(ndim)], [(name, d) for d in range(ndim)], "i")


# ------------------------------------------------------------------------------------------ _broadcast_size_one_dims
def broadcast_contract(core, by_dims_list):
    """core: dimension names of the data's core dims (rank 1-3); by_dims_list: for each grouper the tuple of its dimension names"""
    tag = "".join(core) + "." + "_".join("".join(d) or "0" for d in by_dims_list)

    def params(ex):
        data = Opaque("data-array")
        bys = [_by(f"by{j}", len(d)) for j, d in enumerate(by_dims_list)]
        return {"arrays": (data, *bys), "core_dims": [list(core)] + [list(d) for d in by_dims_list]}

    def requires(ex, env):
        return [s >= 0 for b in env["arrays"][1:] for s in b.shape]

    def ensures(ex, env, res):
        e = env["__entry__"]
        ok = isinstance(res, (list, tuple)) and len(res) == 1 + len(by_dims_list)
        cl = [("one_result_per_argument", z3.BoolVal(ok))]
        if not ok:
            return cl
        cl.append(("the_data_array_is_handed_on_untouched", z3.BoolVal(res[0] is e["arrays"][0])))
        for j, dims in enumerate(by_dims_list):
            r, b = res[1 + j], e["arrays"][1 + j]
            isarr = isinstance(r, Arr)
            cl.append((f"by{j}_gets_the_rank_of_the_core_dimensions", z3.BoolVal(isarr and len(r.shape) == len(core))))
            if not (isarr and len(r.shape) == len(core)):
                continue
            have = all(r.dims[p] == (f"by{j}", dims.index(d)) and r.shape[p] is b.shape[dims.index(d)] for p, d in enumerate(core) if d in dims)
            lack = all(isinstance(r.shape[p], int) and r.shape[p] == 1 and r.dims[p][0] == "new" for p, d in enumerate(core) if d not in dims)
            cl.append((f"by{j}_dimensions_it_has_sit_where_the_core_dimensions_are_and_keep_their_sizes", z3.BoolVal(have)))
            cl.append((f"by{j}_dimensions_it_lacks_are_size_one_axes_in_place", z3.BoolVal(lack)))
        return cl

    return Contract(qualname="_broadcast_size_one_dims", file="flox/xarray.py", prefix=f"C15.broadcast.{tag}", params=params, requires=requires, ensures=ensures, serves=("C15",),
                    assumed=("ndarray.transpose(order) permutes the dimensions as listed", "np.expand_dims(a, axes): size-1 axes at the listed positions of the result"))


def all_broadcast():
    out = []
    for n in (1, 2, 3):
        core = NAMES[:n]
        subs = [p for r in range(0, n + 1) for p in itertools.permutations(core, r)]
        for d in subs:
            out.append(broadcast_contract(core, [d]))
    # two groupers at once: each is treated on its own (no state carried from one to the next)
    out.append(broadcast_contract(("a", "b"), [("b",), ("b", "a")]))
    out.append(broadcast_contract(("a", "b", "c"), [("c", "a"), ("b",)]))
    for c in out:
        c.search = search_broadcast
    return out


def search_broadcast():
    import numpy as np

    from flox.xarray import _broadcast_size_one_dims

    sizes = {"a": 2, "b": 3, "c": 4}
    for n in (1, 2, 3):
        core = list(NAMES[:n])
        data = np.zeros([sizes[d] for d in core])
        for r in range(0, n + 1):
            for dims in itertools.permutations(core, r):
                by = np.arange(int(np.prod([sizes[d] for d in dims]))).reshape([sizes[d] for d in dims])
                case = dict(function="_broadcast_size_one_dims", core_dims=core, by_dims=list(dims))
                try:
                    got = _broadcast_size_one_dims(data, by, core_dims=[core, list(dims)])
                except Exception as e:
                    return case, f"raised {type(e).__name__}: {e}"
                want_shape = tuple(sizes[d] if d in dims else 1 for d in core)
                want = np.transpose(by, [dims.index(d) for d in core if d in dims]).reshape(want_shape)
                if got[0] is not data or got[1].shape != want_shape or not (got[1] == want).all():
                    return case, f"grouper of dims {dims} came back with shape {got[1].shape}, the core dimensions {core} need {want_shape} with the grouper's values in place"
    return None


# ------------------------------------------------------------------------------------------------ xarray_reduce.wrapper
FUNCS = ("sum", "nansum", "mean", "max", "nanmax", "count", "all", "any", "first", "argmax", "nanargmax", "var", "median", "quantile", "nanquantile", "prod", "std", "min", "last", "mode")
GH = {}


class NewDim(Record):
    def __init__(self, scalar):
        super().__init__("Dim", name="quantile", is_scalar=scalar)

    def pyvc_getattr(self, ex, st, attr, node, prims):
        return self.fields[attr]


def wrapper_contract(func, skipna, kind, vector_q=False):
    tag = f"{func}.skipna_{skipna}.kind_{kind}" + (".vector_q" if vector_q else "")
    is_q = func in ("quantile", "nanquantile")

    def params(ex):
        GH.clear()
        arr = DArr([z3.Int("arr_n0"), z3.Int("arr_n1")], [("arr", 0), ("arr", 1)], kind)
        by = _by("by0", 2)
        p = {"array": arr, "by": (by,), "func": func, "skipna": skipna, "core_dims": Opaque("core-dims"), "kwargs": {"axis": Opaque("axis"), "fill_value": Opaque("fill"), "engine": Opaque("engine")},
             "finalize_kwargs": {"q": Opaque("q")}}
        GH["p"] = p
        return p

    def c_broadcast(ex, st, a, k, node):
        GH.setdefault("broadcast", []).append((list(a), dict(k)))
        GH["b_arr"] = DArr([z3.Int("barr_n0"), z3.Int("barr_n1")], [("barr", 0), ("barr", 1)], kind)
        GH["b_by"] = _by("bby0", 2)
        return [GH["b_arr"], GH["b_by"]]

    def c_groupby_reduce(ex, st, a, k, node):
        GH.setdefault("reduce", []).append((list(a), dict(k)))
        # groupby_reduce puts a vector quantile axis FIRST
        shape = ([z3.Int("q_n")] if (is_q and vector_q) else []) + [z3.Int("res_n0"), z3.Int("res_ng")]
        dims = (["quantile"] if (is_q and vector_q) else []) + ["kept", "group"]
        GH["result"] = DArr(shape, dims, kind)
        return [GH["result"], Opaque("groups")]

    def c_newdims(ex, st, a, k, node):
        GH.setdefault("newdims", []).append(dict(k))
        return (NewDim(not vector_q),)

    refuse = bool(skipna) and func in ("all", "any", "count")
    nan_variant = (bool(skipna) or (skipna is None and kind in "cfO")) and "nan" not in func and func not in ("all", "any", "count")
    want_func = f"nan{func}" if nan_variant else func

    def ensures(ex, env, res):
        p = GH["p"]
        br, rd = GH.get("broadcast", []), GH.get("reduce", [])
        cl = [("never_returns_for_a_refused_request", z3.BoolVal(not refuse)),
              ("one_broadcast_then_one_groupby_reduce", z3.BoolVal(len(br) == 1 and len(rd) == 1))]
        if not (len(br) == 1 and len(rd) == 1):
            return cl
        (ba, bk), (ra, rk) = br[0], rd[0]
        cl += [("broadcasts_the_callers_array_and_groupers_with_the_callers_core_dims", z3.BoolVal(ba == [p["array"], p["by"][0]] and ba[0] is p["array"] and ba[1] is p["by"][0] and bk.get("core_dims") is p["core_dims"])),
               ("reduces_the_broadcast_array_by_the_broadcast_groupers", z3.BoolVal(len(ra) == 2 and ra[0] is GH["b_arr"] and ra[1] is GH["b_by"])),
               ("documented_skipna_table_decides_the_reduction_name", z3.BoolVal(rk.get("func") == want_func)),
               ("callers_keyword_arguments_handed_on_unchanged", z3.BoolVal({k_: v for k_, v in rk.items() if k_ != "func"} == p["kwargs"] and all(rk[k_] is v for k_, v in p["kwargs"].items())))]
        isarr = isinstance(res, Arr)
        if is_q and vector_q:
            cl.append(("vector_quantile_axis_moved_last_other_axes_keep_their_order", z3.BoolVal(isarr and list(res.dims) == ["kept", "group", "quantile"])))
        else:
            cl.append(("result_of_groupby_reduce_returned_as_it_is", z3.BoolVal(res is GH.get("result"))))
        return cl

    c = Contract(qualname="xarray_reduce.wrapper", file="flox/xarray.py", prefix=f"C15.wrapper.{tag}", params=params, ensures=ensures, raises=("ValueError",) if refuse else (), serves=("C15",),
                 assumed=("groupby_reduce: the bounded contract of C01 / C02", "_broadcast_size_one_dims: proved (C15.broadcast.*)", "np.moveaxis(a, 0, -1) rotates the first axis to the end"))
    return c, {"_broadcast_size_one_dims": c_broadcast, "groupby_reduce": c_groupby_reduce, "quantile_new_dims_func": c_newdims}


def all_wrapper():
    out = []
    for func in FUNCS:
        for skipna in (None, True, False):
            for kind in ("f", "i", "b", "O", "c", "M"):
                if kind in ("b", "O", "c", "M") and func not in ("sum", "max", "count", "all", "first", "nanmax"):
                    continue  # the table only looks at the kind: the rarer kinds are crossed with six names
                out.append(wrapper_contract(func, skipna, kind))
    for func in ("quantile", "nanquantile"):
        for skipna in (None, True, False):
            out.append(wrapper_contract(func, skipna, "f", vector_q=True))
    return out


# --------------------------------------------------------------------------------------------------- _restore_dim_order
class XObj(Record):
    """abstract xarray object: dims, name, ndim; transpose records the order asked for"""

    def __init__(self, label, dims, name=None):
        super().__init__("xarray")
        self.label, self.dims, self.name = label, tuple(dims), name

    def pyvc_getattr(self, ex, st, attr, node, prims):
        if attr == "dims":
            return self.dims
        if attr == "name":
            return self.name
        if attr == "ndim":
            return len(self.dims)
        return Method(self, attr)

    def pyvc_method(self, ex, st, attr, args, kwargs, node, prims):
        if attr == "get_axis_num":
            (d,) = args
            ex.oblige(st, z3.BoolVal(d in self.dims), ex._name("xarray.get_axis_num.has_dim", node), f"line {node.lineno}: get_axis_num needs a dimension of the object (xarray raises otherwise)")
            return self.dims.index(d)
        if attr == "transpose":
            order = tuple(args)
            ok = sorted(order) == sorted(self.dims) and len(set(order)) == len(order)
            ex.oblige(st, z3.BoolVal(ok), ex._name("xarray.transpose.permutation", node), f"line {node.lineno}: transpose needs a permutation of the dimensions")
            return XObj(self.label + ".T", order, self.name)
        raise NotImplementedError(attr)


def restore_contract(obj_dims, grouped, res_dims, by_ndim, noreorder):
    """obj_dims: dims of the input; grouped: dims of the grouper; res_dims: dims of the result as apply_ufunc delivered them
    (some order of: kept dims, the group dim 'G', new dims 'N1', 'N2'); by_ndim = len(grouped)"""
    tag = f"{''.join(obj_dims)}.by_{''.join(grouped)}.res_{'-'.join(res_dims)}.{'noreorder' if noreorder else 'reorder'}"

    def params(ex):
        return {"result": XObj("result", res_dims, "v"), "obj": XObj("obj", obj_dims, "v"), "by": XObj("by", grouped, "G"), "no_groupby_reorder": noreorder}

    def rank(d):
        if d == "G" and by_ndim == 1:
            if noreorder:
                return (-1, 0)
            d = grouped[0]
        return (0, obj_dims.index(d)) if d in obj_dims else (1, 0)

    want = tuple(sorted(res_dims, key=rank))  # stable: dimensions of equal rank keep the order they had

    def ensures(ex, env, res):
        ok = isinstance(res, XObj)
        return [("returns_the_result_transposed", z3.BoolVal(ok and res.label == "result.T")),
                ("input_dimensions_in_input_order_group_dimension_in_place_of_the_grouped_one_new_dimensions_last", z3.BoolVal(ok and tuple(res.dims) == want))]

    return Contract(qualname="_restore_dim_order", file="flox/xarray.py", prefix=f"C15.restore.{tag}", params=params, ensures=ensures, serves=("C15",),
                    assumed=("xarray get_axis_num / transpose(*dims)",))


def all_restore():
    out = []
    seen = set()
    for n in (1, 2, 3):
        obj_dims = NAMES[:n]
        for g in obj_dims:  # 1-D grouper along g
            kept = [d for d in obj_dims if d != g]
            for extra in ((), ("N1",), ("N1", "N2")):
                members = kept + ["G"] + list(extra)
                perms = list(itertools.permutations(members)) if len(members) <= 3 else [tuple(members), tuple(reversed(members)), tuple(members[1:] + members[:1]), tuple([members[-1]] + members[:-1])]
                for res_dims in perms:
                    for noreorder in (False, True):
                        key = (obj_dims, g, res_dims, noreorder)
                        if key not in seen:
                            seen.add(key)
                            out.append(restore_contract(obj_dims, (g,), res_dims, 1, noreorder))
    # 2-D grouper: the group dimension is a new dimension (it replaces two)
    for res_dims in (("G", "a"), ("a", "G"), ("G",)):
        obj_dims = ("a", "b", "c")
        kept = tuple(d for d in res_dims)
        out.append(restore_contract(obj_dims, ("b", "c"), res_dims, 2, False))
    for c in out:
        c.search = search_restore
    return out


def search_restore():
    import numpy as np
    import xarray as xr

    from flox.xarray import _restore_dim_order

    sizes = {"a": 2, "b": 3, "c": 4, "G": 5, "N1": 6, "N2": 7}
    for n in (1, 2, 3):
        obj_dims = NAMES[:n]
        obj = xr.DataArray(np.zeros([sizes[d] for d in obj_dims]), dims=obj_dims)
        for g in obj_dims:
            by = xr.DataArray(np.zeros(sizes[g]), dims=(g,), name="G")
            kept = [d for d in obj_dims if d != g]
            for extra in ((), ("N1",), ("N1", "N2")):
                members = kept + ["G"] + list(extra)
                for res_dims in itertools.permutations(members):
                    result = xr.DataArray(np.zeros([sizes[d] for d in res_dims]), dims=res_dims)
                    for noreorder in (False, True):
                        case = dict(function="_restore_dim_order", obj_dims=list(obj_dims), grouped=g, result_dims=list(res_dims), no_groupby_reorder=noreorder)

                        def rank(d):
                            if d == "G":
                                if noreorder:
                                    return (-1, 0)
                                d = g
                            return (0, obj_dims.index(d)) if d in obj_dims else (1, 0)

                        want = tuple(sorted(res_dims, key=rank))
                        try:
                            got = _restore_dim_order(result, obj, by, noreorder)
                        except Exception as e:
                            return case, f"raised {type(e).__name__}: {e}"
                        if tuple(got.dims) != want:
                            return case, f"dims {tuple(got.dims)}, the order of the input with the group dimension in place and new dimensions last is {want}"
    return None
