"""Sidecar contract of flox.core._factorize_multiple, dask branch (C12.same_mapping, C07.lazy, C16): protocol obligations.

With at least one dask grouper the integer codes are computed lazily, block by block (dask.array.map_blocks of
_lazy_factorize_wrapper).  The codes of different blocks mean the same labels only if every block is factorized against
the SAME, announced groups.  Obligations (call-site protocol, ghost record of the map_blocks calls):
  * one lazy factorization per grouper, on the chunk-unified version of that grouper, with
    expected_groups == (found_groups[k],), found_groups[k] never None, sort handed on, reindex=True, fastpath=True;
  * the announced groups of a grouper given with expected_groups are those, the announced groups of an in-memory
    grouper without them are the ones the eager path finds (_get_expected_groups with the same sort);
  * the raveling step gets grp_shape == the sizes of the announced groups, in order;
  * ValueError exactly when a dask grouper comes without expected_groups.
"""

from __future__ import annotations

import z3

from ..pyvc.engine import Contract, fresh
from ..pyvc.prims import ModRef, Opaque, Record, RepoFunc
from .config import ArrayRec
from .finalize import IndexRec
from .kernels import sym_seq


class Ghost:
    def __init__(self):
        self.map_blocks = []
        self.discovered = []


def models_for(g):
    def is_dask(ex, st, a, k, node):
        x = a[0]
        return x.is_dask if isinstance(x, ArrayRec) else False

    def get_expected(ex, st, a, k, node):
        by_ = a[0]
        ex.oblige(st, z3.Not(by_.is_dask), ex._name("lazy", node), f"line {node.lineno}: _get_expected_groups evaluates the labels: never on a dask grouper")
        idx = IndexRec(sym_seq(f"discovered_{len(g.discovered)}"))
        g.discovered.append((by_, k.get("sort"), idx))
        return idx

    return {"is_duck_dask_array": is_dask, "_get_expected_groups": get_expected}


def register_models(prims, g):
    def unify_chunks(ex, st, a, k, node):
        arrays = [x for x in a[0::2]]
        out = [ArrayRec(x.name + ".unified", True, x.ndim, x.dkind) for x in arrays]
        for o, x in zip(out, arrays):
            o.unified_from = x
        chunks = ChunksDict()
        return (chunks, out)

    def map_blocks(ex, st, a, k, node):
        g.map_blocks.append((a[0], list(a[1:]), dict(k)))
        return ArrayRec(f"lazy{len(g.map_blocks)}", True, 1, z3.StringVal("i"))

    def chain(ex, st, a, k, node):
        out = []
        for x in a:
            out.extend(list(x))
        return out

    def map_(ex, st, a, k, node):
        fn, items = a[0], a[1]
        if isinstance(items, (list, tuple)):
            outs = []
            for it in items:
                ((s2, v),) = prims.call(ex, st, fn, [it], {}, node)
                outs.append(v)
            return outs
        return Opaque("map-object")

    prims.register("dask.array.unify_chunks", unify_chunks)
    prims.register("dask.array.map_blocks", map_blocks)
    prims.register("itertools.chain", chain)
    prims.register("builtins.map", map_)
    prims.register("numpy.array", lambda ex, st, a, k, n: Opaque("meta"))
    prims.register("pandas.unique", lambda ex, st, a, k, n: sym_seq(f"unique_{fresh('u').decl().name()}"))


class ChunksDict(Record):
    def __init__(self):
        super().__init__("ChunksDict")

    def pyvc_getattr(self, ex, st, attr, node, prims):
        from ..pyvc.prims import Method

        return Method(self, attr)

    def pyvc_method(self, ex, st, attr, args, kwargs, node, prims):
        if attr == "values":
            return Opaque("chunks")
        raise NotImplementedError(attr)


def factorize_multiple_contract(kinds, expecteds):
    """kinds: tuple of 'numpy' | 'dask' per grouper; expecteds: tuple of bool (expected_groups given)"""
    g = Ghost()
    nby = len(kinds)

    def params(ex):
        g.map_blocks.clear()
        g.discovered.clear()
        by = tuple(ArrayRec(f"by{k}", kinds[k] == "dask", 1, z3.StringVal("i")) for k in range(nby))
        eg = tuple(IndexRec(sym_seq(f"requested{k}")) if expecteds[k] else None for k in range(nby))
        return {"by": by, "expected_groups": eg, "any_by_dask": True, "sort": z3.Bool("sort")}

    should_raise = any(kinds[k] == "dask" and not expecteds[k] for k in range(nby))

    def ensures(ex, env, res):
        e = env["__entry__"]
        cl = [("refused_when_a_dask_grouper_has_no_expected_groups", z3.BoolVal(not should_raise))]
        if should_raise:
            return cl
        (group_idx,), found, grp_shape = res
        cl.append(("one_announced_index_per_grouper", z3.BoolVal(len(found) == nby and all(f is not None for f in found))))
        lazy = [m for m in g.map_blocks if isinstance(m[0], RepoFunc) and m[0].name == "_lazy_factorize_wrapper"]
        ravel = [m for m in g.map_blocks if isinstance(m[0], RepoFunc) and m[0].name == "_ravel_factorized"]
        cl.append(("one_lazy_factorization_per_grouper_and_one_raveling", z3.BoolVal(len(lazy) == nby and len(ravel) == 1)))
        for k in range(min(nby, len(lazy), len(found))):
            fn, args, kw = lazy[k]
            given = e["expected_groups"][k]
            if given is not None:
                cl.append((f"grouper{k}.announced_groups_are_the_requested_ones", z3.BoolVal(found[k] is given)))
            else:
                disc = [d for d in g.discovered if d[2] is found[k]]
                ok = len(disc) == 1 and disc[0][0] is e["by"][k] and (disc[0][1] is e["sort"] or (z3.is_expr(disc[0][1]) and disc[0][1].eq(e["sort"])))
                cl.append((f"grouper{k}.announced_groups_are_those_the_eager_path_finds_with_the_same_sort", z3.BoolVal(ok)))
            eg_kw = kw.get("expected_groups")
            cl.append((f"grouper{k}.every_block_is_factorized_against_the_announced_groups", z3.BoolVal(isinstance(eg_kw, tuple) and len(eg_kw) == 1 and eg_kw[0] is found[k])))
            cl.append((f"grouper{k}.lazy_codes_come_from_this_grouper", z3.BoolVal(len(args) == 1 and getattr(args[0], "unified_from", None) is e["by"][k])))
            s_kw = kw.get("sort")
            cl.append((f"grouper{k}.options_handed_on", z3.BoolVal(kw.get("fastpath") is True and kw.get("reindex") is True and kw.get("axes") == () and (s_kw is e["sort"] or (z3.is_expr(s_kw) and s_kw.eq(e["sort"]))))))
        if len(ravel) == 1:
            fn, args, kw = ravel[0]
            gs = kw.get("grp_shape")
            ok = isinstance(gs, (tuple, list)) and len(gs) == nby and all(z3.is_expr(s_) and s_.eq(found[k].labels.length) for k, s_ in enumerate(gs) if k < len(found))
            cl.append(("raveling_uses_the_sizes_of_the_announced_groups_in_order", z3.BoolVal(bool(ok))))
            cl.append(("raveling_gets_the_lazy_codes_in_order", z3.BoolVal(len(args) == nby and all(getattr(a_, "name", "") == f"lazy{k + 1}" for k, a_ in enumerate(args)))))
            cl.append(("returned_shape_is_the_raveling_shape", z3.BoolVal(tuple(grp_shape) == tuple(gs) if isinstance(gs, (tuple, list)) else False)))
        return cl

    def exc_ensures(ex, env, exc):
        return [("only_when_a_dask_grouper_has_no_expected_groups", z3.BoolVal(should_raise))]

    tag = "_".join(f"{kinds[k]}{'E' if expecteds[k] else 'N'}" for k in range(nby))
    c = Contract(qualname="_factorize_multiple", file="flox/core.py", prefix=f"C12.factorize_multiple.{tag}", params=params, ensures=ensures, raises=("ValueError",), exc_ensures=exc_ensures,
                 serves=("C12", "C07", "C16"), assumed=("dask.array.map_blocks applies the function to every block with the given keyword arguments", "dask.array.unify_chunks returns the same arrays, chunked alike"))
    c.search = search_lazyfact
    return c, g


def all_lazyfact():
    out = []
    for kinds in (("numpy", "dask"), ("dask", "numpy"), ("dask", "dask")):
        for expecteds in ((True, True), (False, True), (True, False)):
            out.append(factorize_multiple_contract(kinds, expecteds))
    return out


def search_lazyfact():
    """bounded search on the real code: mixed in-memory / dask groupers, eager result as the reference"""
    import numpy as np
    import pandas as pd

    import dask.array as da
    import flox

    vals = np.array([1.0, -2.0, 3.0, 0.5, 4.0, 2.5, -1.0, 2.0])
    b1 = np.array([0, 0, 1, 1, 0, 0, 1, 1])
    for lab0 in ([30, 10, 30, 10, 20, 20, 10, 30], [20.0, np.nan, 10.0, 10.0, 30.0, 20.0, 30.0, 10.0], [10, 10, 20, 20, 30, 30, 10, 20]):
        for ch in (4, 3, 1):
            for sort in (True, False):
                for swap in (False, True):
                    b0 = np.array(lab0)
                    bys_e = (b1, b0) if swap else (b0, b1)
                    eg = (pd.Index([0, 1]), None) if swap else (None, pd.Index([0, 1]))
                    bys_d = tuple(da.from_array(b, chunks=ch) if (b is b1) else b for b in bys_e)
                    kw = dict(func="sum", expected_groups=eg, sort=sort, fill_value=0)
                    try:
                        e = flox.groupby_reduce(vals, *bys_e, **kw)
                        d = flox.groupby_reduce(da.from_array(vals, chunks=ch), *bys_d, **kw)
                        ok = np.array_equal(np.asarray(e[0]), np.asarray(d[0].compute()), equal_nan=True) and all(np.array_equal(np.asarray(x, dtype=float), np.asarray(y, dtype=float), equal_nan=True) for x, y in zip(e[1:], d[1:]))
                        why = f"eager {np.asarray(e[0]).tolist()} groups {[np.asarray(x).tolist() for x in e[1:]]} != chunked {np.asarray(d[0].compute()).tolist()} groups {[np.asarray(x).tolist() for x in d[1:]]}"
                    except Exception as ex_:
                        ok, why = False, f"raised {type(ex_).__name__}: {ex_}"
                    if not ok:
                        return {"array": vals.tolist(), "by_in_memory": [repr(x) for x in lab0], "by_dask": b1.tolist(), "chunks": ch, "sort": sort, "in_memory_grouper_first": not swap, "func": "sum"}, why
    return None
