"""Sidecar contract of flox.core.listify_groups (C12.labels_keep_their_dtype): the labels a block has found are handed to the
combine step as a list of NumPy scalars of the labels' own dtype, one per label, in order.

`find_group_cohorts`-free plans discover the labels at compute time: `_find_unique_groups` flattens what listify_groups returns
for every block and rebuilds ONE array with np.asarray(tuple(...)). That array has the labels' dtype only if the members still
carry it: `list(arr)` yields NumPy scalars (datetime64, timedelta64, float32, ... keep unit and width), `arr.tolist()` yields
Python objects (datetime64[ns] -> int, float32 -> float, ...). Proved: the value returned is the element list of the squeezed,
at-least-1-D groups array - as many members as labels, the same order, members are NumPy scalars of the groups' dtype.
ASSUMED: ndarray.squeeze / np.atleast_1d keep dtype and order; list(ndarray) yields its members as NumPy scalars.
"""

from __future__ import annotations

import z3

from ..pyvc.engine import Contract
from ..pyvc.prims import Method, Record


class LArr(Record):
    def __init__(self, dtype, steps=()):
        super().__init__("ndarray")
        self.dtype, self.steps = dtype, tuple(steps)

    def pyvc_getattr(self, ex, st, attr, node, prims):
        if attr == "dtype":
            return self.dtype
        return Method(self, attr)

    def pyvc_method(self, ex, st, attr, args, kwargs, node, prims):
        if attr == "squeeze":
            return LArr(self.dtype, self.steps + ("squeeze",))
        if attr == "tolist":
            return Members(None, self, "python-objects")
        if attr in ("ravel", "reshape", "flatten"):
            return LArr(self.dtype, self.steps + (attr,))
        raise NotImplementedError(attr)


class Members(Record):
    """the members of an array as a Python list: NumPy scalars of `dtype`, or plain Python objects (dtype None)"""

    def __init__(self, dtype, of, how):
        super().__init__("list")
        self.dtype, self.of, self.how = dtype, of, how


def register_models(prims):
    o_list = prims.models["builtins.list"]
    prims.register("numpy.atleast_1d", lambda ex, st, a, k, n: LArr(a[0].dtype, a[0].steps + ("atleast_1d",)) if isinstance(a[0], LArr) else a[0])
    prims.register("builtins.list", lambda ex, st, a, k, n: Members(a[0].dtype, a[0], "numpy-scalars") if a and isinstance(a[0], LArr) else o_list(ex, st, a, k, n))


def listify_contract():
    box = {}

    def params(ex):
        dt = Record("dtype", token="labels-dtype")
        g = LArr(dt)
        box.update(dt=dt, g=g)
        return {"x": {"groups": g, "intermediates": []}}

    def ensures(ex, env, res):
        ok = isinstance(res, Members)
        return [("returns_the_members_of_the_groups_array", z3.BoolVal(ok and set(res.of.steps) <= {"squeeze", "atleast_1d", "ravel"} and "atleast_1d" in res.of.steps)),
                ("members_keep_the_dtype_of_the_labels", z3.BoolVal(ok and res.dtype is box["dt"] and res.how == "numpy-scalars"))]

    c = Contract(qualname="listify_groups", file="flox/core.py", prefix="C12.listify_groups", params=params, ensures=ensures, serves=("C12",),
                 assumed=("ndarray.squeeze / np.atleast_1d keep dtype and order", "list(ndarray) yields the members as NumPy scalars of the array's dtype; ndarray.tolist() yields Python objects"))
    c.search = search_listify
    return c


def search_listify():
    import numpy as np

    from flox.core import listify_groups

    for arr in (np.array(["2001-01-01", "2001-01-03"], dtype="datetime64[ns]").reshape(1, 2), np.array([3, 7], dtype="timedelta64[s]"), np.array([1.5, 2.5], dtype="float32").reshape(2, 1), np.array(5, dtype="int16")):
        got = listify_groups({"groups": arr})
        if len(got) != arr.size or any(getattr(m, "dtype", None) != arr.dtype for m in got):
            return dict(groups=str(arr.tolist()), dtype=str(arr.dtype)), f"members {[type(m).__name__ for m in got]} do not carry the dtype {arr.dtype} of the labels"
    return None
