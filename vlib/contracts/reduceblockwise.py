"""Sidecar contract of flox.core._reduce_blockwise (C01.eager_path, C06.unravel; also C05 / C11 plumbing): the eager (and
method="blockwise" per-block) path as a protocol over chunk_reduce and _finalize_results.

PROVED (ordinary reduction / arg-reduction):
  * chunk_reduce is called once on the caller's array and labels with the aggregation's NUMPY blueprint: func=agg.numpy, the numpy
    fill values and dtypes of the aggregation, the user's requested dtype, finalize kwargs for the first function only, and the
    caller's axis, expected_groups, engine, sort; `reindex` is the blockwise flag of the strategy;
  * the aggregation's finalize is switched off BEFORE finalizing (the numpy blueprint already yields final values): the finalize
    step only masks / reindexes / casts;
  * for an arg-reduction the flat positions returned by the kernel are unravelled against the array's shape and the coordinate
    along the LAST axis (the reduced one, after the reduced axes were moved last) is kept - slot 0 of the intermediates, nothing else;
  * _finalize_results gets those results, the aggregation, axis, requested groups and the strategy; its result is returned.
ASSUMED: chunk_reduce (C05.chunk_reduce.*: numpy engine, 1-D; otherwise bounded) and _finalize_results (C05.finalize_results.*:
proved); np.unravel_index(flat, shape) returns one coordinate array per dimension.
"""

from __future__ import annotations

import z3

from ..pyvc.engine import Contract
from ..pyvc.prims import Opaque, Record


class Agg(Record):
    def __init__(self, is_arg):
        super().__init__("Aggregation", name="agg", reduction_type="argreduce" if is_arg else "reduce")
        self.attrs = {"numpy": Opaque("numpy-funcs"), "fill_value": {"numpy": Opaque("numpy-fills"), "intermediate": Opaque("x")}, "dtype": {"numpy": Opaque("numpy-dtypes"), "user": Opaque("user-dtype"), "final": Opaque("final")},
                      "finalize_kwargs": {"kw": 1}, "finalize": Opaque("finalize-function")}
        self.writes = []

    def pyvc_getattr(self, ex, st, attr, node, prims):
        if attr in self.attrs:
            return self.attrs[attr]
        if attr in self.fields:
            return self.fields[attr]
        raise NotImplementedError(attr)

    def pyvc_setattr(self, ex, st, attr, value, node):
        self.writes.append((attr, value, len(GH.get("chunk_reduce", [])), len(GH.get("finalize", []))))
        self.attrs[attr] = value


GH = {}


def reduce_blockwise_contract(is_arg):
    def params(ex):
        GH.clear()
        agg = Agg(is_arg)
        arr = Record("ndarray", shape=Opaque("array-shape"))
        p = {"array": arr, "by": Opaque("by"), "agg": agg, "axis": Opaque("axis"), "expected_groups": Opaque("expected_groups"), "fill_value": Opaque("fill_value"), "engine": Opaque("engine"),
             "sort": Opaque("sort"), "reindex": Record("ReindexStrategy", blockwise=z3.Bool("reindex_blockwise"), array_type=Opaque("t"))}
        GH["p"] = p
        return p

    def c_chunk_reduce(ex, st, a, k, node):
        GH.setdefault("chunk_reduce", []).append((list(a), dict(k)))
        GH["flat"] = Opaque("flat-positions-or-values")
        GH["second"] = Opaque("second-intermediate")
        GH["results"] = {"groups": Opaque("groups"), "intermediates": [GH["flat"], GH["second"]]}
        return GH["results"]

    def c_is_arg(ex, st, a, k, node):
        return is_arg

    def c_finalize(ex, st, a, k, node):
        res = a[0]
        GH.setdefault("finalize", []).append((list(a), dict(k), list(res["intermediates"]) if isinstance(res, dict) else None))
        GH["final"] = Opaque("final-results")
        return GH["final"]

    def models(prims):
        def unravel(ex, st, a, k, node):
            GH.setdefault("unravel", []).append(list(a))
            GH["coords"] = [Opaque("coordinate-first-axes"), Opaque("coordinate-along-last-axis")]
            return tuple(GH["coords"])

        prims.register("numpy.unravel_index", unravel)

    def ensures(ex, env, res):
        p = GH["p"]
        agg = p["agg"]
        cr, fin = GH.get("chunk_reduce", []), GH.get("finalize", [])
        cl = [("one_chunk_reduce_then_one_finalize", z3.BoolVal(len(cr) == 1 and len(fin) == 1))]
        if not (len(cr) == 1 and len(fin) == 1):
            return cl
        (ca, ck), (fa, fk, inter) = cr[0], fin[0]
        at = agg.attrs
        fkw = ck.get("kwargs")
        rb = ck.get("reindex")
        cl += [
            ("reduces_the_callers_array_by_the_callers_labels", z3.BoolVal(ca[:2] == [p["array"], p["by"]])),
            ("with_the_numpy_blueprint_of_the_aggregation", z3.BoolVal(ck.get("func") is at["numpy"] and ck.get("fill_value") is at["fill_value"]["numpy"] and ck.get("dtype") is at["dtype"]["numpy"] and ck.get("user_dtype") is at["dtype"]["user"])),
            ("finalize_kwargs_go_to_the_first_function_only", z3.BoolVal(isinstance(fkw, tuple) and len(fkw) >= 1 and fkw[0] == {"kw": 1} and all(x == {} for x in fkw[1:]))),
            ("axis_groups_engine_sort_handed_on", z3.BoolVal(ck.get("axis") is p["axis"] and ck.get("expected_groups") is p["expected_groups"] and ck.get("engine") is p["engine"] and ck.get("sort") is p["sort"])),
            ("reindex_flag_is_the_blockwise_flag_of_the_strategy", (rb == p["reindex"].fields["blockwise"]) if z3.is_expr(rb) else z3.BoolVal(False)),
            ("finalize_switched_off_before_finalizing", z3.BoolVal(any(w[0] == "finalize" and w[1] is None and w[3] == 0 for w in agg.writes) and all(w[0] == "finalize" for w in agg.writes))),
            ("finalize_gets_results_aggregation_axis_groups_strategy", z3.BoolVal(len(fa) >= 4 and isinstance(fa[0], dict) and fa[0].get("groups") is GH["results"]["groups"] and fa[1] is agg and fa[2] is p["axis"] and fa[3] is p["expected_groups"] and fk.get("reindex") is p["reindex"])),
            ("returns_the_finalized_results", z3.BoolVal(res is GH["final"])),
        ]
        if is_arg:
            un = GH.get("unravel", [])
            cl += [("flat_positions_unravelled_against_the_shape_of_the_array", z3.BoolVal(len(un) == 1 and un[0][0] is GH["flat"] and un[0][1] is p["array"].fields["shape"])),
                   ("coordinate_along_the_last_axis_kept_in_slot_0_only", z3.BoolVal(inter is not None and len(inter) == 2 and inter[0] is GH.get("coords", [None, None])[1] and inter[1] is GH["second"]))]
        else:
            cl.append(("intermediates_untouched", z3.BoolVal("unravel" not in GH and inter == [GH["flat"], GH["second"]])))
        return cl

    c = Contract(qualname="_reduce_blockwise", file="flox/core.py", prefix=f"C01.reduce_blockwise.{'argreduce' if is_arg else 'reduce'}", params=params, ensures=ensures, serves=("C01", "C06", "C05"),
                 assumed=("chunk_reduce: C05.chunk_reduce.* (numpy engine, 1-D) and bounded otherwise", "_finalize_results: proved (C05.finalize_results.*)", "np.unravel_index(flat, shape): one coordinate array per dimension"))
    return c, {"chunk_reduce": c_chunk_reduce, "_is_arg_reduction": c_is_arg, "_finalize_results": c_finalize}, models


def all_reduce_blockwise():
    return [reduce_blockwise_contract(False), reduce_blockwise_contract(True)]
