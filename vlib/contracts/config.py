"""Configuration-level contract of flox.core.groupby_reduce (C12 laziness L-sites, C19 exception types and
in-code asserts, C02/C09 plan preconditions at the call of dask_groupby_agg).

Arrays are abstracted to records {is_dask: Bool, ndim: Int, dtype.kind: String}; every library / in-repo call that
would EVALUATE a chunked array (np.asarray, pd.unique, pd.factorize, np.argsort, find_group_cohorts, the eager
kernels, rechunk_for_blockwise's factorisation ...) carries the precondition "its argument is not a dask array".
PyVC executes the real body of groupby_reduce over these records; each such call site becomes an obligation
(an L-site) that must follow from the guards on the path.
"""

from __future__ import annotations

import ast

import z3

from ..pyvc.engine import Contract, SSeq, fresh, in_range, is_sym, to_z3, zbool
from ..pyvc.prims import ModRef, Opaque, PartialVal, Raised, Record, Unsupported
from . import plan

LAZY_SAFE_METHODS = {"astype", "view", "reshape", "transpose", "squeeze", "rechunk", "copy", "map_blocks", "sum", "any", "all", "min", "max", "__getitem__", "to_numpy"}


class ArrayRec(Record):
    """Abstract array: numpy (is_dask false) or dask (is_dask true)."""

    def __init__(self, name, is_dask, ndim, kind):
        super().__init__("Array")
        self.name = name
        self.is_dask = is_dask if is_sym(is_dask) else z3.BoolVal(bool(is_dask))
        self.ndim = ndim
        self.dkind = kind

    def like(self, name=None, kind=None, ndim=None):
        return ArrayRec(name or self.name, self.is_dask, self.ndim if ndim is None else ndim, self.dkind if kind is None else kind)

    def pyvc_getattr(self, ex, st, attr, node, prims):
        from ..pyvc.prims import Method

        if attr == "dtype":
            return Record("dtype", kind=self.dkind)
        if attr == "ndim":
            return self.ndim
        if attr == "shape":
            return ShapeRec(self)
        if attr in ("chunks", "numblocks"):
            # metadata of a dask array; reading it from a numpy array is an AttributeError
            ex.oblige(st, self.is_dask, ex._name("attr", node), f"line {node.lineno}: `.{attr}` is read only from a dask array: {ex.src(node)}")
            cache = self.__dict__.setdefault("_meta_objs", {})
            if attr not in cache:
                cache[attr] = Opaque(f"{self.name}.{attr}")
            return cache[attr]
        if attr == "size":
            return fresh("size")
        return Method(self, attr)

    def pyvc_method(self, ex, st, attr, args, kwargs, node, prims):
        if attr in LAZY_SAFE_METHODS:
            if attr in ("sum", "any", "all", "min", "max"):
                return ArrayRec(self.name + "." + attr, self.is_dask, fresh("nd"), self.dkind)
            if attr == "astype":
                return self.like(kind=z3.String(f"kind!{fresh('k').decl().name()}"))
            if attr == "view":
                return self.like(kind=z3.StringVal("i"))
            return self.like()
        if attr in ("compute", "item", "tolist", "__array__", "__bool__", "__iter__"):
            ex.oblige(st, z3.Not(self.is_dask), ex._name("lazy", node), f"line {node.lineno}: `{ex.src(node)}` would evaluate a chunked array")
            return Opaque("forced")
        raise Unsupported(f"Array.{attr}")

    def pyvc_getitem(self, ex, st, idx, node, prims):
        return self.like()

    def pyvc_compare(self, ex, st, op, other, flip, node, prims):
        return ArrayRec("cmp", self.is_dask, self.ndim, z3.StringVal("b"))

    def pyvc_binop(self, ex, st, op, other, flip, node, prims):
        return self.like()

    @property
    def truth(self):
        # bool(dask array) evaluates it; bool(numpy array) is fine for size-1 results
        return z3.Bool(f"truth!{fresh('t').decl().name()}")


class ShapeRec:
    def __init__(self, arr):
        self.arr = arr

    def pyvc_getitem(self, ex, st, idx, node, prims):
        return Opaque("shape-part") if isinstance(idx, slice) or not (isinstance(idx, int) or is_sym(idx)) else fresh("dim")

    def pyvc_binop(self, ex, st, op, other, flip, node, prims):
        return Opaque("shape")


class ResultsDict:
    def __init__(self, result, groups):
        self.result, self.groups = result, groups

    def pyvc_getitem(self, ex, st, idx, node, prims):
        return self.groups if idx == "groups" else self.result


class Cohorts:
    def __init__(self, nonempty):
        self.truth = nonempty


def require_numpy(ex, st, x, node, what):
    """The L-site obligation: this use evaluates x, so x must not be a dask array on this path."""
    if isinstance(x, ArrayRec):
        ex.oblige(st, z3.Not(x.is_dask), ex._name("lazy", node), f"line {node.lineno}: {what} evaluates its argument `{x.name}`: must not be a chunked array here: {ex.src(node)[:90]}")


# ---------------------------------------------------------------------------------------------
# callee contracts used at the call sites inside groupby_reduce
# ---------------------------------------------------------------------------------------------


def c_is_duck_dask_array(ex, st, a, k, node):
    x = a[0]
    return x.is_dask if isinstance(x, ArrayRec) else False


def c_is_duck_array(ex, st, a, k, node):
    return isinstance(a[0], ArrayRec)


def c_false(ex, st, a, k, node):
    return False


def c_atleast_1d(ex, st, a, k, node):
    x = a[0]
    n = a[1] if len(a) > 1 else k.get("min_length", 1)
    if isinstance(x, (tuple, list)):
        return x
    if isinstance(x, (bool, int, str, float)) or x is None:
        return (x,) * (n if isinstance(n, int) else 1)
    if isinstance(x, Opaque):
        return Opaque("atleast1d", length=fresh("nq"))
    return x


def c_validate_reindex(ex, st, a, k, node):
    """Contract of _validate_reindex as proved in C19.validate_reindex.*: returns a ReindexStrategy whose blockwise flag is
    unresolved (None) only while method is None; raises ValueError / NotImplementedError only for reindex=True on chunked input."""
    reindex, func, method, expected, any_by_dask, is_dask_array, dtype = a
    outs = []
    all_eager = z3.And(z3.Not(zbool(is_dask_array)), z3.Not(zbool(any_by_dask)))
    if reindex is True:
        s1 = st.fork()
        s1.assume(z3.Not(all_eager))
        outs.append((s1, Raised("ValueError")))
        s1b = st.fork()
        s1b.assume(z3.Not(all_eager))
        outs.append((s1b, Raised("NotImplementedError")))
    user = reindex.fields["blockwise"] if isinstance(reindex, Record) else reindex
    if method is None:
        s2 = st.fork()
        outs.append((s2, Record("ReindexStrategy", blockwise=user, array_type=plan.AUTO)))
        return outs
    bw = z3.Bool(f"blockwise!{fresh('b').decl().name()}") if user is None else user
    s3 = st.fork()
    if user is None:
        m = method if is_sym(method) else z3.StringVal(method)
        name = func.fields["name"] if isinstance(func, Record) else func
        is_arg, is_fl = plan.spec_is_arg(func), plan.spec_is_fl(func)
        plain = plan.s_in(name, ["first", "last"]) if not isinstance(func, Record) else z3.BoolVal(False)
        grouped = z3.Or(plain, z3.And(is_fl, dtype.fields["kind"] != z3.StringVal("f")))
        s3.assume(z3.Implies(all_eager, bw))
        s3.assume(z3.Implies(z3.And(z3.Not(all_eager), m == z3.StringVal("cohorts")), z3.Not(bw)))
        s3.assume(z3.Implies(z3.And(z3.Not(all_eager), is_arg, m != z3.StringVal("blockwise")), z3.Not(bw)))
        s3.assume(z3.Implies(z3.And(z3.Not(all_eager), grouped), z3.Not(bw)))
        s3.assume(z3.Implies(z3.And(z3.Not(all_eager), m == z3.StringVal("map-reduce"), z3.BoolVal(expected is None), zbool(any_by_dask)), z3.Not(bw)))
        s3.assume(z3.Implies(z3.And(z3.Not(all_eager), m == z3.StringVal("blockwise"), z3.Not(zbool(any_by_dask)), z3.Not(grouped)), z3.Not(bw)))
    outs.append((s3, Record("ReindexStrategy", blockwise=bw, array_type=plan.AUTO)))
    return outs


class RSMethods:
    pass


def rs_method(rec, ex, st, attr, args, kwargs, node, prims):
    if attr == "set_blockwise_for_numpy":
        bw = rec.fields["blockwise"]
        rec.fields["blockwise"] = True if bw is None else bw
        return None
    raise Unsupported(f"ReindexStrategy.{attr}")


Record.method = lambda self, ex, st, attr, args, kwargs, node, prims: rs_method(self, ex, st, attr, args, kwargs, node, prims) if self.kind == "ReindexStrategy" else (_ for _ in ()).throw(Unsupported(f"method {attr} of record {self.kind}"))


def c_assert_by_is_aligned(ex, st, a, k, node):
    return None  # aligned shapes are part of the documented input contract (a requires of this contract)


def c_validate_expected_groups(ex, st, a, k, node):
    nby, eg = a
    if eg is None:
        return (None,) * nby
    return eg if isinstance(eg, tuple) else (eg,)


def c_convert_expected(ex, st, a, k, node):
    eg = a[0]
    return tuple(None if e is None else Opaque("Index") for e in eg)


def c_factorize_multiple(ex, st, a, k, node):
    bys, expected = a[0], a[1]
    any_by_dask = k.get("any_by_dask")
    nd = None
    for b, e in zip(bys, expected):
        # inside: `if expect is None and is_duck_dask_array(by_): raise ValueError`, else pd.unique(by_) for missing expected
        ex.oblige(st, z3.Not(z3.And(b.is_dask, z3.BoolVal(e is None))), ex._name("lazy", node), f"line {node.lineno}: _factorize_multiple would evaluate (pd.unique) a chunked label array without expected_groups")
        nd = b.ndim
    gi = ArrayRec("group_idx", zbool(any_by_dask), nd, z3.StringVal("i"))
    n = len(bys)
    return ((gi,), tuple(Opaque("Index") for _ in bys), tuple(fresh("ngroups") for _ in bys))


def c_initialize_aggregation(ex, st, a, k, node):
    func = a[0]
    outs = []
    # call-site protocol (C08 / C05 anchor "min_count=1 forced so that absent groups are filled"): stated over the ENTRY values of
    # the caller's parameters only - with requested groups for every grouper and a user fill_value (and no explicit min_count)
    # the aggregation is initialised with masking on
    e = getattr(ex, "entry", None) or {}
    eg = e.get("expected_groups")
    if e.get("min_count", 0) is None and e.get("fill_value") is not None and eg is not None and all(x is not None for x in eg) and len(a) >= 5:
        mc = a[4]
        ex.oblige(st, (to_z3(mc) >= 1) if (is_sym(mc) or isinstance(mc, int)) else z3.BoolVal(False), ex._name("plan.masking_on_when_groups_are_requested_with_a_fill", node),
                  f"line {node.lineno}: requested groups + user fill_value: min_count handed to _initialize_aggregation is >= 1 (absent and all-missing groups are masked with the fill)")
    name = func.fields["name"] if isinstance(func, Record) else func
    rtype = func.fields["reduction_type"] if isinstance(func, Record) else z3.String(f"rtype!{fresh('r').decl().name()}")
    for chunk_none in (False, True):
        s = st.fork()
        if not isinstance(func, Record):
            s.assume((rtype == z3.StringVal("argreduce")) == plan.s_in(func, plan.ARG_NAMES))
            s.assume(plan.s_in(rtype, ["reduce", "argreduce"]))
            blockwise_only = plan.s_in(func, ["first", "last", "median", "nanmedian", "quantile", "nanquantile", "mode", "nanmode"])
            s.assume(blockwise_only == z3.BoolVal(chunk_none))
        agg = Record("Aggregation", name=name, reduction_type=rtype, chunk=(None,) if chunk_none else ("chunkfunc",), fill_value=Opaque("fill_value-dict"), preprocess=Opaque("preprocess"))
        if ex.feasible(s):
            outs.append((s, agg))
    return outs


def c_choose_engine(ex, st, a, k, node):
    e = z3.String(f"engine!{fresh('e').decl().name()}")
    st.assume(plan.s_in(e, ["flox", "numpy", "numbagg"]))
    return e


def c_reduce_blockwise(ex, st, a, k, node):
    array, by_ = a[0], a[1]
    require_numpy(ex, st, array, node, "_reduce_blockwise (eager kernel)")
    require_numpy(ex, st, by_, node, "_reduce_blockwise (eager kernel)")
    res = ArrayRec("eager-result", False, fresh("nd"), z3.String(f"kind!{fresh('k').decl().name()}"))
    return ResultsDict(res, ArrayRec("eager-groups", False, 1, z3.StringVal("i")))


def c_find_group_cohorts(ex, st, a, k, node):
    require_numpy(ex, st, a[0], node, "find_group_cohorts (np.asarray(labels))")
    pref = z3.String(f"preferred!{fresh('p').decl().name()}")
    st.assume(plan.s_in(pref, plan.METHODS))
    nonempty = z3.Bool(f"cohorts_nonempty!{fresh('c').decl().name()}")
    # contract of find_group_cohorts (bounded-exhaustive in C09): it proposes "cohorts" only together with a non-empty set of cohorts
    st.assume(z3.Implies(pref == z3.StringVal("cohorts"), nonempty))
    return (pref, Cohorts(nonempty))


def c_choose_method(ex, st, a, k, node):
    method, pref, agg, by_, nax = a
    outs = []
    if method is not None:
        return method
    chunk_none = agg.fields["chunk"] == (None,)
    if chunk_none:
        s1 = st.fork()
        s1.assume(pref != z3.StringVal("blockwise"))
        outs.append((s1, Raised("ValueError")))
        s2 = st.fork()
        s2.assume(pref == z3.StringVal("blockwise"))
        outs.append((s2, z3.StringVal("blockwise")))
        return outs
    m = z3.String(f"method!{fresh('m').decl().name()}")
    st.assume(plan.s_in(m, plan.METHODS))
    st.assume(z3.Implies(m == z3.StringVal("blockwise"), pref == z3.StringVal("blockwise")))
    st.assume(z3.Implies(to_z3(nax) != to_z3(by_.ndim), m == z3.StringVal("map-reduce")))
    st.assume(z3.Implies(z3.And(to_z3(nax) == to_z3(by_.ndim), plan.spec_is_arg(agg)), m != z3.StringVal("blockwise")))
    return m


def c_rechunk_for_blockwise(ex, st, a, k, node):
    labels = k.get("labels", a[2] if len(a) > 2 else None)
    require_numpy(ex, st, labels, node, "rechunk_for_blockwise (factorizes the labels with pandas)")
    return a[0].like()


def c_dask_groupby_agg(ex, st, a, k, node):
    """Preconditions = the asserts / consistency checks at the top of dask_groupby_agg and in its cohorts branch."""
    method, reindex, cohorts, expected = k["method"], k["reindex"], k["chunks_cohorts"], k["expected_groups"]
    m = method if is_sym(method) else z3.StringVal(method)
    bw = reindex.fields["blockwise"]
    bwt = zbool(bw) if bw is not None else z3.BoolVal(False)
    ex.oblige(st, z3.BoolVal(bw is not None), ex._name("plan.reindex_resolved", node), f"line {node.lineno}: the reindex strategy is resolved (blockwise is not None) when the graph is built")
    ex.oblige(st, z3.Implies(m == z3.StringVal("cohorts"), zbool(cohorts)), ex._name("plan.assert_chunks_cohorts", node), f"line {node.lineno}: `assert chunks_cohorts` inside dask_groupby_agg holds for method='cohorts'")
    outs = []
    # documented refusals inside (ValueError): blockwise reindex without expected groups / with cohorts
    bad = z3.Or(z3.And(z3.BoolVal(expected is None), bwt), z3.And(m == z3.StringVal("cohorts"), bwt))
    s1 = st.fork()
    s1.assume(bad)
    if ex.feasible(s1):
        outs.append((s1, Raised("ValueError")))
    s2 = st.fork()
    s2.assume(z3.Not(bad))
    res = ArrayRec("lazy-result", True, fresh("nd"), z3.String(f"kind!{fresh('k').decl().name()}"))
    by = k["by"]
    unknown = z3.And(by.is_dask, z3.BoolVal(expected is None))
    groups = ArrayRec("groups", z3.And(unknown, m == z3.StringVal("map-reduce")), 1, z3.StringVal("i"))
    outs.append((s2, (res, (groups,))))
    return outs


def c_reindex_(ex, st, a, k, node):
    frm = k.get("from_")
    require_numpy(ex, st, frm, node, "reindex_ (pd.Index(from_))")
    return a[0].like()


def c_issorted(ex, st, a, k, node):
    require_numpy(ex, st, a[0], node, "_issorted (bool of a comparison)")
    return z3.Bool(f"issorted!{fresh('s').decl().name()}")


def c_move_dims(ex, st, a, k, node):
    return a[0].like()


def c_is_bool_supported(ex, st, a, k, node):
    f = a[0]
    name = f.fields["name"] if isinstance(f, Record) else f
    return plan.s_in(name, ["all", "any"])


def c_is_sparse_supported(ex, st, a, k, node):
    return False


CONFIG_CALLEES = {
    **plan.PLAN_CALLEES,
    "is_duck_dask_array": c_is_duck_dask_array, "is_duck_array": c_is_duck_array, "is_duck_cubed_array": c_false, "is_chunked_array": c_is_duck_dask_array,
    "_contains_cftime_datetimes": c_false, "_atleast_1d": c_atleast_1d, "_validate_reindex": c_validate_reindex,
    "_assert_by_is_aligned": c_assert_by_is_aligned, "_validate_expected_groups": c_validate_expected_groups,
    "_convert_expected_groups_to_index": c_convert_expected, "_factorize_multiple": c_factorize_multiple,
    "_initialize_aggregation": c_initialize_aggregation, "_choose_engine": c_choose_engine, "_reduce_blockwise": c_reduce_blockwise,
    "find_group_cohorts": c_find_group_cohorts, "_choose_method": c_choose_method, "rechunk_for_blockwise": c_rechunk_for_blockwise,
    "dask_groupby_agg": c_dask_groupby_agg, "reindex_": c_reindex_, "_issorted": c_issorted, "_move_reduce_dims_to_end": c_move_dims,
    "_is_bool_supported_reduction": c_is_bool_supported, "_is_sparse_supported_reduction": c_is_sparse_supported,
}


def config_models(prims):
    def asarray(ex, st, a, k, node):
        require_numpy(ex, st, a[0], node, "np.asarray")
        return a[0]

    def argsort(ex, st, a, k, node):
        require_numpy(ex, st, a[0], node, "np.argsort")
        return a[0].like("sorted_idx") if isinstance(a[0], ArrayRec) else Opaque("argsort")

    def issubdtype(ex, st, a, k, node):
        dt, typ = a
        if isinstance(dt, Record) and isinstance(typ, ModRef) and typ.path.endswith("bool"):
            return dt.fields["kind"] == z3.StringVal("b")
        return z3.Bool(f"issubdtype!{fresh('i').decl().name()}")

    def arange(ex, st, a, k, node):
        if len(a) == 2:
            lo, hi = to_z3(a[0]), to_z3(a[1])
            return SSeq(hi - lo, lambda i: i + lo, kind="array", name="arange2")
        return prims.m_arange(ex, st, a, k, node)

    def norm_axis(ex, st, a, k, node):
        # normalize_axis_tuple(axis, ndim): a tuple of valid, distinct axes (numpy, assumed)
        ax = a[0]
        n = fresh("nax")
        arr = z3.Const(f"axis!{fresh('x').decl().name()}", z3.ArraySort(z3.IntSort(), z3.IntSort()))
        st.assume(n >= 1)
        i = fresh("i")
        out = SSeq.from_array(n, arr, kind="tuple", name="axis_")
        out.axis_len = n
        from ..pyvc.engine import forall

        st.assume(forall(i, z3.Implies(in_range(i, 0, n), in_range(out.at(i), 0, to_z3(a[1])))))
        return out

    prims.register("numpy.asarray", asarray)
    prims.register("numpy.argsort", argsort)
    prims.register("numpy.issubdtype", issubdtype)
    prims.register("numpy.arange", arange)
    prims.register("numpy.lib.array_utils.normalize_axis_tuple", norm_axis)
    prims.register("numpy.core.numeric.normalize_axis_tuple", norm_axis)
    prims.register("pandas.RangeIndex", lambda ex, st, a, k, n: Opaque("RangeIndex"))
    prims.register("builtins.NotImplementedError", lambda ex, st, a, k, n: Opaque("exc"))
    prims.register("builtins.ValueError", lambda ex, st, a, k, n: Opaque("exc"))
    prims.register("builtins.ImportError", lambda ex, st, a, k, n: Opaque("exc"))
    prims.register("datetime.timedelta", lambda ex, st, a, k, n: Opaque("timedelta"))


# ---------------------------------------------------------------------------------------------
# the contract of groupby_reduce, one variant per (nby, method kind, reindex kind, expected kind, axis kind, func kind)
# ---------------------------------------------------------------------------------------------

FUNC_NAMES = ["all", "any", "count", "sum", "nansum", "prod", "nanprod", "mean", "nanmean", "var", "nanvar", "std", "nanstd", "max", "nanmax", "min", "nanmin",
              "argmax", "nanargmax", "argmin", "nanargmin", "first", "nanfirst", "last", "nanlast", "median", "nanmedian", "quantile", "nanquantile", "mode", "nanmode"]


def groupby_reduce_contract(nby, method_v, reindex_v, expected_v, axis_v, fk_v):
    tag = f"n{nby}.m{method_v}.r{reindex_v}.e{expected_v}.a{axis_v}.k{fk_v}"

    def params(ex):
        bys = tuple(ArrayRec(f"by{i}", z3.Bool(f"by{i}_is_dask"), z3.Int("by_ndim"), z3.String(f"by{i}_kind")) for i in range(nby))
        rv = plan.REINDEX_VARIANTS[reindex_v]
        reindex = Record("ReindexStrategy", blockwise=rv[1], array_type=plan.AUTO) if isinstance(rv, tuple) else rv
        eg = None if expected_v == "None" else (tuple(Opaque(f"expected{i}") for i in range(nby)) if expected_v == "all" else tuple([None] + [Opaque(f"expected{i}") for i in range(1, nby)]))
        if eg is not None and nby == 1 and expected_v == "all":
            eg = eg  # a 1-tuple; _validate_expected_groups also accepts the bare sequence
        return {
            "array": ArrayRec("array", z3.Bool("array_is_dask"), z3.Int("array_ndim"), z3.String("array_kind")),
            "by": bys, "func": z3.String("func"), "expected_groups": eg, "sort": z3.Bool("sort"), "isbin": False,
            "axis": None if axis_v == "None" else Opaque("axis"), "fill_value": None if fk_v in ("nofill",) else Opaque("fill_value"),
            "dtype": None, "min_count": None, "method": None if method_v == "None" else z3.String("method"),
            "engine": None, "reindex": reindex,
            "finalize_kwargs": {"q": Opaque("q")} if fk_v == "q" else None,
        }

    def requires(ex, env):
        out = [plan.s_in(env["func"], FUNC_NAMES), env["array"].ndim >= 1, env["by"][0].ndim >= 1, env["by"][0].ndim <= env["array"].ndim]
        if env["method"] is not None:
            out.append(plan.s_in(env["method"], plan.METHODS))
        for b in env["by"]:
            out.append(b.dkind != z3.StringVal("O"))
        out.append(env["array"].dkind != z3.StringVal("O"))  # non-object dtypes (C12's quantifier)
        return out

    def ensures(ex, env, res):
        e = env["__entry__"]
        chunked = z3.Or(e["array"].is_dask, *[b.is_dask for b in e["by"]])
        first = res[0] if isinstance(res, tuple) else res
        lazy = first.is_dask if isinstance(first, ArrayRec) else z3.BoolVal(False)
        return [("lazy_result_for_chunked_input", z3.Implies(chunked, lazy))]

    return Contract(
        qualname="groupby_reduce", file="flox/core.py", prefix=f"C12.groupby_reduce.{tag}", params=params, requires=requires, ensures=ensures,
        raises=("ValueError", "NotImplementedError", "ImportError"), serves=("C12", "C19", "C02"),
        assumed=("dask.array methods astype/view/reshape/transpose/indexing/rechunk are lazy", "numpy.lib.array_utils.normalize_axis_tuple", "callee contracts of _factorize_multiple, _initialize_aggregation, _choose_engine, find_group_cohorts, dask_groupby_agg, _reduce_blockwise, reindex_ (config level: laziness pre/postconditions)"),
    )


def all_groupby_reduce():
    out = []
    for nby in (1, 2):
        for mv in ("None", "str"):
            for rv in ("None", "True", "False"):
                for ev in ("None", "all") + (("partial",) if nby == 2 else ()):
                    for av in ("None", "given"):
                        for fk in ("nofill", "fill", "q"):
                            out.append(groupby_reduce_contract(nby, mv, rv, ev, av, fk))
    return out
