"""Sidecar contracts of small validation / decision functions of flox.core (C19 refusals, C01 engine choice, C05):
_choose_engine, _assert_by_is_aligned, _validate_expected_groups."""

from __future__ import annotations

import z3

from ..pyvc.engine import Contract, fresh
from ..pyvc.prims import ModRef, Opaque, Record
from .config import ArrayRec
from .plan import spec_is_arg

ORDER_STATS = ("quantile", "nanquantile", "median", "nanmedian")


def choose_engine_contract(chunk_kind, has_dtype, by_dask):
    """chunk_kind: 'none' (agg.chunk == (None,)), 'nan' (a blockwise function with 'nan' in its name), 'plain'"""

    def params(ex):
        name = z3.String("agg_name")
        chunk = {"none": (None,), "nan": ("nansum", "nanlen"), "plain": ("sum", "nanlen")[:1] if False else ("sum",)}[chunk_kind]
        agg = Record("Aggregation", name=name, reduction_type=z3.String("agg_rtype"), chunk=chunk, dtype={"user": Opaque("user-dtype") if has_dtype else None})
        return {"by": ArrayRec("by", by_dask, 1, z3.StringVal("i")), "agg": agg}

    def ensures(ex, env, res):
        e = env["__entry__"]
        name = e["agg"].fields["name"]
        is_os = z3.Or([name == z3.StringVal(n) for n in ORDER_STATS])
        is_arg = spec_is_arg(e["agg"])
        r = res if z3.is_expr(res) else z3.StringVal(res)
        return [
            ("one_of_the_engines", z3.Or([r == z3.StringVal(x) for x in ("flox", "numbagg", "numpy")])),
            ("order_statistics_use_the_only_engine_that_implements_them", z3.Implies(is_os, r == z3.StringVal("flox"))),
            ("arg_reductions_never_go_to_the_flox_or_numbagg_kernels", z3.Implies(z3.And(is_arg, z3.Not(is_os), z3.Not(z3.Or(name == z3.StringVal("all"), name == z3.StringVal("any")))), r == z3.StringVal("numpy"))),
            ("a_requested_dtype_rules_numbagg_out", z3.Implies(z3.And(z3.BoolVal(has_dtype), z3.Not(z3.Or(name == z3.StringVal("all"), name == z3.StringVal("any")))), r != z3.StringVal("numbagg"))),
            ("flox_kernels_only_for_sorted_in_memory_labels", z3.Implies(z3.And(z3.Not(is_os), z3.BoolVal(bool(by_dask))), r != z3.StringVal("flox"))),
        ]

    def callees():
        return {"_is_arg_reduction": lambda ex, st, a, k, n: spec_is_arg(a[0]),
                "is_duck_dask_array": lambda ex, st, a, k, n: a[0].is_dask,
                "_issorted": lambda ex, st, a, k, n: z3.Bool(f"sorted!{fresh('s').decl().name()}")}

    c = Contract(qualname="_choose_engine", file="flox/core.py", prefix=f"C01.choose_engine.chunk_{chunk_kind}.{'dtype' if has_dtype else 'nodtype'}.{'dask' if by_dask else 'numpy'}", params=params, ensures=ensures, serves=("C01", "C19"),
                 assumed=("HAS_NUMBAGG is an unknown but fixed boolean", "_issorted(by) is an unknown boolean of the labels"))
    return c, callees()


def all_choose_engine():
    return [choose_engine_contract(ck, hd, bd) for ck in ("none", "nan", "plain") for hd in (False, True) for bd in (False, True)]


# ---------------------------------------------------------------------------------------------


class ShapeArr(Record):
    """an array known by its shape only (tuple of symbolic ints of concrete length)"""

    def __init__(self, shape):
        super().__init__("Array", shape=tuple(shape), ndim=len(shape))


def aligned_contract(ndim_arr, ndim_by, nby):
    def params(ex):
        shape = tuple(z3.Int(f"n{i}") for i in range(ndim_arr))
        by = tuple(ShapeArr([z3.Int(f"b{k}_{i}") for i in range(ndim_by)]) for k in range(nby))
        return {"shape": shape, "by": by}

    def requires(ex, env):
        return [s >= 0 for s in env["shape"]] + [s >= 0 for b in env["by"] for s in b.fields["shape"]]

    def aligned(env):
        sh = env["shape"][-ndim_by:] if ndim_by else ()
        return z3.And([z3.Or(j == i, j == 1) for b in env["by"] for i, j in zip(sh, b.fields["shape"])] or [z3.BoolVal(True)])

    def ensures(ex, env, res):
        return [("returns_only_for_aligned_label_arrays", aligned(env["__entry__"]))]

    def exc_ensures(ex, env, exc):
        return [("refuses_only_misaligned_label_arrays", z3.Not(aligned(env)))]

    return Contract(qualname="_assert_by_is_aligned", file="flox/core.py", prefix=f"C19.assert_by_is_aligned.a{ndim_arr}.b{ndim_by}.n{nby}", params=params, requires=requires, ensures=ensures,
                    raises=("ValueError",), exc_ensures=exc_ensures, serves=("C19", "C08"))


def all_aligned():
    return [aligned_contract(a, b, n) for a, b, n in ((1, 1, 1), (2, 1, 1), (2, 2, 1), (3, 2, 2), (2, 2, 2), (3, 3, 1))]


# ---------------------------------------------------------------------------------------------


def validate_expected_contract(nby, kind):
    """kind: 'None' | 'Index' | 'ndarray' | 'list' | 'tuple_ok' | 'tuple_short' (a tuple with nby-1... entries)"""

    def params(ex):
        if kind == "None":
            eg = None
        elif kind == "Index":
            eg = Record("Index")
        elif kind == "ndarray":
            eg = Record("ndarray")
        elif kind == "list":
            eg = [1, 2, 3]
        elif kind == "tuple_ok":
            eg = tuple(Record("Index") for _ in range(nby))
        else:
            eg = tuple(Record("Index") for _ in range(nby + 1))
        return {"nby": nby, "expected_groups": eg}

    ok = kind in ("None", "tuple_ok") or (nby == 1 and kind in ("Index", "ndarray", "list"))

    def ensures(ex, env, res):
        e = env["__entry__"]["expected_groups"]
        cl = [("accepted_only_in_a_supported_form", z3.BoolVal(ok)), ("one_entry_per_grouper", z3.BoolVal(isinstance(res, tuple) and len(res) == nby))]
        if kind == "None":
            cl.append(("nothing_requested", z3.BoolVal(all(r is None for r in res))))
        if kind in ("Index", "ndarray") and nby == 1:
            cl.append(("the_given_labels_are_handed_on", z3.BoolVal(res[0] is e)))
        if kind == "tuple_ok":
            cl.append(("the_given_tuple_is_handed_on", z3.BoolVal(all(a is b for a, b in zip(res, e)))))
        return cl

    def exc_ensures(ex, env, exc):
        return [("refused_only_in_an_unsupported_form", z3.BoolVal(not ok))]

    return Contract(qualname="_validate_expected_groups", file="flox/core.py", prefix=f"C19.validate_expected_groups.n{nby}.{kind}", params=params, ensures=ensures, raises=("ValueError",), exc_ensures=exc_ensures,
                    serves=("C19", "C05"), assumed=("np.asarray of a list of labels is an array",))


def all_validate_expected():
    return [validate_expected_contract(n, k) for n in (1, 2) for k in ("None", "Index", "ndarray", "list", "tuple_ok", "tuple_short")]


class NdArr(Record):
    def __init__(self):
        super().__init__("ndarray", dtype=Record("dtype", kind="i"))

    def pyvc_getattr(self, ex, st, attr, node, prims):
        from ..pyvc.prims import Method

        return self.fields[attr] if attr in self.fields else Method(self, attr)

    def pyvc_method(self, ex, st, attr, args, kwargs, node, prims):
        if attr == "astype":
            return NdArr()
        raise NotImplementedError(attr)


def validate_models(prims):
    def asarray(ex, st, a, k, node):
        x = a[0]
        return x if isinstance(x, Record) else NdArr()

    prims.register("numpy.asarray", asarray)
    prims.register("numpy.issubdtype", lambda ex, st, a, k, n: z3.Bool(f"issubdtype!{fresh('d').decl().name()}"))
