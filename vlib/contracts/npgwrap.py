"""Sidecar contracts of the numpy_groupies wrappers in flox/aggregate_npg.py (C01 engine='numpy'/'numba', C20 infinities are data):
nansum, nanprod: exactly the NaN entries are replaced by the neutral element (0 / 1) - infinities stay - and the plain
grouped 'sum' / 'prod' of numpy_groupies is applied with every option handed on."""

from __future__ import annotations

import z3

from ..pyvc import valsort as V
from ..pyvc.engine import Contract, forall, fresh, in_range
from ..pyvc.prims import Opaque, Record
from .kernels import sym_seq


class NpgGhost:
    def __init__(self):
        self.calls = []


class NpgModule(Record):
    def __init__(self, g, engine):
        super().__init__("npg_backend", engine=engine)
        self.g = g

    def pyvc_getattr(self, ex, st, attr, node, prims):
        from ..pyvc.prims import Method

        return Method(self, attr)

    def pyvc_method(self, ex, st, attr, args, kwargs, node, prims):
        if attr != "aggregate":
            raise NotImplementedError(attr)
        out = sym_seq(f"npg_out_{fresh('n').decl().name()}", V.Val)
        self.g.calls.append((list(args), dict(kwargs), out, self.fields["engine"]))
        return out


def nan_wrapper_contract(qualname, neutral, npg_func):
    g = NpgGhost()

    def params(ex):
        g.calls.clear()
        return {"group_idx": sym_seq("codes"), "array": sym_seq("values", V.Val), "engine": z3.String("engine"), "axis": -1, "size": z3.Int("size"), "fill_value": z3.Const("fill", V.Val), "dtype": Opaque("dtype")}

    def requires(ex, env):
        return [env["array"].length == env["group_idx"].length, env["array"].length >= 0]

    def ensures(ex, env, res):
        e = env["__entry__"]
        cl = [("one_grouped_aggregation", z3.BoolVal(len(g.calls) == 1))]
        if len(g.calls) != 1:
            return cl
        args, kw, out, eng = g.calls[0]
        i = fresh("i")
        arr = args[1] if len(args) > 1 else None
        x = e["array"]
        neutral_v = V.as_val(neutral)
        cl += [
            ("result_is_what_the_backend_returns", z3.BoolVal(res is out)),
            ("backend_is_chosen_by_the_engine", z3.BoolVal(eng is e["engine"])),
            ("codes_handed_on", z3.BoolVal(args[0] is e["group_idx"])),
            ("plain_grouped_function_with_all_options_handed_on", z3.BoolVal(kw.get("func") == npg_func and kw.get("size") is e["size"] and kw.get("fill_value") is e["fill_value"] and kw.get("dtype") is e["dtype"] and kw.get("axis") == -1)),
            ("exactly_the_nan_entries_become_the_neutral_element", z3.And(arr.length == x.length, forall(i, z3.Implies(in_range(i, 0, x.length), arr.at(i) == z3.If(V.is_nan(x.at(i)), neutral_v, x.at(i)))))) if arr is not None else z3.BoolVal(False),
        ]
        return cl

    def replay(cm):
        import json

        import numpy as np

        from flox import aggregate_npg

        from .finalize import _val_to_float

        x = np.array([_val_to_float(v) for v in cm["array"]], dtype="float64")
        gi = np.array([abs(int(v)) % 3 for v in cm["group_idx"]], dtype="int64")  # any valid codes: the clause is about the values
        if len(x) != len(gi) or len(x) == 0:
            return None, "outside the precondition"
        with np.errstate(all="ignore"):
            got = getattr(aggregate_npg, qualname)(gi, x, "numpy", size=3, fill_value=neutral, dtype=np.dtype("float64"))
            red = np.nansum if npg_func == "sum" else np.nanprod
            exp = np.array([red(x[gi == g]) if (gi == g).any() else neutral for g in range(3)])
        bad = not np.array_equal(np.asarray(got, dtype=float), exp, equal_nan=True)
        return bad, json.dumps({"verdict": "violated" if bad else "held", "input": {"array": [repr(v) for v in x.tolist()], "codes": gi.tolist()}, "got": [repr(v) for v in np.asarray(got).tolist()], "numpy": [repr(v) for v in exp.tolist()]})

    c = Contract(qualname=qualname, file="flox/aggregate_npg.py", prefix=f"C20.npg.{qualname}", params=params, requires=requires, ensures=ensures, serves=("C20", "C01"), replay=replay,
                 assumed=("numpy_groupies aggregate(func='sum'|'prod') is the grouped sum / product (external, assumed; exercised by the bounded part on every engine)", "np.isnan / np.where elementwise"))
    callees = {"_get_aggregate": lambda ex, st, a, k, n: NpgModule(g, a[0])}
    return c, callees


def all_npgwrap():
    return [nan_wrapper_contract("nansum", 0.0, "sum"), nan_wrapper_contract("nanprod", 1.0, "prod")]
