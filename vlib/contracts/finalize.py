"""Sidecar contract of flox.core._finalize_results (C05.mask, C11.lastcast, C02.final): the count mask applies the
user's fill_value verbatim to every slot with fewer than min_count valid members, and to no other slot."""

from __future__ import annotations

import ast
import os

import json

import z3

from ..pyvc import valsort as V
from ..pyvc.engine import B, Contract, I, SSeq, forall, fresh, in_range
from ..pyvc.prims import ModRef, Opaque, Record
from . import plan
from .kernels import sym_seq

NA = ModRef("flox.xrdtypes.NA")


class FinalizeFn:
    """agg.finalize: an arbitrary pointwise function of the intermediates (uninterpreted)."""

    def __init__(self):
        self.F = z3.Function("finalize_fn", V.Val, V.Val)
        self.truth = z3.BoolVal(True)

    def pyvc_call(self, ex, st, args, kwargs, node, prims):
        x = args[0]
        return SSeq(x.length, lambda i: self.F(x.fn(i)), kind="array", elem_sort=V.Val, name="finalized")


def finalize_contract(mc_pos, has_finalize, fill_kind, expected_given):
    tag = f"{'mc' if mc_pos else 'nomc'}.{'fin' if has_finalize else 'nofin'}.fill{fill_kind}.{'exp' if expected_given else 'noexp'}"

    def params(ex):
        v = sym_seq("interm0", V.Val)
        counts = sym_seq("counts", I)
        fill = {"sym": z3.Const("user_fill", V.Val), "None": None, "NA": NA}[fill_kind]
        fn = FinalizeFn() if has_finalize else None
        agg = Record("Aggregation", name="theagg", min_count=z3.Int("min_count"), finalize=fn, finalize_kwargs={}, fill_value={"user": fill},
                     dtype={"final": Opaque("final-dtype")}, num_new_vector_dims=0)
        inter = [v, counts] if mc_pos else [v]
        return {"results": {"groups": Opaque("groups"), "intermediates": inter}, "agg": agg, "axis": (0,), "expected_groups": Opaque("expected") if expected_given else None,
                "reindex": Record("ReindexStrategy", blockwise=z3.Bool("reindex_blockwise"), array_type=plan.AUTO)}

    def requires(ex, env):
        agg = env["agg"]
        out = [agg.fields["min_count"] > 0 if mc_pos else agg.fields["min_count"] == 0]
        inter = env["results"]["intermediates"]
        if mc_pos:
            out.append(inter[0].length == inter[1].length)
        return out

    def ensures(ex, env, res):
        e = env["__entry__"]
        agg = e["agg"]
        inter = e["results"]["intermediates"]
        v = inter[0]
        fn = agg.fields["finalize"]
        val = (lambda i: fn.F(v.at(i))) if has_finalize else (lambda i: v.at(i))
        out = res["theagg"]
        k = fresh("k")
        reindexed = getattr(out, "reindexed_from", None)
        base = reindexed if reindexed is not None else out
        cl = []
        if mc_pos:
            counts, mc = inter[1], agg.fields["min_count"]
            if fill_kind == "sym":
                fill = agg.fields["fill_value"]["user"]
                cl.append(("masked_slots_get_the_user_fill_verbatim", forall(k, z3.Implies(z3.And(in_range(k, 0, v.length), counts.at(k) < mc), base.at(k) == fill))))
            elif fill_kind == "NA":
                cl.append(("masked_slots_get_NaN", forall(k, z3.Implies(z3.And(in_range(k, 0, v.length), counts.at(k) < mc), base.at(k) == V.nan))))
            cl.append(("other_slots_untouched", forall(k, z3.Implies(z3.And(in_range(k, 0, v.length), counts.at(k) >= mc), base.at(k) == val(k)))))
        else:
            cl.append(("no_mask_without_min_count", forall(k, z3.Implies(in_range(k, 0, v.length), base.at(k) == val(k)))))
        cl.append(("length", base.length == v.length))
        # final reindex exactly when it was not done at the block stage and the labels are known
        want_reindex = z3.And(z3.Not(e["reindex"].fields["blockwise"]), z3.BoolVal(expected_given))
        cl.append(("reindex_iff_needed", z3.BoolVal(reindexed is not None) == want_reindex))
        cl.append(("groups", z3.BoolVal(res["groups"] is (e["expected_groups"] if reindexed is not None else e["results"]["groups"]))))
        return cl

    def exc_ensures(ex, env, exc):
        # ValueError only when a fill is needed (some slot is masked) and none was given
        return [("only_when_fill_missing", z3.BoolVal(mc_pos and fill_kind == "None"))]

    return Contract(qualname="_finalize_results", file="flox/core.py", prefix=f"C05.finalize_results.{tag}", params=params, requires=requires, ensures=ensures, raises=("ValueError",), exc_ensures=exc_ensures,
                    serves=("C05", "C02", "C11"), assumed=("numpy.where", "ndarray.astype keeps the values it can represent (dtype level: C11)", "xrdtypes.maybe_promote(float) = (same dtype, NaN)", "contract of reindex_ (permutes known labels, fills absent ones)"))


def callee_squeeze(ex, st, a, k, node):
    return a[0]  # 1-D reductions: nothing to squeeze (assumed; the rank-general part is bounded, C08)


def callee_reindex(ex, st, a, k, node):
    arr = a[0]
    out = SSeq(arr.length, arr.fn, kind="array", elem_sort=arr.elem_sort, name="reindexed")
    out.reindexed_from = arr  # contract of reindex_: present labels keep their values (checked in C05.rtc / reindex_numpy)
    return out


def finalize_models(prims):
    prims.register("flox.xrdtypes.maybe_promote", lambda ex, st, a, k, n: (Opaque("promoted-dtype"), V.nan))
    prims.register("pandas.Index", callee_pd_index)
    prims.register("pandas.RangeIndex", callee_range_index)
    prims.register("numpy.full_like", callee_full_like)
    prims.register("numpy.atleast_1d", lambda ex, st, a, k, n: a[0])  # on the 1-D sequences of these contracts: the identity


FIN_CALLEES = {"_squeeze_results": callee_squeeze, "reindex_": callee_reindex}


def all_finalize():
    out = []
    for mc in (True, False):
        for fin in (True, False):
            for fk in ("sym", "None", "NA"):
                for eg in (True, False):
                    out.append(finalize_contract(mc, fin, fk, eg))
    return out


def lastcast_obligation(repo):
    """C11.lastcast (syntactic): the statement before the only `return` of _finalize_results casts to agg.dtype['final']."""
    tree = ast.parse(open(os.path.join(repo, "flox/core.py")).read())
    fn = [n for n in tree.body if isinstance(n, ast.FunctionDef) and n.name == "_finalize_results"]
    if not fn:
        return None, "function not found"
    body = fn[0].body
    rets = [n for n in ast.walk(fn[0]) if isinstance(n, ast.Return)]
    ok = len(rets) == 1 and isinstance(body[-1], ast.Return) and isinstance(body[-2], ast.Assign)
    if ok:
        txt = ast.unparse(body[-2])
        ok = ".astype(agg.dtype['final']" in txt and ast.unparse(body[-2].targets[0]) in txt.split("=", 1)[1]
    return ok, ast.unparse(body[-2]) if len(body) >= 2 else ""


# ---------------------------------------------------------------------------------------------
# reindex_numpy(array, from_, to, fill_value, dtype, axis)   (C05.reindex, C02.reindex)
# ---------------------------------------------------------------------------------------------


class IndexRec(Record):
    """pandas.Index seen as its label sequence; get_indexer (ASSUMED): position of each target label, -1 if absent."""

    def __init__(self, labels):
        super().__init__("Index", labels=labels)
        self.labels = labels

    def pyvc_len(self):
        return self.labels.length

    def pyvc_getattr(self, ex, st, attr, node, prims):
        from ..pyvc.prims import Method

        if attr == "ndim":
            return 1
        if attr == "dtype":
            return Record("dtype", kind="i")
        if attr == "size":
            return self.labels.length
        if attr == "shape":
            return (self.labels.length,)
        return Method(self, attr)

    def pyvc_getitem(self, ex, st, idx, node, prims):
        return prims.getitem(ex, st, self.labels, idx, node)

    def pyvc_method(self, ex, st, attr, args, kwargs, node, prims):
        if attr == "equals":
            # pandas.Index.equals (ASSUMED): same length and the same labels position by position
            other = args[0].labels
            i = fresh("i")
            return z3.And(other.length == self.labels.length, forall(i, z3.Implies(in_range(i, 0, other.length), other.at(i) == self.labels.at(i))))
        if attr != "get_indexer":
            raise NotImplementedError(attr)
        to = args[0].labels
        frm = self.labels
        G = z3.Function(f"get_indexer!{fresh('g').decl().name()}", I, I)
        j, i = fresh("j"), fresh("i")
        st.assume(forall(j, z3.Implies(in_range(j, 0, to.length), z3.Or(
            z3.And(G(j) == -1, forall(i, z3.Implies(in_range(i, 0, frm.length), frm.at(i) != to.at(j)))),
            z3.And(in_range(G(j), 0, frm.length), frm.at(G(j)) == to.at(j)))), patterns=[G(j)]))
        out = SSeq(to.length, lambda t: G(t), kind="array", name="indexer")
        return out


def reindex_numpy_contract(fill_kind):
    def params(ex):
        return {"array": sym_seq("array", V.Val), "from_": IndexRec(sym_seq("from_labels")), "to": IndexRec(sym_seq("to_labels")),
                "fill_value": z3.Const("fill", V.Val) if fill_kind == "sym" else None, "dtype": Opaque("dtype"), "axis": -1}

    def requires(ex, env):
        i, j = fresh("i"), fresh("j")
        frm = env["from_"].labels
        return [env["array"].length == frm.length, frm.length >= 1,
                z3.ForAll([i, j], z3.Implies(z3.And(in_range(i, 0, frm.length), in_range(j, 0, frm.length), i != j), frm.at(i) != frm.at(j)))]  # labels of an Index used for reindexing are unique

    def ensures(ex, env, res):
        e = env["__entry__"]
        arr, frm, to = e["array"], e["from_"].labels, e["to"].labels
        j, i = fresh("j"), fresh("i")
        present = lambda t, pos: z3.And(in_range(pos, 0, frm.length), frm.at(pos) == to.at(t))
        cl = [
            ("one_slot_per_requested_label", res.length == to.length),
            ("present_labels_keep_their_value", z3.ForAll([j, i], z3.Implies(z3.And(in_range(j, 0, to.length), present(j, i)), res.at(j) == arr.at(i)))),
        ]
        if fill_kind == "sym":
            cl.append(("absent_labels_get_the_fill", forall(j, z3.Implies(z3.And(in_range(j, 0, to.length), forall(i, z3.Implies(in_range(i, 0, frm.length), frm.at(i) != to.at(j)))), res.at(j) == e["fill_value"]))))
        return cl

    def exc_ensures(ex, env, exc):
        to, frm = env["to"].labels, env["from_"].labels
        j, i = fresh("j"), fresh("i")
        absent = z3.Exists([j], z3.And(in_range(j, 0, to.length), forall(i, z3.Implies(in_range(i, 0, frm.length), frm.at(i) != to.at(j)))))
        return [("only_when_a_label_is_absent_and_no_fill", z3.And(z3.BoolVal(fill_kind == "None"), absent))]

    return Contract(qualname="reindex_numpy", file="flox/core.py", prefix=f"C05.reindex_numpy.fill{fill_kind}", params=params, requires=requires, ensures=ensures, raises=("ValueError",), exc_ensures=exc_ensures, replay=replay_reindex_numpy,
                    serves=("C05", "C02"), assumed=("pandas.Index.get_indexer", "fancy indexing with -1 wraps (then overwritten)", "ndarray.astype keeps representable values"))


def _val_to_float(v):
    if isinstance(v, (int, float)):
        return float(v)
    v = str(v)
    if v.startswith("fin("):
        return float(v[4:-1])
    return {"nan": float("nan"), "pinf": float("inf"), "ninf": float("-inf"), "inf": float("inf")}.get(v, float("nan"))


def replay_reindex_numpy(cm):
    """Replay a counter-model on the real flox.core.reindex_numpy -> (violated?, text)."""
    r = _replay_reindex_numpy(cm)
    return r["verdict"] == "violated", json.dumps(r, default=str)


def replay_reindex(cm):
    r = _replay_reindex_numpy(cm, wrapper=True)
    return r["verdict"] == "violated", json.dumps(r, default=str)


def _replay_reindex_numpy(cm, wrapper=False):
    import numpy as np
    import pandas as pd

    from flox.core import reindex_, reindex_numpy

    frm = list(cm["from_"].get("labels") or [])
    to = list(cm["to"].get("labels") or [])
    arr = np.array([_val_to_float(v) for v in cm["array"]], dtype="float64")
    if len(set(frm)) != len(frm) or len(arr) != len(frm) or (not frm and not wrapper):
        return {"verdict": "outside-precondition"}
    fv = cm.get("fill_value")
    is_na = isinstance(fv, str) and "NA" in fv
    fill = None if fv is None else (float("nan") if is_na else _val_to_float(fv))
    absent = [t for t in to if t not in frm]
    try:
        if wrapper:
            from flox import xrdtypes
            from flox.core import ReindexArrayType

            out = reindex_(arr.copy(), pd.Index(frm, dtype="int64"), pd.Index(to, dtype="int64"), fill_value=xrdtypes.NA if is_na else fill, axis=-1, array_type=getattr(ReindexArrayType, str(cm.get("array_type", "AUTO")).rstrip(">").split(".")[-1]))
            if not frm and fill is None:
                return {"verdict": "held" if len(out) == len(to) else "violated", "clauses": ["one_slot_per_requested_label"]}
        else:
            out = reindex_numpy(arr.copy(), pd.Index(frm), pd.Index(to), fill, np.dtype("float64"), -1)
    except ValueError as e:
        ok = fill is None and bool(absent)
        return {"verdict": "held" if ok else "violated", "clauses": [] if ok else ["only_when_a_label_is_absent_and_no_fill"], "raised": repr(e)}
    bad = []
    if len(out) != len(to):
        bad.append("one_slot_per_requested_label")
    else:
        same = lambda a, b: (a == b) or (a != a and b != b)
        for j, t in enumerate(to):
            if t in frm:
                if not same(out[j], arr[frm.index(t)]):
                    bad.append("present_labels_keep_their_value")
            elif fill is not None and not same(out[j], fill):
                bad.append("absent_labels_get_the_fill")
    return {"verdict": "violated" if bad else "held", "clauses": sorted(set(bad)), "input": {"array": arr.tolist(), "from": frm, "to": to, "fill": fill}, "output": out.tolist()}


# ---------------------------------------------------------------------------------------------
# reindex_(array, from_, to, *, array_type, fill_value, axis, promote)   (C05.reindex, C02.reindex)
# ---------------------------------------------------------------------------------------------

NA = ModRef("flox.xrdtypes.NA")


def _reindex_spec(arr, frm, to, res, fill):
    """The postcondition shared by reindex_numpy and reindex_: a dictionary lookup by label."""
    j, i = fresh("j"), fresh("i")
    present = lambda t, pos: z3.And(in_range(pos, 0, frm.length), frm.at(pos) == to.at(t))
    cl = [
        ("one_slot_per_requested_label", res.length == to.length),
        ("present_labels_keep_their_value", z3.ForAll([j, i], z3.Implies(z3.And(in_range(j, 0, to.length), present(j, i)), res.at(j) == arr.at(i)))),
    ]
    if fill is not None:
        cl.append(("absent_labels_get_the_fill", forall(j, z3.Implies(z3.And(in_range(j, 0, to.length), forall(i, z3.Implies(in_range(i, 0, frm.length), frm.at(i) != to.at(j)))), res.at(j) == fill))))
    return cl


def callee_full_like(ex, st, args, kwargs, node):
    shape = kwargs["shape"]
    n = shape[-1] if isinstance(shape, tuple) else shape
    fv = args[1]
    if fv is None or isinstance(fv, ModRef):
        fv = z3.Const(f"rendering_of_{'None' if fv is None else 'NA'}", V.Val)  # outside the Val sort: an unconstrained value
    else:
        fv = V.as_val(fv)
    return SSeq(n, lambda i: fv, kind="array", elem_sort=V.Val, name="full_like")


def callee_pd_index(ex, st, args, kwargs, node):
    x = args[0]
    if type(x).__name__ == "LabelsRec":  # requested labels (contracts/factorize.py): the constructor keeps order and content
        return type(x)("Index", x.labels, sorted_from=x.sorted_from)
    return x if isinstance(x, IndexRec) else IndexRec(x)


def callee_range_index(ex, st, args, kwargs, node):
    n = args[0]
    return IndexRec(SSeq(z3.If(n > 0, n, 0), lambda i: i, kind="array", name="rangeindex"))


def callee_isnull_scalar(ex, st, args, kwargs, node):
    x = args[0]
    if x is None:
        return True  # pandas.isnull(None)
    if isinstance(x, ModRef):
        return False
    return V.is_nan(x)


def reindex_contract(fill_kind, array_type, empty):
    """fill_kind: 'sym' (a non-NaN value), 'nan', 'NA', 'None'; array_type: AUTO | NUMPY; empty: array has no slot at all."""

    def params(ex):
        fill = {"sym": z3.Const("fill", V.Val), "nan": V.nan, "NA": NA, "None": None}[fill_kind]
        return {"array": sym_seq("array", V.Val), "from_": IndexRec(sym_seq("from_labels")), "to": IndexRec(sym_seq("to_labels")), "array_type": ModRef(f"flox.core.ReindexArrayType.{array_type}"),
                "fill_value": fill, "axis": -1, "promote": False}

    def requires(ex, env):
        i, j = fresh("i"), fresh("j")
        frm = env["from_"].labels
        r = [env["array"].length == frm.length, (frm.length == 0) if empty else (frm.length >= 1),
             z3.ForAll([i, j], z3.Implies(z3.And(in_range(i, 0, frm.length), in_range(j, 0, frm.length), i != j), frm.at(i) != frm.at(j)))]
        if fill_kind == "sym":
            r.append(z3.Not(V.is_nan(env["fill_value"])))
        return r

    def ensures(ex, env, res):
        e = env["__entry__"]
        fill = {"sym": e["fill_value"], "nan": V.nan, "NA": V.nan, "None": None}[fill_kind]
        if empty and fill_kind in ("None", "NA"):
            # every slot gets np.full_like's rendering of None / NA: outside the Val sort, only the length is stated
            return _reindex_spec(e["array"], e["from_"].labels, e["to"].labels, res, None)[:1]
        return _reindex_spec(e["array"], e["from_"].labels, e["to"].labels, res, fill)

    def exc_ensures(ex, env, exc):
        to, frm = env["to"].labels, env["from_"].labels
        j, i = fresh("j"), fresh("i")
        absent = z3.Exists([j], z3.And(in_range(j, 0, to.length), forall(i, z3.Implies(in_range(i, 0, frm.length), frm.at(i) != to.at(j)))))
        return [("only_when_a_label_is_absent_and_no_fill", z3.And(z3.BoolVal(fill_kind == "None"), absent))]

    return Contract(qualname="reindex_", file="flox/core.py", prefix=f"C05.reindex_.fill{fill_kind}.{array_type}.{'empty' if empty else 'nonempty'}", params=params, requires=requires, ensures=ensures,
                    raises=("ValueError",), exc_ensures=exc_ensures, serves=("C05", "C02", "C10"), replay=replay_reindex,
                    assumed=("pandas.Index.equals / get_indexer", "xrdtypes.maybe_promote on floating dtypes returns NaN", "np.full_like(shape=...) fills every slot", "arrays are 1-D along the reindexed axis (leading axes are carried by NumPy broadcasting)"))


REINDEX_CALLEES = {}


def reindex_callees():
    from ..pyvc.prims import Raised  # noqa: F401

    c = ReindexNumpyCallee()
    return {"reindex_numpy": lambda ex, st, a, k, n: c.pyvc_call(ex, st, a, k, n, None), "isnull": callee_isnull_scalar,
            "is_same_type": lambda ex, st, a, k, n: True}  # AUTO: True; NUMPY: isinstance(array, np.ndarray), which the arrays of this contract are


class ReindexNumpyCallee:
    """reindex_numpy at a call site: requires, then either raises ValueError (no fill and a label absent) or returns a
    sequence satisfying the proved postcondition."""

    def pyvc_call(self, ex, st, args, kwargs, node, prims):
        from ..pyvc.prims import Raised

        arr, frm, to, fill = args[0], args[1].labels, args[2].labels, args[3]
        i, j = fresh("i"), fresh("j")
        ex.oblige(st, z3.And(arr.length == frm.length, frm.length >= 1), ex._name("pre.reindex_numpy", node), "requires of reindex_numpy: one value per label of from_, from_ not empty")
        res = sym_seq(f"reindexed_{fresh('r').decl().name()}", V.Val)
        if fill is None:
            wit = fresh("absent")
            absent_w = z3.And(in_range(wit, 0, to.length), forall(i, z3.Implies(in_range(i, 0, frm.length), frm.at(i) != to.at(wit))))
            none_absent = forall(j, z3.Implies(in_range(j, 0, to.length), z3.Not(forall(i, z3.Implies(in_range(i, 0, frm.length), frm.at(i) != to.at(j))))))
            out = []
            s1 = st.fork()
            s1.assume(absent_w)
            out.append((s1, Raised("ValueError")))
            s2 = st.fork()
            s2.assume(none_absent)
            for name, f in _reindex_spec(arr, frm, to, res, None):
                s2.assume(f)
            out.append((s2, res))
            return out
        for name, f in _reindex_spec(arr, frm, to, res, fill):
            st.assume(f)
        return res


def all_reindex():
    out = [reindex_numpy_contract("sym"), reindex_numpy_contract("None")]
    for fk in ("sym", "nan", "NA", "None"):
        for at in ("AUTO", "NUMPY"):
            for empty in (False, True):
                out.append(reindex_contract(fk, at, empty))
    return out


# ---------------------------------------------------------------------------------------------
# reindex_intermediates(x, agg, unique_groups, array_type)   (C02.reindex, C05.reindex)
# ---------------------------------------------------------------------------------------------


def callee_reindex_generic(ex, st, args, kwargs, node):
    """call-site use of the contract of reindex_ proved above; from_ / to may be arrays or pandas Indexes"""
    arr = args[0]
    frm, to = kwargs["from_"], kwargs["to"]
    frm = frm.labels if isinstance(frm, IndexRec) else frm
    to = to.labels if isinstance(to, IndexRec) else to
    fill = kwargs.get("fill_value")
    i, j = fresh("i"), fresh("j")
    ex.oblige(st, z3.And(arr.length == frm.length, z3.ForAll([i, j], z3.Implies(z3.And(in_range(i, 0, frm.length), in_range(j, 0, frm.length), i != j), frm.at(i) != frm.at(j)))),
              ex._name("pre.reindex_", node), "requires of reindex_: one value per label of from_, labels of from_ distinct")
    res = sym_seq(f"reindexed_{fresh('r').decl().name()}", V.Val)
    callee_reindex_generic.calls.append((arr, frm, to, fill, res))
    for _, f in _reindex_spec(arr, frm, to, res, None if fill is None else V.as_val(fill)):
        st.assume(f)
    return res


callee_reindex_generic.calls = []


def reindex_intermediates_contract(n_inter=2):
    def params(ex):
        callee_reindex_generic.calls = []
        x = {"groups": sym_seq("block_groups"), "intermediates": tuple(sym_seq(f"intermediate{k}", V.Val) for k in range(n_inter))}
        agg = Record("Aggregation", fill_value={"intermediate": tuple(z3.Const(f"fill{k}", V.Val) for k in range(n_inter)), "final": z3.Const("final_fill", V.Val)})
        return {"x": x, "agg": agg, "unique_groups": sym_seq("unique_groups"), "array_type": ModRef("flox.core.ReindexArrayType.AUTO")}

    def requires(ex, env):
        g = env["x"]["groups"]
        i, j = fresh("i"), fresh("j")
        return [g.length >= 0, env["unique_groups"].length >= 0] + [v.length == g.length for v in env["x"]["intermediates"]] + [
            z3.ForAll([i, j], z3.Implies(z3.And(in_range(i, 0, g.length), in_range(j, 0, g.length), i != j), g.at(i) != g.at(j)))]  # the groups found in one block are distinct

    def ensures(ex, env, res):
        e = env["__entry__"]
        x, U = e["x"], e["unique_groups"]
        fills = e["agg"].fields["fill_value"]["intermediate"]
        i = fresh("i")
        cl = [("groups_are_the_common_groups", z3.And(res["groups"].length == U.length, forall(i, z3.Implies(in_range(i, 0, U.length), res["groups"].at(i) == U.at(i))))),
              ("one_output_per_intermediate", z3.BoolVal(len(res["intermediates"]) == n_inter))]
        for k in range(min(n_inter, len(res["intermediates"]))):
            for name, f in _reindex_spec(x["intermediates"][k], x["groups"], U, res["intermediates"][k], fills[k]):
                cl.append((f"intermediate{k}.{name}_with_its_own_fill", f))
        return cl

    return Contract(qualname="reindex_intermediates", file="flox/core.py", prefix="C02.reindex_intermediates", params=params, requires=requires, ensures=ensures, serves=("C02", "C05"),
                    assumed=("np.broadcast_to / np.atleast_1d / ndarray.squeeze on a 1-D group axis are the identity", "pandas.Index constructor"))


def reindex_intermediates_callees():
    return {"reindex_": callee_reindex_generic}
