"""Sidecar contract of flox.core._finalize_results (C05.mask, C11.lastcast, C02.final): the count mask applies the
user's fill_value verbatim to every slot with fewer than min_count valid members, and to no other slot."""

from __future__ import annotations

import ast
import os

import json

import z3

from ..pyvc import valsort as V
from ..pyvc.engine import B, Contract, I, SSeq, forall, fresh, in_range
from ..pyvc.prims import ModRef, Opaque, Record
from . import plan
from .kernels import sym_seq

NA = ModRef("flox.xrdtypes.NA")


class FinalizeFn:
    """agg.finalize: an arbitrary pointwise function of the intermediates (uninterpreted)."""

    def __init__(self):
        self.F = z3.Function("finalize_fn", V.Val, V.Val)
        self.truth = z3.BoolVal(True)

    def pyvc_call(self, ex, st, args, kwargs, node, prims):
        x = args[0]
        return SSeq(x.length, lambda i: self.F(x.fn(i)), kind="array", elem_sort=V.Val, name="finalized")


def finalize_contract(mc_pos, has_finalize, fill_kind, expected_given):
    tag = f"{'mc' if mc_pos else 'nomc'}.{'fin' if has_finalize else 'nofin'}.fill{fill_kind}.{'exp' if expected_given else 'noexp'}"

    def params(ex):
        v = sym_seq("interm0", V.Val)
        counts = sym_seq("counts", I)
        fill = {"sym": z3.Const("user_fill", V.Val), "None": None, "NA": NA}[fill_kind]
        fn = FinalizeFn() if has_finalize else None
        agg = Record("Aggregation", name="theagg", min_count=z3.Int("min_count"), finalize=fn, finalize_kwargs={}, fill_value={"user": fill},
                     dtype={"final": Opaque("final-dtype")}, num_new_vector_dims=0)
        inter = [v, counts] if mc_pos else [v]
        return {"results": {"groups": Opaque("groups"), "intermediates": inter}, "agg": agg, "axis": (0,), "expected_groups": Opaque("expected") if expected_given else None,
                "reindex": Record("ReindexStrategy", blockwise=z3.Bool("reindex_blockwise"), array_type=plan.AUTO)}

    def requires(ex, env):
        agg = env["agg"]
        out = [agg.fields["min_count"] > 0 if mc_pos else agg.fields["min_count"] == 0]
        inter = env["results"]["intermediates"]
        if mc_pos:
            out.append(inter[0].length == inter[1].length)
        return out

    def ensures(ex, env, res):
        e = env["__entry__"]
        agg = e["agg"]
        inter = e["results"]["intermediates"]
        v = inter[0]
        fn = agg.fields["finalize"]
        val = (lambda i: fn.F(v.at(i))) if has_finalize else (lambda i: v.at(i))
        out = res["theagg"]
        k = fresh("k")
        reindexed = getattr(out, "reindexed_from", None)
        base = reindexed if reindexed is not None else out
        cl = []
        if mc_pos:
            counts, mc = inter[1], agg.fields["min_count"]
            if fill_kind == "sym":
                fill = agg.fields["fill_value"]["user"]
                cl.append(("masked_slots_get_the_user_fill_verbatim", forall(k, z3.Implies(z3.And(in_range(k, 0, v.length), counts.at(k) < mc), base.at(k) == fill))))
            elif fill_kind == "NA":
                cl.append(("masked_slots_get_NaN", forall(k, z3.Implies(z3.And(in_range(k, 0, v.length), counts.at(k) < mc), base.at(k) == V.nan))))
            cl.append(("other_slots_untouched", forall(k, z3.Implies(z3.And(in_range(k, 0, v.length), counts.at(k) >= mc), base.at(k) == val(k)))))
        else:
            cl.append(("no_mask_without_min_count", forall(k, z3.Implies(in_range(k, 0, v.length), base.at(k) == val(k)))))
        cl.append(("length", base.length == v.length))
        # final reindex exactly when it was not done at the block stage and the labels are known
        want_reindex = z3.And(z3.Not(e["reindex"].fields["blockwise"]), z3.BoolVal(expected_given))
        cl.append(("reindex_iff_needed", z3.BoolVal(reindexed is not None) == want_reindex))
        cl.append(("groups", z3.BoolVal(res["groups"] is (e["expected_groups"] if reindexed is not None else e["results"]["groups"]))))
        return cl

    def exc_ensures(ex, env, exc):
        # ValueError only when a fill is needed (some slot is masked) and none was given
        return [("only_when_fill_missing", z3.BoolVal(mc_pos and fill_kind == "None"))]

    return Contract(qualname="_finalize_results", file="flox/core.py", prefix=f"C05.finalize_results.{tag}", params=params, requires=requires, ensures=ensures, raises=("ValueError",), exc_ensures=exc_ensures,
                    serves=("C05", "C02", "C11"), assumed=("numpy.where", "ndarray.astype keeps the values it can represent (dtype level: C11)", "xrdtypes.maybe_promote(float) = (same dtype, NaN)", "contract of reindex_ (permutes known labels, fills absent ones)"))


def callee_squeeze(ex, st, a, k, node):
    return a[0]  # 1-D reductions: nothing to squeeze (assumed; the rank-general part is bounded, C08)


def callee_reindex(ex, st, a, k, node):
    arr = a[0]
    out = SSeq(arr.length, arr.fn, kind="array", elem_sort=arr.elem_sort, name="reindexed")
    out.reindexed_from = arr  # contract of reindex_: present labels keep their values (checked in C05.rtc / reindex_numpy)
    return out


def finalize_models(prims):
    prims.register("flox.xrdtypes.maybe_promote", lambda ex, st, a, k, n: (Opaque("promoted-dtype"), V.nan))


FIN_CALLEES = {"_squeeze_results": callee_squeeze, "reindex_": callee_reindex}


def all_finalize():
    out = []
    for mc in (True, False):
        for fin in (True, False):
            for fk in ("sym", "None", "NA"):
                for eg in (True, False):
                    out.append(finalize_contract(mc, fin, fk, eg))
    return out


def lastcast_obligation(repo):
    """C11.lastcast (syntactic): the statement before the only `return` of _finalize_results casts to agg.dtype['final']."""
    tree = ast.parse(open(os.path.join(repo, "flox/core.py")).read())
    fn = [n for n in tree.body if isinstance(n, ast.FunctionDef) and n.name == "_finalize_results"]
    if not fn:
        return None, "function not found"
    body = fn[0].body
    rets = [n for n in ast.walk(fn[0]) if isinstance(n, ast.Return)]
    ok = len(rets) == 1 and isinstance(body[-1], ast.Return) and isinstance(body[-2], ast.Assign)
    if ok:
        txt = ast.unparse(body[-2])
        ok = ".astype(agg.dtype['final']" in txt and ast.unparse(body[-2].targets[0]) in txt.split("=", 1)[1]
    return ok, ast.unparse(body[-2]) if len(body) >= 2 else ""


# ---------------------------------------------------------------------------------------------
# reindex_numpy(array, from_, to, fill_value, dtype, axis)   (C05.reindex, C02.reindex)
# ---------------------------------------------------------------------------------------------


class IndexRec(Record):
    """pandas.Index seen as its label sequence; get_indexer (ASSUMED): position of each target label, -1 if absent."""

    def __init__(self, labels):
        super().__init__("Index", labels=labels)
        self.labels = labels

    def pyvc_getattr(self, ex, st, attr, node, prims):
        from ..pyvc.prims import Method

        return Method(self, attr)

    def pyvc_method(self, ex, st, attr, args, kwargs, node, prims):
        if attr != "get_indexer":
            raise NotImplementedError(attr)
        to = args[0].labels
        frm = self.labels
        G = z3.Function(f"get_indexer!{fresh('g').decl().name()}", I, I)
        j, i = fresh("j"), fresh("i")
        st.assume(forall(j, z3.Implies(in_range(j, 0, to.length), z3.Or(
            z3.And(G(j) == -1, forall(i, z3.Implies(in_range(i, 0, frm.length), frm.at(i) != to.at(j)))),
            z3.And(in_range(G(j), 0, frm.length), frm.at(G(j)) == to.at(j)))), patterns=[G(j)]))
        out = SSeq(to.length, lambda t: G(t), kind="array", name="indexer")
        return out


def reindex_numpy_contract(fill_kind):
    def params(ex):
        return {"array": sym_seq("array", V.Val), "from_": IndexRec(sym_seq("from_labels")), "to": IndexRec(sym_seq("to_labels")),
                "fill_value": z3.Const("fill", V.Val) if fill_kind == "sym" else None, "dtype": Opaque("dtype"), "axis": -1}

    def requires(ex, env):
        i, j = fresh("i"), fresh("j")
        frm = env["from_"].labels
        return [env["array"].length == frm.length, frm.length >= 1,
                z3.ForAll([i, j], z3.Implies(z3.And(in_range(i, 0, frm.length), in_range(j, 0, frm.length), i != j), frm.at(i) != frm.at(j)))]  # labels of an Index used for reindexing are unique

    def ensures(ex, env, res):
        e = env["__entry__"]
        arr, frm, to = e["array"], e["from_"].labels, e["to"].labels
        j, i = fresh("j"), fresh("i")
        present = lambda t, pos: z3.And(in_range(pos, 0, frm.length), frm.at(pos) == to.at(t))
        cl = [
            ("one_slot_per_requested_label", res.length == to.length),
            ("present_labels_keep_their_value", z3.ForAll([j, i], z3.Implies(z3.And(in_range(j, 0, to.length), present(j, i)), res.at(j) == arr.at(i)))),
        ]
        if fill_kind == "sym":
            cl.append(("absent_labels_get_the_fill", forall(j, z3.Implies(z3.And(in_range(j, 0, to.length), forall(i, z3.Implies(in_range(i, 0, frm.length), frm.at(i) != to.at(j)))), res.at(j) == e["fill_value"]))))
        return cl

    def exc_ensures(ex, env, exc):
        to, frm = env["to"].labels, env["from_"].labels
        j, i = fresh("j"), fresh("i")
        absent = z3.Exists([j], z3.And(in_range(j, 0, to.length), forall(i, z3.Implies(in_range(i, 0, frm.length), frm.at(i) != to.at(j)))))
        return [("only_when_a_label_is_absent_and_no_fill", z3.And(z3.BoolVal(fill_kind == "None"), absent))]

    return Contract(qualname="reindex_numpy", file="flox/core.py", prefix=f"C05.reindex_numpy.fill{fill_kind}", params=params, requires=requires, ensures=ensures, raises=("ValueError",), exc_ensures=exc_ensures, replay=replay_reindex_numpy,
                    serves=("C05", "C02"), assumed=("pandas.Index.get_indexer", "fancy indexing with -1 wraps (then overwritten)", "ndarray.astype keeps representable values"))


def _val_to_float(v):
    if isinstance(v, (int, float)):
        return float(v)
    v = str(v)
    if v.startswith("fin("):
        return float(v[4:-1])
    return {"nan": float("nan"), "pinf": float("inf"), "ninf": float("-inf"), "inf": float("inf")}.get(v, float("nan"))


def replay_reindex_numpy(cm):
    """Replay a counter-model on the real flox.core.reindex_numpy -> (violated?, text)."""
    r = _replay_reindex_numpy(cm)
    return r["verdict"] == "violated", json.dumps(r, default=str)


def _replay_reindex_numpy(cm):
    import numpy as np
    import pandas as pd

    from flox.core import reindex_numpy

    frm = list(cm["from_"].get("labels") or [])
    to = list(cm["to"].get("labels") or [])
    arr = np.array([_val_to_float(v) for v in cm["array"]], dtype="float64")
    if len(set(frm)) != len(frm) or len(arr) != len(frm) or not frm:
        return {"verdict": "outside-precondition"}
    fill = None if cm.get("fill_value") is None else _val_to_float(cm["fill_value"])
    absent = [t for t in to if t not in frm]
    try:
        out = reindex_numpy(arr.copy(), pd.Index(frm), pd.Index(to), fill, np.dtype("float64"), -1)
    except ValueError as e:
        ok = fill is None and bool(absent)
        return {"verdict": "held" if ok else "violated", "clauses": [] if ok else ["only_when_a_label_is_absent_and_no_fill"], "raised": repr(e)}
    bad = []
    if len(out) != len(to):
        bad.append("one_slot_per_requested_label")
    else:
        same = lambda a, b: (a == b) or (a != a and b != b)
        for j, t in enumerate(to):
            if t in frm:
                if not same(out[j], arr[frm.index(t)]):
                    bad.append("present_labels_keep_their_value")
            elif fill is not None and not same(out[j], fill):
                bad.append("absent_labels_get_the_fill")
    return {"verdict": "violated" if bad else "held", "clauses": sorted(set(bad)), "input": {"array": arr.tolist(), "from": frm, "to": to, "fill": fill}, "output": out.tolist()}


def all_reindex():
    return [reindex_numpy_contract("sym"), reindex_numpy_contract("None")]
