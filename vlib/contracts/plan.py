"""Sidecar contracts for the plan-resolution / validation layer of flox.core (C19, C02, C09, C18):
_is_arg_reduction, _is_first_last_reduction, _is_minmax_reduction, _validate_reindex, _choose_method,
_get_chunk_reduction, _validate_expected_groups (arity part), _assert_by_is_aligned."""

from __future__ import annotations

import z3

from ..pyvc.engine import Contract, fresh
from ..pyvc.prims import ModRef, Opaque, Record

S = z3.StringSort()
ARG_NAMES = ["argmin", "argmax", "nanargmax", "nanargmin"]
FL_NAMES = ["nanfirst", "nanlast", "first", "last"]
METHODS = ["map-reduce", "blockwise", "cohorts"]


def s_in(x, names):
    return z3.Or([x == z3.StringVal(n) for n in names])


def agg_record(tag="agg"):
    return Record("Aggregation", name=z3.String(f"{tag}_name"), reduction_type=z3.String(f"{tag}_rtype"), chunk=Opaque("agg.chunk"))


# ---------------------------------------------------------------------------------------------
# predicates on the reduction
# ---------------------------------------------------------------------------------------------


def spec_is_arg(func):
    if isinstance(func, Record):
        return func.fields["reduction_type"] == z3.StringVal("argreduce")
    return s_in(func, ARG_NAMES)


def spec_is_fl(func):
    name = func.fields["name"] if isinstance(func, Record) else func
    return s_in(name, FL_NAMES)


def spec_is_minmax(func):
    if isinstance(func, Record):
        return z3.BoolVal(False)
    return z3.And(z3.Not(spec_is_arg(func)), z3.Or(z3.Contains(func, z3.StringVal("max")), z3.Contains(func, z3.StringVal("min"))))


def _pred_contract(qualname, spec, variant):
    params = (lambda ex: {"func": z3.String("func")}) if variant == "str" else (lambda ex: {"func": agg_record("func")})
    return Contract(
        qualname=qualname, file="flox/core.py", prefix=f"C19.{qualname}.{variant}", params=params,
        ensures=lambda ex, env, res: [("spec", (res if isinstance(res, z3.BoolRef) else z3.BoolVal(bool(res))) == spec(env["__entry__"]["func"]))],
        serves=("C19", "C02"),
    )


PREDICATES = [
    _pred_contract("_is_arg_reduction", spec_is_arg, "str"), _pred_contract("_is_arg_reduction", spec_is_arg, "agg"),
    _pred_contract("_is_first_last_reduction", spec_is_fl, "str"), _pred_contract("_is_first_last_reduction", spec_is_fl, "agg"),
    _pred_contract("_is_minmax_reduction", spec_is_minmax, "str"), _pred_contract("_is_minmax_reduction", spec_is_minmax, "agg"),
]


def callee_is_arg(ex, st, args, kwargs, node):
    return spec_is_arg(args[0])


def callee_is_fl(ex, st, args, kwargs, node):
    return spec_is_fl(args[0])


def callee_is_minmax(ex, st, args, kwargs, node):
    return spec_is_minmax(args[0])


AUTO = ModRef("flox.core.ReindexArrayType.AUTO")


def callee_ReindexStrategy(ex, st, args, kwargs, node):
    """Constructor of the dataclass ReindexStrategy(blockwise, array_type=AUTO); __post_init__ only rejects
    blockwise=True together with a non-numpy array type (not reachable here: array_type is AUTO/NUMPY)."""
    bw = kwargs.get("blockwise", args[0] if args else None)
    return Record("ReindexStrategy", blockwise=bw, array_type=kwargs.get("array_type", AUTO))


PLAN_CALLEES = {
    "_is_arg_reduction": callee_is_arg, "_is_first_last_reduction": callee_is_fl, "_is_minmax_reduction": callee_is_minmax,
    "ReindexStrategy": callee_ReindexStrategy,
}

# ---------------------------------------------------------------------------------------------
# _validate_reindex
# ---------------------------------------------------------------------------------------------

REINDEX_VARIANTS = {
    "None": None, "True": True, "False": False,
    "RS_None": ("RS", None), "RS_True": ("RS", True), "RS_False": ("RS", False),
}


def _bw_is(v, what):
    """formula: blockwise field `v` (None | bool | z3 Bool) is `what` (None/True/False)."""
    if v is None:
        return z3.BoolVal(what is None)
    if what is None:
        return z3.BoolVal(False)
    if isinstance(v, bool):
        return z3.BoolVal(v is what)
    return v if what else z3.Not(v)


def validate_reindex_contract(rv_name, method_variant, expected_variant, func_variant):
    rv = REINDEX_VARIANTS[rv_name]

    def params(ex):
        reindex = Record("ReindexStrategy", blockwise=rv[1], array_type=AUTO) if isinstance(rv, tuple) else rv
        return {
            "reindex": reindex,
            "func": z3.String("func") if func_variant == "str" else agg_record("func"),
            "method": None if method_variant == "None" else z3.String("method"),
            "expected_groups": None if expected_variant == "None" else Opaque("expected_groups"),
            "any_by_dask": z3.Bool("any_by_dask"), "is_dask_array": z3.Bool("is_dask_array"),
            "array_dtype": Record("dtype", kind=z3.String("dtype_kind")),
        }

    def requires(ex, env):
        out = []
        if env["method"] is not None:
            out.append(s_in(env["method"], METHODS))
        return out

    def ensures(ex, env, res):
        e = env["__entry__"]
        func, method = e["func"], e["method"]
        all_eager = z3.And(z3.Not(e["is_dask_array"]), z3.Not(e["any_by_dask"]))
        bw = res.fields["blockwise"]
        is_arg, is_fl = spec_is_arg(func), spec_is_fl(func)
        name = func.fields["name"] if isinstance(func, Record) else func
        plain_fl = s_in(name, ["first", "last"]) if not isinstance(func, Record) else z3.BoolVal(False)
        needs_grouped = z3.Or(plain_fl, z3.And(is_fl, e["array_dtype"].fields["kind"] != z3.StringVal("f")))
        user = rv if not isinstance(rv, tuple) else rv[1]
        out = [("is_strategy", z3.BoolVal(isinstance(res, Record) and res.kind == "ReindexStrategy"))]
        if method is None:
            # planning not finished yet: an unresolved strategy is allowed only here
            out.append(("user_choice_kept", z3.Implies(z3.BoolVal(user is not None), _bw_is(bw, user))))
            if rv_name == "RS_None":
                # a caller's ReindexStrategy(blockwise=None) is never handed on: groupby_reduce may later call
                # set_blockwise_for_numpy() on the returned object (frame obligation of C14)
                out.append(("fresh_when_unresolved", z3.BoolVal(res is not e["reindex"])))
            return out
        out.append(("resolved", z3.Not(_bw_is(bw, None))))
        out.append(("user_choice_kept", z3.Implies(z3.BoolVal(user is not None), _bw_is(bw, user))))
        if user is None:
            # defaults chosen by flox must be consistent with the plan (C02.plan)
            out.append(("eager_reindexes", z3.Implies(all_eager, _bw_is(bw, True))))
            out.append(("cohorts_never_blockwise_reindex", z3.Implies(z3.And(z3.Not(all_eager), method == z3.StringVal("cohorts")), _bw_is(bw, False))))
            out.append(("arg_reductions_grouped", z3.Implies(z3.And(z3.Not(all_eager), is_arg, method != z3.StringVal("blockwise")), _bw_is(bw, False))))
            out.append(("firstlast_grouped", z3.Implies(z3.And(z3.Not(all_eager), needs_grouped), _bw_is(bw, False))))
            out.append(("unknown_labels_grouped", z3.Implies(z3.And(z3.Not(all_eager), method == z3.StringVal("map-reduce"), z3.BoolVal(e["expected_groups"] is None), e["any_by_dask"]), _bw_is(bw, False))))
            out.append(("blockwise_numpy_labels_no_reindex", z3.Implies(z3.And(z3.Not(all_eager), method == z3.StringVal("blockwise"), z3.Not(e["any_by_dask"]), z3.Not(needs_grouped)), _bw_is(bw, False))))
        return out

    def exc_ensures(ex, env, exc):
        # refusals: only for reindex=True (the literal) on non-eager input, and only in the documented situations
        e = env
        func, method = e["func"], e["method"]
        all_eager = z3.And(z3.Not(e["is_dask_array"]), z3.Not(e["any_by_dask"]))
        return [("only_for_literal_True_on_chunked_input", z3.And(z3.BoolVal(rv is True), z3.Not(all_eager)))]

    return Contract(
        qualname="_validate_reindex", file="flox/core.py", prefix=f"C19.validate_reindex.{rv_name}.m{method_variant}.e{expected_variant}.{func_variant}",
        params=params, requires=requires, ensures=ensures, raises=("ValueError", "NotImplementedError"), exc_ensures=exc_ensures, serves=("C19", "C02"),
        assumed=("ReindexStrategy dataclass constructor",),
    )


def all_validate_reindex():
    return attach_replays(_all_validate_reindex())


def _all_validate_reindex():
    out = []
    for rvn in REINDEX_VARIANTS:
        for mv in ("None", "str"):
            for evn in ("None", "given"):
                for fv in ("str", "agg"):
                    out.append(validate_reindex_contract(rvn, mv, evn, fv))
    return out


# ---------------------------------------------------------------------------------------------
# _choose_method(method, preferred_method, agg, by, nax)
# ---------------------------------------------------------------------------------------------


def choose_method_contract(method_variant, chunk_none):
    def params(ex):
        agg = Record("Aggregation", name=z3.String("agg_name"), reduction_type=z3.String("agg_rtype"), chunk=(None,) if chunk_none else ("sum",))
        return {
            "method": None if method_variant == "None" else z3.String("method"),
            "preferred_method": z3.String("preferred"), "agg": agg, "by": Record("array", ndim=z3.Int("by_ndim")), "nax": z3.Int("nax"),
        }

    def requires(ex, env):
        out = [s_in(env["preferred_method"], METHODS), env["nax"] >= 1, env["by"].fields["ndim"] >= env["nax"]]
        if env["method"] is not None:
            out.append(s_in(env["method"], METHODS))
        return out

    def ensures(ex, env, res):
        e = env["__entry__"]
        pref = e["preferred_method"]
        res_ = res if z3.is_expr(res) else z3.StringVal(res)
        out = [("valid", s_in(res_, METHODS))]
        if e["method"] is not None:
            out.append(("explicit_kept", res_ == e["method"]))
            return out
        # blockwise is only chosen when the planner said so (C09)
        out.append(("blockwise_only_if_preferred", z3.Implies(res_ == z3.StringVal("blockwise"), pref == z3.StringVal("blockwise"))))
        if chunk_none:
            out.append(("blockwise_only_reductions", res_ == z3.StringVal("blockwise")))
        else:
            out.append(("partial_axes_map_reduce", z3.Implies(e["nax"] != e["by"].fields["ndim"], res_ == z3.StringVal("map-reduce"))))
            out.append(("arg_never_blockwise", z3.Implies(z3.And(e["nax"] == e["by"].fields["ndim"], spec_is_arg(e["agg"])), res_ != z3.StringVal("blockwise"))))
        return out

    def exc_ensures(ex, env, exc):
        return [("refuses_only_blockwise_only_reductions_without_alignment", z3.And(z3.BoolVal(chunk_none and method_variant == "None"), env["preferred_method"] != z3.StringVal("blockwise")))]

    return Contract(
        qualname="_choose_method", file="flox/core.py", prefix=f"C19.choose_method.m{method_variant}.{'chunkNone' if chunk_none else 'chunked'}",
        params=params, requires=requires, ensures=ensures, raises=("ValueError",), exc_ensures=exc_ensures, serves=("C19", "C09", "C18"),
    )


def all_choose_method():
    return attach_replays([choose_method_contract(m, c) for m in ("None", "str") for c in (False, True)])


# ---------------------------------------------------------------------------------------------
# _get_chunk_reduction
# ---------------------------------------------------------------------------------------------

GET_CHUNK = Contract(
    qualname="_get_chunk_reduction", file="flox/core.py", prefix="C19.get_chunk_reduction",
    params=lambda ex: {"reduction_type": z3.String("reduction_type")},
    ensures=lambda ex, env, res: [("table", z3.BoolVal(getattr(res, "name", None) in ("chunk_reduce", "chunk_argreduce"))),
                                  ("argreduce_maps_to_chunk_argreduce", z3.Implies(env["__entry__"]["reduction_type"] == z3.StringVal("argreduce"), z3.BoolVal(getattr(res, "name", None) == "chunk_argreduce")))],
    raises=("ValueError",),
    exc_ensures=lambda ex, env, exc: [("unknown_type_only", z3.Not(s_in(env["reduction_type"], ["reduce", "argreduce"])))],
    serves=("C19",),
)


# ---------------------------------------------------------------------------------------------
# replay of counter-models on the real functions: the same `ensures` evaluated on concrete values
# ---------------------------------------------------------------------------------------------


def _const(v):
    if isinstance(v, bool):
        return z3.BoolVal(v)
    if isinstance(v, int):
        return z3.IntVal(v)
    if isinstance(v, str):
        return z3.StringVal(v)
    return v


def _real_func_value(m):
    """model value of `func` -> (real argument, symbolic-constant view)"""
    from flox.aggregations import Aggregation

    if isinstance(m, dict) and m.get("__record__") == "Aggregation":
        name, rtype = m.get("name") or "sum", m.get("reduction_type") or "reduce"
        real = Aggregation(name, chunk="sum", combine="sum", reduction_type=rtype if rtype in ("reduce", "argreduce") else "reduce")
        real.reduction_type = rtype
        return real, Record("Aggregation", name=z3.StringVal(name), reduction_type=z3.StringVal(rtype), chunk=Opaque("agg.chunk"))
    return m, z3.StringVal(m if isinstance(m, str) else "")


def replay_validate_reindex(contract, rv_name):
    def replay(model):
        import numpy as np

        from flox.core import ReindexStrategy, _validate_reindex

        rv = REINDEX_VARIANTS[rv_name]
        reindex = ReindexStrategy(blockwise=rv[1]) if isinstance(rv, tuple) else rv
        func_real, func_sym = _real_func_value(model["func"])
        kind = (model["array_dtype"] or {}).get("kind") or "f"
        dt = {"f": "float64", "i": "int64", "u": "uint64", "b": "bool", "M": "M8[ns]", "m": "m8[ns]", "U": "U1", "O": "O", "c": "complex128", "S": "S1"}.get(kind, "int64")
        eg = None if model["expected_groups"] is None else np.array([0, 1])
        args = (reindex, func_real, model["method"], eg, bool(model["any_by_dask"]), bool(model["is_dask_array"]), np.dtype(dt))
        entry = {"reindex": reindex, "func": func_sym, "method": None if model["method"] is None else z3.StringVal(model["method"]), "expected_groups": eg,
                 "any_by_dask": z3.BoolVal(bool(model["any_by_dask"])), "is_dask_array": z3.BoolVal(bool(model["is_dask_array"])), "array_dtype": Record("dtype", kind=z3.StringVal(np.dtype(dt).kind))}
        try:
            res = _validate_reindex(*args)
        except (ValueError, NotImplementedError) as e:
            return False, f"real call refused with {type(e).__name__}"
        except AssertionError as e:
            return True, f"real _validate_reindex{args[:3] + args[4:]} raised AssertionError"
        rec = Record("ReindexStrategy", blockwise=res.blockwise, array_type=AUTO)
        bad = [name for name, f in contract.ensures(None, {"__entry__": entry}, rec) if z3.is_false(z3.simplify(f))]
        desc = f"_validate_reindex(reindex={reindex!r}, func={func_real!r}, method={model['method']!r}, expected_groups={'None' if eg is None else 'given'}, any_by_dask={model['any_by_dask']}, is_dask_array={model['is_dask_array']}, dtype={dt}) -> blockwise={res.blockwise!r}"
        return (True, desc + " violates " + ", ".join(bad)) if bad else (False, desc + " satisfies the contract")

    return replay


def replay_choose_method(contract):
    def replay(model):
        import numpy as np

        from flox.core import _choose_method

        func_real, func_sym = _real_func_value(model["agg"])
        chunk = model["agg"].get("chunk")
        func_real.chunk = (None,) if chunk and chunk[0] is None else ("sum",)
        func_sym.fields["chunk"] = func_real.chunk
        by = np.zeros((1,) * int(model["by"]["ndim"]))
        try:
            res = _choose_method(model["method"], model["preferred_method"], func_real, by, int(model["nax"]))
        except ValueError:
            return False, "real call refused with ValueError"
        entry = {"method": None if model["method"] is None else z3.StringVal(model["method"]), "preferred_method": z3.StringVal(model["preferred_method"]), "agg": func_sym,
                 "by": Record("array", ndim=z3.IntVal(int(model["by"]["ndim"]))), "nax": z3.IntVal(int(model["nax"]))}
        bad = [name for name, f in contract.ensures(None, {"__entry__": entry}, res) if z3.is_false(z3.simplify(f))]
        desc = f"_choose_method(method={model['method']!r}, preferred={model['preferred_method']!r}, agg.reduction_type={func_real.reduction_type!r}, chunk={func_real.chunk}, by.ndim={model['by']['ndim']}, nax={model['nax']}) -> {res!r}"
        return (True, desc + " violates " + ", ".join(bad)) if bad else (False, desc + " satisfies the contract")

    return replay


def attach_replays(contracts):
    for c in contracts:
        if c.qualname == "_validate_reindex":
            c.replay = replay_validate_reindex(c, c.prefix.split(".")[2])
        elif c.qualname == "_choose_method":
            c.replay = replay_choose_method(c)
    return contracts
