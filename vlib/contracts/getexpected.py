"""Sidecar contract of flox.core._get_expected_groups (C12.expected_groups_from_numpy_labels, C16): the groups of an in-memory grouper
without expected_groups are its distinct non-missing labels, handed to _convert_expected_groups_to_index with the caller's sort
flag; a dask grouper is refused with ValueError BEFORE anything is evaluated.

PROVED (labels as extended reals, NaN = missing; `by` is dask or not - symbolic):
  * ValueError iff the grouper is a dask array, and on that path no evaluating operation is reached;
  * otherwise the labels handed to the conversion are exactly the non-missing labels of `by`: none lost (witness form), none
    missing-valued, no duplicates; the conversion gets isbin=(False,) and the caller's `sort`, and its first result is returned.
ASSUMED: pd.unique(x): the distinct members of x in order of first appearance (conformance-tested); boolean-mask indexing keeps
order; _convert_expected_groups_to_index: proved separately (C16.convert.*).
"""

from __future__ import annotations

import z3

from ..pyvc import valsort as V
from ..pyvc.engine import B, Contract, I, SSeq, forall, fresh, in_range
from ..pyvc.prims import Method, Record
from .kernels import sym_seq

GHOST = {}


class ByRec(Record):
    def __init__(self, is_dask, values):
        super().__init__("array")
        self.is_dask, self.values = is_dask, values

    def pyvc_getattr(self, ex, st, attr, node, prims):
        return Method(self, attr)

    def pyvc_method(self, ex, st, attr, args, kwargs, node, prims):
        if attr == "reshape":
            ex.oblige(st, z3.Not(self.is_dask), ex._name("lazy", node), f"line {node.lineno}: the labels are flattened and evaluated below: never reached with a dask grouper")
            return self.values
        raise NotImplementedError(attr)


def m_pd_unique(ex, st, a, k, node):
    """pd.unique(x): distinct members in order of first appearance (NaN counts as one value)"""
    x = a[0]
    tag = fresh("u").decl().name()
    U = z3.Function(f"pd_unique!{tag}", I, V.Val)
    W = z3.Function(f"pd_unique_first!{tag}", I, I)
    Rk = z3.Function(f"pd_unique_rank!{tag}", I, I)
    n = fresh("nunique")
    i, j, s_, t_ = fresh("i"), fresh("j"), fresh("s"), fresh("t")
    st.assume(z3.And(n >= 0, n <= x.length))
    st.assume(forall(j, z3.Implies(in_range(j, 0, n), z3.And(in_range(W(j), 0, x.length), x.at(W(j)) == U(j), Rk(W(j)) == j)), patterns=[U(j)]))
    st.assume(forall(i, z3.Implies(in_range(i, 0, x.length), z3.And(in_range(Rk(i), 0, n), U(Rk(i)) == x.at(i), W(Rk(i)) <= i)), patterns=[x.at(i)]))
    st.assume(z3.ForAll([s_, t_], z3.Implies(z3.And(0 <= s_, s_ < t_, t_ < n), z3.And(U(s_) != U(t_), W(s_) < W(t_))), patterns=[z3.MultiPattern(U(s_), U(t_))]))
    out = SSeq(n, lambda q: U(q), kind="array", elem_sort=V.Val, name="pd_unique")
    GHOST.update(unique_in=x, U=U, W=W, Rk=Rk, unique_out=out)
    return out


def get_expected_groups_contract():
    box = {}

    def params(ex):
        GHOST.clear()
        vals = sym_seq("by_values", V.Val)
        by = ByRec(z3.Bool("by_is_dask"), vals)
        box.update(by=by, vals=vals)
        return {"by": by, "sort": z3.Bool("sort")}

    def c_is_dask(ex, st, a, k, node):
        return a[0].is_dask

    def c_notnull(ex, st, a, k, node):
        x = a[0]
        GHOST["mask"] = SSeq(x.length, lambda t: z3.Not(V.is_nan(x.fn(t))), kind="array", elem_sort=B, name="notnull")
        return GHOST["mask"]

    def c_convert(ex, st, a, k, node):
        GHOST["convert_call"] = (list(a), dict(k))
        out = Record("Index", token="converted")
        GHOST["converted"] = out
        return (out,)

    def exc_ensures(ex, env, exc):
        return [("refused_only_for_a_dask_grouper", z3.And(z3.BoolVal(exc == "ValueError"), box["by"].is_dask))]

    def ensures(ex, env, res):
        e = env["__entry__"]
        vals = box["vals"]
        cl = [("a_dask_grouper_is_refused", z3.Not(box["by"].is_dask))]
        call = GHOST.get("convert_call")
        ok = call is not None and len(call[0]) == 1 and isinstance(call[0][0], tuple) and len(call[0][0]) == 1
        cl.append(("conversion_called_with_one_label_set", z3.BoolVal(bool(ok))))
        if not ok or "mask" not in GHOST or getattr(GHOST["mask"], "_nz", None) is None or "unique_in" not in GHOST:
            cl.append(("distinct_non_missing_labels_taken", z3.BoolVal(False)))
            return cl
        expected = call[0][0][0]
        kw = call[1]
        m, P, R = GHOST["mask"]._nz
        U, W, Rk, uin = GHOST["U"], GHOST["W"], GHOST["Rk"], GHOST["unique_in"]
        i, j, s_, t_ = fresh("i"), fresh("j"), fresh("s"), fresh("t")
        cl += [
            ("not_binned_and_the_callers_sort", z3.BoolVal(kw.get("isbin") == (False,) and kw.get("sort") is e["sort"])),
            ("returns_the_converted_index", z3.BoolVal(res is GHOST.get("converted"))),
            ("labels_handed_on_are_the_distinct_members", z3.BoolVal(expected is GHOST.get("unique_out") and getattr(uin, "selected_from", (None,))[0] is vals)),
            # witness form: a non-missing label at position i is the member of rank Rk(R(i)) among the distinct ones
            ("no_label_lost", forall(i, z3.Implies(z3.And(in_range(i, 0, vals.length), z3.Not(V.is_nan(vals.at(i)))), z3.And(uin.at(R(i)) == vals.at(i), in_range(Rk(R(i)), 0, expected.length), expected.at(Rk(R(i))) == vals.at(i))))),
            ("no_missing_label_among_them", forall(j, z3.Implies(in_range(j, 0, expected.length), z3.Not(V.is_nan(expected.at(j)))))),
            ("no_duplicates", z3.ForAll([s_, t_], z3.Implies(z3.And(0 <= s_, s_ < t_, t_ < expected.length), expected.at(s_) != expected.at(t_)))),
        ]
        return cl

    c = Contract(qualname="_get_expected_groups", file="flox/core.py", prefix="C12.get_expected_groups", params=params, ensures=ensures, exc_ensures=exc_ensures, raises=("ValueError",), serves=("C12", "C16"),
                 assumed=("pd.unique(x): distinct members of x in order of first appearance (conformance-tested)", "boolean-mask indexing keeps the selected members in order", "_convert_expected_groups_to_index: proved separately (C16.convert.*)"))
    c.chain_ensures = True
    c.search = search_get_expected
    return c, {"is_duck_dask_array": c_is_dask, "notnull": c_notnull, "_convert_expected_groups_to_index": c_convert}


def register_models(prims):
    prims.register("pandas.unique", m_pd_unique)


def search_get_expected():
    import itertools

    import numpy as np

    from flox.core import _get_expected_groups

    nan = float("nan")
    for n in (1, 2, 3, 4):
        for vals in itertools.product([2.0, 1.0, 3.0, nan], repeat=n):
            if all(v != v for v in vals):
                continue
            for sort in (True, False):
                got = _get_expected_groups(np.array(vals), sort)
                seen = []
                for v in vals:
                    if v == v and v not in seen:
                        seen.append(v)
                want = sorted(seen) if sort else seen
                if list(got) != want:
                    return dict(by=[str(v) for v in vals], sort=sort), f"got {list(got)}, the distinct non-missing labels are {want}"
    return None
