"""Sidecar contract of flox.dask_array_ops.partial_reduce (C03.tree / C06.order / C09.cover): the graph-writing loop of ONE level of
the hand-written tree reduction - until now only a bounded contract (vlib/rtc/tree_case.py).

get_parts enters through its PROVED contract (C06.get_parts.*): per axis the blocks 0..n-1 are cut by partition_all with that axis'
fan-in (1 for an axis without one) into P = ceil(n / fan) consecutive runs, the keys are the product of range(P) over the axes, one
unit chunk is announced per run. What is PROVED about partial_reduce, for block counts and fan-ins symbolic
(variants: one reduced axis; a kept axis next to a reduced one; two reduced axes; with / without block_index), as a store protocol
on every entry the loop writes into the graph:
  * the key is (name, one part number per axis), each within the announced block grid; with block_index the LAST coordinate is
    block_index and the others are untouched;
  * the task is (func, lol_tuples((dep_name,), range(ndim), free, dummy)): it reads the layer dep_name, with as many coordinates as
    the input has axes; on an axis without a fan-in it reads the SAME block the key names (free[i] == key coordinate); on a reduced
    axis it reads exactly the run of blocks whose part number is the key's coordinate on that axis (dummy[i] is run number key[i] of
    THAT axis' partition - not another axis', not another run) - so every input block feeds exactly the task of its own run, in order;
  * the in-code `assert dep_name != name` holds given the caller keeps level names apart (a precondition, established by _tree_reduce);
  * what is returned is the caller's graph and the chunks get_parts announced.
ASSUMED: itertools.product enumerates index vectors in an order that depends only on the factor LENGTHS, so zip(product(ranges),
product(parts)) pairs part number vector (d_0..d_m) with (parts_0[d_0]..parts_m[d_m]) (conformance-tested); dask.blockwise.lol_tuples
(head, ind, values, dummies) lists the keys head + coordinates with the `values` fixed and the `dummies` expanded in order (trusted,
exercised by the bounded tree-builder contract).
"""

from __future__ import annotations

import z3

from ..pyvc.engine import Contract, I, SSeq, forall, fresh, in_range
from ..pyvc.prims import GhostDict, Opaque, Record
from .kernels import sym_seq


class Run:
    """run number d of partition_all(fan, range(n)): the blocks d*fan .. min((d+1)*fan, n) - 1 of axis `axis`"""

    def __init__(self, axis, d, fan, n):
        self.axis, self.d, self.fan, self.n = axis, d, fan, n

    def pyvc_len(self):
        if isinstance(self.fan, int) and self.fan == 1:
            return 1
        rest = self.n - self.d * self.fan
        return z3.If(rest < self.fan, rest, self.fan)

    def pyvc_getitem(self, ex, st, idx, node, prims):
        if idx != 0:
            raise NotImplementedError("member of a run other than the first")
        ex.oblige(st, self.d * self.fan < self.n, ex._name("index.run_not_empty", node), f"line {node.lineno}: the first block of a run exists")
        return self.d * self.fan


class PartSeq(SSeq):
    def __init__(self, axis, fan, n, P):
        super().__init__(P, lambda j: j, kind="list", elem_sort=I, name=f"parts{axis}")
        self.axis, self.fan, self.n = axis, fan, n

    def at(self, j):
        return Run(self.axis, j, self.fan, self.n)


class LockstepProduct:
    """itertools.product over factors of symbolic length: iteration t yields one member per factor, chosen by digit functions that
    depend only on the factor LENGTHS (two products over factors of equal lengths run in lockstep)."""

    pyvc_iter = True
    registry = {}

    def __init__(self, st, seqs):
        self.seqs = list(seqs)
        key = tuple(str(s.length) for s in self.seqs)
        if key not in LockstepProduct.registry:
            n = fresh("nproduct")
            st.assume(n >= 0)
            digits = []
            k = fresh("k")
            for j, s in enumerate(self.seqs):
                d = z3.Function(f"digit{j}!{fresh('d').decl().name()}", I, I)
                st.assume(forall(k, z3.Implies(z3.And(k >= 0, k < n), in_range(d(k), 0, s.length)), patterns=[d(k)]))
                digits.append(d)
            LockstepProduct.registry[key] = (n, digits)
        self.n, self.digits = LockstepProduct.registry[key]

    def length(self):
        return self.n

    def item(self, k, single):
        return tuple(s.at(d(k)) for s, d in zip(self.seqs, self.digits))


class Lol(Record):
    def __init__(self, head, ind, values, dummies):
        super().__init__("lol_tuples")
        self.head, self.ind, self.values, self.dummies = head, ind, values, dummies


def register_models(prims):
    prims.register("itertools.product", lambda ex, st, a, k, node: LockstepProduct(st, a))

    def m_lol(ex, st, a, k, node):
        head, ind, values, dummies = a
        return Lol(head, ind, values, dummies)

    prims.register("dask.blockwise.lol_tuples", m_lol)


def partial_reduce_contract(kind, with_block_index):
    """kind: 'reduced' (1 axis, reduced) | 'kept_reduced' (axis 0 kept, axis 1 reduced) | 'two_reduced' (both reduced, own fan-ins)"""
    ndim = 1 if kind == "reduced" else 2
    red = {"reduced": (0,), "kept_reduced": (1,), "two_reduced": (0, 1)}[kind]
    box = {}

    def params(ex):
        LockstepProduct.registry.clear()
        chunks = tuple(sym_seq(f"chunks{d}", kind="tuple") for d in range(ndim))
        split_every = {ax: z3.Int(f"fan_in{ax}") for ax in red}
        p = {"func": Opaque("combine-function"), "dsk": GhostDict("dsk"), "chunks": chunks, "name": z3.String("name"), "dep_name": z3.String("dep_name"), "split_every": split_every, "axis": red,
             "block_index": z3.Int("block_index") if with_block_index else None}
        box.clear()
        box.update(p=p)
        return p

    def requires(ex, env):
        return [k >= 1 for k in env["split_every"].values()] + [c.length >= 1 for c in env["chunks"]] + [env["name"] != env["dep_name"]]

    def c_get_parts(ex, st, a, k, node):
        items, chunks = a
        p = box["p"]
        ok = isinstance(items, tuple) and dict(items).keys() == p["split_every"].keys() and all(dict(items)[ax] is p["split_every"][ax] for ax in p["split_every"]) and chunks is p["chunks"]
        ex.oblige(st, z3.BoolVal(bool(ok)), ex._name("protocol.get_parts_gets_the_fan_ins_and_the_chunks_of_this_level", node), f"line {node.lineno}: get_parts is asked with the caller's split_every (as items) and chunks")
        se = dict(items)
        parts, ranges = [], []
        for i, c in enumerate(chunks):
            fan = se.get(i, 1)
            P = fresh(f"nparts{i}")
            st.assume(z3.And(P >= 0, (P - 1) * fan < c.length, c.length <= P * fan))
            parts.append(PartSeq(i, fan, c.length, P))
            ranges.append(SSeq(P, lambda j: j, kind="range", elem_sort=I, name=f"range{i}"))
        box["parts"] = parts
        box["out_chunks"] = Opaque("chunks-announced-by-get_parts")
        return LockstepProduct(st, ranges), parts, box["out_chunks"]

    def store_hook(ex, st, key, value, node):
        p, parts = box["p"], box.get("parts")
        key_ok = isinstance(key, tuple) and len(key) == ndim + 1 and parts is not None
        ex.oblige(st, z3.BoolVal(bool(key_ok)), ex._name("protocol.key_is_name_and_one_part_number_per_axis", node), f"line {node.lineno}: a key of the level is (name, one part number per axis of the input)")
        val_ok = isinstance(value, tuple) and len(value) == 2 and isinstance(value[1], Lol)
        ex.oblige(st, z3.BoolVal(bool(val_ok and value[0] is p["func"])), ex._name("protocol.task_is_func_of_the_listed_input_keys", node), f"line {node.lineno}: the task applies the caller's function to lol_tuples(...)")
        if not (key_ok and val_ok):
            return
        g = value[1]
        ex.oblige(st, key[0] == p["name"], ex._name("protocol.key_carries_the_name_of_this_level", node), f"line {node.lineno}: the key is named `name`")
        head_ok = isinstance(g.head, tuple) and len(g.head) == 1
        ex.oblige(st, z3.BoolVal(False) if not head_ok else g.head[0] == p["dep_name"], ex._name("protocol.reads_the_previous_level", node), f"line {node.lineno}: the keys read belong to the layer dep_name")
        ind = list(g.ind) if isinstance(g.ind, (range, list, tuple)) else None
        ex.oblige(st, z3.BoolVal(ind == list(range(ndim))), ex._name("protocol.reads_keys_of_the_rank_of_the_input", node), f"line {node.lineno}: one coordinate per axis of the input, in axis order")
        free, dummy = g.values, g.dummies
        shape_ok = isinstance(free, dict) and isinstance(dummy, dict) and set(dummy) == set(red) and set(free) == set(range(ndim)) - set(red) and all(isinstance(dummy[i], Run) for i in dummy)
        ex.oblige(st, z3.BoolVal(bool(shape_ok)), ex._name("protocol.reduced_axes_are_expanded_kept_axes_are_fixed", node), f"line {node.lineno}: exactly the axes with a fan-in are expanded (dummy), every other axis is fixed (free)")
        if not shape_ok:
            return
        last = ndim - 1
        for i in range(ndim):
            coord = key[1 + i]
            if with_block_index and i == last:
                ex.oblige(st, coord == p["block_index"], ex._name(f"protocol.last_coordinate_is_block_index", node), f"line {node.lineno}: with block_index the last coordinate of the key is block_index")
                continue
            ex.oblige(st, in_range(coord, 0, parts[i].length), ex._name(f"protocol.key_within_the_announced_grid.axis{i}", node), f"line {node.lineno}: coordinate {i} of the key is a part number of axis {i}")
            if i in dummy:
                r = dummy[i]
                ex.oblige(st, z3.And(z3.BoolVal(r.axis == i and r.fan is parts[i].fan), r.d == coord), ex._name(f"protocol.reads_exactly_the_run_the_key_names.axis{i}", node),
                          f"line {node.lineno}: on reduced axis {i} the task reads run number key[{i}] of THAT axis' partition")
            else:
                ex.oblige(st, free[i] == coord, ex._name(f"protocol.kept_axis_reads_the_same_block.axis{i}", node), f"line {node.lineno}: on kept axis {i} the task reads the block the key names")
        if with_block_index and last in dummy:
            # the run read on the last axis is still a run of that axis' partition (which one: the digit of this iteration)
            r = dummy[last]
            ex.oblige(st, z3.And(z3.BoolVal(r.axis == last and r.fan is parts[last].fan), in_range(r.d, 0, parts[last].length)), ex._name("protocol.last_axis_reads_a_run_of_its_own_partition", node),
                      f"line {node.lineno}: on the last axis the task reads a run of that axis' partition")
        st.ghost["stores"] = st.ghost.get("stores", 0) + 1

    def ensures(ex, env, res):
        p = box["p"]
        ok = isinstance(res, tuple) and len(res) == 2
        return [("returns_the_callers_graph_and_the_chunks_get_parts_announced", z3.BoolVal(ok and res[0] is p["dsk"] and res[1] is box.get("out_chunks")))]

    c = Contract(qualname="partial_reduce", file="flox/dask_array_ops.py", prefix=f"C06.partial_reduce.{kind}.{'block_index' if with_block_index else 'inner'}", params=params, requires=requires, ensures=ensures,
                 invariants={1: lambda ex, env, k: []}, serves=("C06", "C03", "C09"),
                 assumed=("get_parts: proved (C06.get_parts.*)", "itertools.product: the order of index vectors depends only on the factor lengths (conformance-tested)",
                          "dask.blockwise.lol_tuples(head, ind, values, dummies): keys head + coordinates, values fixed, dummies expanded in order"))
    c.store_hooks = {"dsk": store_hook}
    c.search = search_partial_reduce
    return c, {"get_parts": c_get_parts}


def all_partial_reduce():
    return [partial_reduce_contract(kind, bi) for kind in ("reduced", "kept_reduced", "two_reduced") for bi in (False, True)]


def search_partial_reduce():
    """bounded search on the real function: every (n, k) up to 9 blocks x fan-in up to 5, a kept axis of 1-3 blocks, with / without
    block_index: the tasks written read exactly the consecutive runs, in order, and the same block on the kept axis"""
    import itertools

    from flox.dask_array_ops import partial_reduce

    def f(*a, **k):
        return None

    for n in range(1, 10):
        for k in range(1, 6):
            for kept in (None, 1, 3):
                for bi in (None, 7):
                    chunks = ((2,) * n,) if kept is None else ((1,) * kept, (2,) * n)
                    ax = 0 if kept is None else 1
                    case = dict(function="partial_reduce", n=n, k=k, kept=kept, block_index=bi)
                    try:
                        dsk, out_chunks = partial_reduce(f, {}, chunks=chunks, name="new", dep_name="old", split_every={ax: k}, axis=(ax,), block_index=bi)
                    except Exception as e:
                        return case, f"raised {type(e).__name__}: {e}"
                    runs = [list(range(j, min(j + k, n))) for j in range(0, n, k)]
                    want = {}
                    for lead in (itertools.product(range(kept)) if kept else [()]):
                        for d, run in enumerate(runs):
                            key = ("new", *lead, d if bi is None else bi)
                            want[key] = (f, [("old", *lead, b) for b in run])
                    if bi is not None and len(runs) > 1:
                        continue  # block_index is only used at the last level (one run): other calls overwrite one key
                    if dsk != want:
                        return case, f"graph {dsk} != {want}"
                    if tuple(out_chunks[ax]) != (1,) * len(runs):
                        return case, f"announced chunks {out_chunks[ax]} for {len(runs)} runs"
    return None
