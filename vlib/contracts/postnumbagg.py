"""Sidecar contract of flox.core._postprocess_numbagg (C05.fill_for_unseen_groups, C01; engine='numbagg'): numbagg's grouped kernels
take no fill_value - groups without a member come back with the kernel's own default (0 for nansum, 1 for nanprod, NaN for
nanmax ...). PROVED (1-D result, one value per group; labels seen in the block given as distinct codes):
  * a group that was seen keeps the kernel's value, whatever the fill;
  * a group that was NOT seen gets the caller's fill_value when one was given that differs from the kernel's default, and keeps the
    kernel's default otherwise (no fill given, or a fill equal to the default - NaN counts as equal to NaN);
  * reductions without an entry in the table of defaults are passed through untouched;
  * the length of the result is unchanged.
ASSUMED: np.isin(a, b, invert=True) is elementwise non-membership; np.array_equal(x, y, equal_nan=True) on scalars is equality with
NaN == NaN; aggregate_numbagg.DEFAULT_FILL_VALUE is the module-level table read from the source on every run.
"""

from __future__ import annotations

import ast
import os

import z3

from ..pyvc import valsort as V
from ..pyvc.engine import B, Contract, I, SSeq, forall, fresh, in_range
from ..pyvc.prims import seq_member
from .kernels import sym_seq


def default_fill_table(repo):
    """the literal table DEFAULT_FILL_VALUE of flox/aggregate_numbagg.py, read from the source (np.nan -> NaN)"""
    tree = ast.parse(open(os.path.join(repo, "flox", "aggregate_numbagg.py")).read())
    for n in tree.body:
        if isinstance(n, ast.Assign) and len(n.targets) == 1 and isinstance(n.targets[0], ast.Name) and n.targets[0].id == "DEFAULT_FILL_VALUE" and isinstance(n.value, ast.Dict):
            out = {}
            for k, v in zip(n.value.keys, n.value.values):
                if isinstance(v, ast.Constant):
                    out[k.value] = v.value
                elif isinstance(v, ast.Attribute) and v.attr == "nan":
                    out[k.value] = float("nan")
                else:
                    return None
            return out
    return None


def as_val(x):
    if isinstance(x, bool):
        return V.fin(z3.RealVal(int(x)))
    return V.as_val(x)


def register_models(prims, table):
    prims.constants = getattr(prims, "constants", {})
    prims.constants["flox.aggregate_numbagg.DEFAULT_FILL_VALUE"] = table

    def m_array_equal(ex, st, a, k, node):
        x, y = a[0], a[1]
        x = x if z3.is_expr(x) else as_val(x)
        y = y if z3.is_expr(y) else as_val(y)
        eq = x == y  # structural equality on Val: NaN == NaN, as equal_nan=True asks
        if not k.get("equal_nan"):
            eq = z3.And(eq, z3.Not(V.is_nan(x)))
        return eq

    def m_isin(ex, st, a, k, node):
        elems, test = a[0], a[1]
        mem = seq_member(ex, test)
        inv = bool(k.get("invert", False))
        return SSeq(elems.length, lambda t: (z3.Not(mem(elems.fn(t))) if inv else mem(elems.fn(t))), kind="array", elem_sort=B, name="isin")

    prims.register("numpy.array_equal", m_array_equal)
    prims.register("numpy.isin", m_isin)


def postprocess_contract(func, fill_kind, table):
    """fill_kind: 'none' | 'given' (a symbolic value: equal to the default or not is decided by the solver per path)"""
    box = {}

    def params(ex):
        result = sym_seq("result", V.Val)
        seen = sym_seq("seen_groups", I)
        fill = None if fill_kind == "none" else z3.Const("fill_value", V.Val)
        box.update(result=result, seen=seen, fill=fill)
        return {"result": result, "func": func, "fill_value": fill, "size": z3.Int("size"), "seen_groups": seen}

    def requires(ex, env):
        i, j = fresh("i"), fresh("j")
        s = env["seen_groups"]
        return [env["size"] >= 1, env["result"].length == env["size"],
                forall(i, z3.Implies(in_range(i, 0, s.length), in_range(s.at(i), 0, env["size"]))),
                z3.ForAll([i, j], z3.Implies(z3.And(in_range(i, 0, s.length), in_range(j, 0, s.length), i != j), s.at(i) != s.at(j)))]

    def ensures(ex, env, res):
        e = env["__entry__"]
        r0, seen, fill, size = box["result"], box["seen"], box["fill"], e["size"]
        if not isinstance(res, SSeq):
            return [("returns_the_result_array", z3.BoolVal(False))]
        g, i = fresh("g"), fresh("i")
        # "seen" through the membership function of the sequence of seen codes (a named function with witness axioms, the one the
        # model of np.isin uses): keeps the goals free of existential quantifiers
        mem_seen = seq_member(ex, seen)
        was_seen = lambda t: mem_seen(t)
        # when the result was produced by the scatter store result[..., groups[mask]] = fill, name the position of an unseen group
        # among the stored positions (its rank among the unseen ones): gives the solver the witness instead of a search
        sc = getattr(res, "scattered", None)
        hint = lambda t: z3.BoolVal(True)
        if sc is not None and getattr(sc[1], "selected_from", None) is not None and getattr(sc[1].selected_from[1], "_nz", None) is not None:
            idx_, mask_ = sc[1], sc[1].selected_from[1]
            m_, P_, R_ = mask_._nz
            hint = lambda t: z3.And(mask_.at(t), in_range(R_(t), 0, idx_.length), idx_.at(R_(t)) == t)
        cl = [("length_unchanged", res.length == size)]
        if func not in table:
            cl.append(("passed_through_untouched", forall(g, z3.Implies(in_range(g, 0, size), res.at(g) == r0.at(g)))))
            return cl
        cl.append(("seen_groups_keep_the_kernel_value", forall(g, z3.Implies(z3.And(in_range(g, 0, size), was_seen(g)), res.at(g) == r0.at(g)))))
        if fill is None:
            cl.append(("no_fill_given_nothing_changes", forall(g, z3.Implies(in_range(g, 0, size), res.at(g) == r0.at(g)))))
        else:
            d = as_val(table[func])
            cl.append(("unseen_groups_get_a_fill_that_differs_from_the_default", forall(g, z3.Implies(z3.And(in_range(g, 0, size), z3.Not(was_seen(g)), fill != d), z3.And(hint(g), res.at(g) == fill)))))
            cl.append(("a_fill_equal_to_the_default_changes_nothing", z3.Implies(fill == d, forall(g, z3.Implies(in_range(g, 0, size), res.at(g) == r0.at(g))))))
        return cl

    c = Contract(qualname="_postprocess_numbagg", file="flox/core.py", prefix=f"C05.postprocess_numbagg.{func}.fill_{fill_kind}", params=params, requires=requires, ensures=ensures, serves=("C05", "C01"),
                 assumed=("np.isin(a, b, invert=True): elementwise non-membership", "np.array_equal(x, y, equal_nan=True) on scalars: equality with NaN == NaN", "numbagg kernels return their documented default for groups without a member (external)"))
    c.search = search_postprocess
    return c


def all_postprocess(repo):
    table = default_fill_table(repo)
    if table is None:
        return None, []
    out = []
    for func in ("nansum", "nanprod", "nanmax", "median"):
        for fk in ("none", "given"):
            out.append(postprocess_contract(func, fk, table))
    return table, out


def search_postprocess():
    import numpy as np

    from flox.aggregate_numbagg import DEFAULT_FILL_VALUE
    from flox.core import _postprocess_numbagg

    nan = float("nan")
    for func in ("nansum", "nanprod", "nanmax", "nanmean"):
        d = DEFAULT_FILL_VALUE[func]
        for fill in (None, d, 0, 1, -5.0, nan):
            for seen in ([0, 1, 2], [0, 2], [1], []):
                res = np.array([10.0, 20.0, 30.0])
                for g in range(3):
                    if g not in seen:
                        res[g] = d
                got = _postprocess_numbagg(res.copy(), func=func, fill_value=fill, size=3, seen_groups=np.array(seen, dtype=int))
                want = res.copy()
                if fill is not None and not np.array_equal(fill, d, equal_nan=True):
                    for g in range(3):
                        if g not in seen:
                            want[g] = fill
                if not np.array_equal(got, want, equal_nan=True):
                    return dict(func=func, fill=str(fill), seen=seen), f"got {got.tolist()}, want {want.tolist()}"
    return None
