"""Sidecar contracts of the axis bookkeeping helpers of flox/core.py (C08.axes):
  _move_reduce_dims_to_end(arr, axis)   kept dimensions first, in their original order, then the reduced ones in the order given
  _collapse_axis(arr, naxis)            the last naxis dimensions become one of their product size; the others are untouched
  _squeeze_results(results, axis)       only dummy (size-1) reduced axes but the last are removed from every intermediate

Arrays are abstract: a rank (concrete, 1-4 as the property quantifies), SYMBOLIC sizes and, per dimension, the identity of the
input dimension it came from. For every rank and every admissible axis argument this is a loop-free harness over the full
domain of the property's quantifier (all ranks 1-4 x all non-empty ordered axis subsets), sizes symbolic.
ASSUMED: ndarray.transpose(order) permutes dimensions as given and needs a permutation; ndarray.reshape keeps row-major element
order and needs an equal number of elements; np.squeeze(axis=...) removes exactly the listed axes and needs them of size 1.
"""

from __future__ import annotations

import itertools

import z3

from ..pyvc.engine import Contract
from ..pyvc.prims import Method, Record


class Arr(Record):
    def __init__(self, shape, dims):
        super().__init__("ndarray")
        self.shape, self.dims = tuple(shape), tuple(dims)

    def pyvc_getattr(self, ex, st, attr, node, prims):
        if attr == "ndim":
            return len(self.shape)
        if attr == "shape":
            return self.shape
        return Method(self, attr)

    def pyvc_method(self, ex, st, attr, args, kwargs, node, prims):
        if attr == "transpose":
            order = args[0] if len(args) == 1 and isinstance(args[0], (tuple, list)) else tuple(args)
            order = tuple(int(o) for o in order)
            ok = sorted(o % len(self.shape) for o in order) == list(range(len(self.shape))) and all(-len(self.shape) <= o < len(self.shape) for o in order)
            ex.oblige(st, z3.BoolVal(ok), ex._name("numpy.transpose.permutation", node), f"line {node.lineno}: transpose needs a permutation of the dimensions (NumPy raises otherwise)")
            if not ok:
                raise NotImplementedError("transpose by a non-permutation")
            return Arr([self.shape[o] for o in order], [self.dims[o] for o in order])
        if attr == "reshape":
            new = args[0] if len(args) == 1 and isinstance(args[0], (tuple, list)) else tuple(args)
            ex.oblige(st, _prod(new) == _prod(self.shape), ex._name("numpy.reshape.size", node), f"line {node.lineno}: reshape keeps the number of elements")
            # which trailing input dimensions were merged into the last new one (row-major)
            lead = 0
            while lead < len(new) - 1 and lead < len(self.shape) and new[lead] is self.shape[lead]:
                lead += 1
            dims = list(self.dims[:lead]) + ([("merged",) + tuple(self.dims[lead:])] if lead == len(new) - 1 else [("reshaped",)] * (len(new) - lead))
            return Arr(new, dims)
        raise NotImplementedError(attr)


def _prod(xs):
    p = z3.IntVal(1)
    for x in xs:
        p = p * (x if z3.is_expr(x) else z3.IntVal(x))
    return p


def m_squeeze(ex, st, a, k, node):
    arr = a[0]
    axis = k.get("axis", a[1] if len(a) > 1 else None)
    if not isinstance(arr, Arr) or axis is None:
        raise NotImplementedError("np.squeeze without axis")
    axis = tuple(axis) if isinstance(axis, (tuple, list)) else (axis,)
    for ax in axis:
        ex.oblige(st, arr.shape[ax] == 1, ex._name("numpy.squeeze.size_one", node), f"line {node.lineno}: np.squeeze(axis=...) only removes axes of size 1 (NumPy raises otherwise)")
    keep = [i for i in range(len(arr.shape)) if i not in [ax % len(arr.shape) for ax in axis]]
    return Arr([arr.shape[i] for i in keep], [arr.dims[i] for i in keep])


def register_models(prims):
    prims.register("numpy.squeeze", m_squeeze)
    orig = prims.models.get("numpy.arange")

    def m_arange(ex, st, a, k, node):
        if len(a) == 1 and isinstance(a[0], int) and not k:
            return list(range(a[0]))  # a concrete rank: the dimensions 0 .. ndim-1
        return orig(ex, st, a, k, node)

    prims.register("numpy.arange", m_arange)


def sym_arr(name, ndim, ones=()):
    return Arr([(1 if d in ones else z3.Int(f"{name}_n{d}")) for d in range(ndim)], list(range(ndim)))


def move_contract(ndim, axis):
    def params(ex):
        return {"arr": sym_arr("arr", ndim), "axis": axis}

    def requires(ex, env):
        return [s >= 0 for s in env["arr"].shape]

    def ensures(ex, env, res):
        e = env["__entry__"]
        a = e["arr"]
        kept = [d for d in range(ndim) if d not in axis]
        want = kept + list(axis)
        ok = isinstance(res, Arr)
        return [("returns_an_array_of_the_same_rank", z3.BoolVal(ok and len(res.shape) == ndim)),
                ("kept_dimensions_first_in_their_order_then_the_reduced_ones_as_given", z3.BoolVal(ok and list(res.dims) == want)),
                ("sizes_travel_with_their_dimensions", z3.BoolVal(ok and all(res.shape[i] is a.shape[d] for i, d in enumerate(res.dims))))]

    return Contract(qualname="_move_reduce_dims_to_end", file="flox/core.py", prefix=f"C08.axes.move.nd{ndim}.ax{''.join(map(str, axis))}", params=params, requires=requires, ensures=ensures, serves=("C08",),
                    assumed=("ndarray.transpose(order) permutes the dimensions as listed",))


def collapse_axis_contract(ndim, naxis):
    def params(ex):
        return {"arr": sym_arr("arr", ndim), "naxis": naxis}

    def requires(ex, env):
        return [s >= 0 for s in env["arr"].shape]

    def ensures(ex, env, res):
        a = env["__entry__"]["arr"]
        ok = isinstance(res, Arr) and len(res.shape) == ndim - naxis + 1
        cl = [("rank_drops_by_naxis_minus_one", z3.BoolVal(ok))]
        if ok:
            cl.append(("leading_dimensions_untouched", z3.BoolVal(all(res.shape[d] is a.shape[d] and res.dims[d] == d for d in range(ndim - naxis)))))
            cl.append(("last_dimension_is_the_product_of_the_collapsed_ones", res.shape[-1] == _prod(a.shape[ndim - naxis:])))
            cl.append(("last_dimension_merges_exactly_the_trailing_dimensions_in_order", z3.BoolVal(res.dims[-1] == ("merged",) + tuple(range(ndim - naxis, ndim)))))
        return cl

    return Contract(qualname="_collapse_axis", file="flox/core.py", prefix=f"C08.axes.collapse.nd{ndim}.n{naxis}", params=params, requires=requires, ensures=ensures, serves=("C08",),
                    assumed=("ndarray.reshape keeps the row-major element order",))


def squeeze_contract(ndim, axis, ones):
    """intermediates of rank ndim whose reduced axes `axis` (sorted or not) have size 1 where listed in `ones`; groups of rank ndim"""

    def params(ex):
        g = sym_arr("groups", ndim, ones=[d for d in range(ndim - 1)])
        return {"results": {"groups": g, "intermediates": [sym_arr("v0", ndim, ones), sym_arr("v1", ndim, ones)]}, "axis": axis}

    def requires(ex, env):
        r = []
        for v in env["results"]["intermediates"]:
            r += [s >= 2 for d, s in enumerate(v.shape) if d not in ones and z3.is_expr(s)]
        return r + [env["results"]["groups"].shape[-1] >= 2]

    def ensures(ex, env, res):
        e = env["__entry__"]
        last = sorted(axis)[-1]
        gone = [d for d in sorted(axis)[:-1] if d in ones]
        cl = [("same_number_of_intermediates", z3.BoolVal(isinstance(res, dict) and len(res["intermediates"]) == len(e["results"]["intermediates"])))]
        for j, (v, w) in enumerate(zip(e["results"]["intermediates"], res["intermediates"])):
            ok = isinstance(w, Arr)
            cl.append((f"v{j}_loses_exactly_the_dummy_reduced_axes_but_the_last", z3.BoolVal(ok and list(w.dims) == [d for d in range(ndim) if d not in gone])))
            cl.append((f"v{j}_keeps_the_group_axis", z3.BoolVal(ok and last in w.dims and w.dims[-1] == ndim - 1 if last == ndim - 1 else ok)))
        g = res["groups"]
        cl.append(("groups_keep_only_their_last_axis_and_non_dummy_ones", z3.BoolVal(isinstance(g, Arr) and list(g.dims) == [ndim - 1])))
        return cl

    return Contract(qualname="_squeeze_results", file="flox/core.py", prefix=f"C08.axes.squeeze.nd{ndim}.ax{''.join(map(str, axis))}.ones{''.join(map(str, ones)) or '_'}", params=params, requires=requires, ensures=ensures, serves=("C08",),
                    assumed=("np.squeeze(axis=...) removes exactly the listed size-1 axes",))


def all_axes():
    out = []
    for ndim in (1, 2, 3, 4):
        for r in range(1, ndim + 1):
            for comb in itertools.permutations(range(ndim), r):
                out.append(move_contract(ndim, tuple(comb)))
        for naxis in range(1, ndim + 1):
            out.append(collapse_axis_contract(ndim, naxis))
    for ndim in (2, 3, 4):
        for r in range(1, ndim + 1):
            axis = tuple(range(ndim - r, ndim))  # chunk_reduce hands the trailing axes
            for k in range(len(axis) + 1):
                for ones in itertools.combinations(axis, k):
                    out.append(squeeze_contract(ndim, axis, tuple(ones)))
    for c in out:
        c.search = search_axes
    return out


def search_axes():
    """bounded search on the real functions: arrays of rank 1-4 with pairwise different sizes, every admissible axis argument"""
    import numpy as np

    from flox.core import _collapse_axis, _move_reduce_dims_to_end, _squeeze_results

    for ndim in (1, 2, 3, 4):
        shape = (2, 3, 4, 5)[:ndim]
        arr = np.arange(int(np.prod(shape))).reshape(shape)
        for r in range(1, ndim + 1):
            for axis in itertools.permutations(range(ndim), r):
                case = dict(function="_move_reduce_dims_to_end", shape=list(shape), axis=list(axis))
                try:
                    got = _move_reduce_dims_to_end(arr, axis)
                except Exception as e:
                    return case, f"raised {type(e).__name__}: {e}"
                want = np.transpose(arr, [d for d in range(ndim) if d not in axis] + list(axis))
                if got.shape != want.shape or not (got == want).all():
                    return case, f"result shape {got.shape}, kept-then-reduced layout has {want.shape}"
        for naxis in range(1, ndim + 1):
            case = dict(function="_collapse_axis", shape=list(shape), naxis=naxis)
            try:
                got = _collapse_axis(arr, naxis)
            except Exception as e:
                return case, f"raised {type(e).__name__}: {e}"
            want = arr.reshape(shape[: ndim - naxis] + (-1,))
            if got.shape != want.shape or not (got == want).all():
                return case, f"result shape {got.shape}, want {want.shape}"
    for ndim in (2, 3, 4):
        for r in range(1, ndim + 1):
            axis = tuple(range(ndim - r, ndim))
            for k in range(len(axis) + 1):
                for ones in itertools.combinations(axis, k):
                    shape = tuple(1 if d in ones else d + 2 for d in range(ndim))
                    case = dict(function="_squeeze_results", shape=list(shape), axis=list(axis))
                    res = {"groups": np.zeros((1,) * (ndim - 1) + (3,)), "intermediates": [np.zeros(shape), np.ones(shape)]}
                    try:
                        got = _squeeze_results(res, axis)
                    except Exception as e:
                        return case, f"raised {type(e).__name__}: {e}"
                    want = tuple(s for d, s in enumerate(shape) if not (d in sorted(axis)[:-1] and s == 1))
                    if any(v.shape != want for v in got["intermediates"]) or got["groups"].shape != (3,):
                        return case, f"intermediate shapes {[v.shape for v in got['intermediates']]}, want {want}; groups {got['groups'].shape}"
    return None
