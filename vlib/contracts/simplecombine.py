"""Sidecar contract of flox.core._simple_combine and flox.core._aggregate (C02.combine_protocol, C03): the combine step for
equally-shaped intermediates, as a protocol over its callees (two input blocks; the fan-in is immaterial to the code: deepmap /
_conc2 treat whatever nesting they get).

PROVED for reindex.blockwise in {True, False} x is_aggregate in {True, False} x one / two intermediates:
  * blockwise=False: the groups of the step are _find_unique_groups of the ORIGINAL blocks, and EVERY block is re-indexed to exactly
    those groups (same agg, the strategy's array type) before anything is combined; blockwise=True: nothing is re-indexed and the
    groups are those of an input block (all blocks carry the same ones by construction of the blockwise step, so which one is immaterial);
  * intermediate number i of the result is combine function number i of the aggregation (in blueprint order) applied ONCE to the
    concatenation of intermediate number i of all (re-indexed) blocks, concatenated and reduced along axis[:-1] + (DUMMY_AXIS,)
    with keepdims=True - the values come from the right slot and the right blocks;
  * the dummy axis is squeezed out iff this is the final step (is_aggregate), and only that axis;
  * as many intermediates as combine functions, in order.
_aggregate: calls the combine it was given once with is_aggregate=True and hands ITS result, the requested groups and the reindex
strategy to _finalize_results, whose result it returns.
ASSUMED: dask.utils.deepmap applies to every block, deepfirst is the first block; _conc2 concatenates slot [key1][key2] of every block
along the given axes (dask's _concatenate2); the algebra of the combine functions themselves is C04.
"""

from __future__ import annotations

import z3

from ..pyvc.engine import Contract
from ..pyvc.prims import Method, Opaque, Record

DUMMY = -2


class Blk(Record):
    def __init__(self, name, reindexed_to=None, origin=None):
        super().__init__("IntermediateDict")
        self.name, self.reindexed_to, self.origin = name, reindexed_to, origin
        self.groups = Opaque(f"groups_of_{name}")

    def pyvc_getitem(self, ex, st, idx, node, prims):
        if idx == "groups":
            return self.groups
        raise NotImplementedError(idx)


class Arr(Record):
    def __init__(self, what, ndim, **info):
        super().__init__("ndarray")
        self.what, self.ndim, self.info = what, ndim, info

    def pyvc_getattr(self, ex, st, attr, node, prims):
        if attr == "ndim":
            return self.ndim
        return Method(self, attr)

    def pyvc_method(self, ex, st, attr, args, kwargs, node, prims):
        if attr == "squeeze":
            ax = args[0] if args else kwargs.get("axis")
            return Arr("squeezed", self.ndim - 1, of=self, axis=ax)
        raise NotImplementedError(attr)


class Combine:
    def __init__(self, i, g):
        self.i, self.g = i, g

    def pyvc_call(self, ex, st, args, kwargs, node, prims):
        out = Arr("combined", args[0].ndim if isinstance(args[0], Arr) else 3, by=self.i, of=args[0], kwargs=dict(kwargs))
        self.g.setdefault("combines", []).append(out)
        return out


def simple_combine_contract(blockwise, is_aggregate, ncombine):
    g = {}

    def params(ex):
        g.clear()
        blocks = [Blk("b0"), Blk("b1")]
        combs = tuple(Combine(i, g) for i in range(ncombine))
        agg = Record("Aggregation", simple_combine=combs, name="agg")
        reindex = Record("ReindexStrategy", blockwise=blockwise, array_type=Opaque("array_type"))
        g.update(blocks=blocks, agg=agg, reindex=reindex, combs=combs)
        return {"x_chunk": blocks, "agg": agg, "axis": (1, 2), "keepdims": True, "reindex": reindex, "is_aggregate": is_aggregate}

    def c_find_unique(ex, st, a, k, node):
        g["unique_of"] = a[0]
        g["unique"] = Opaque("unique_groups")
        return g["unique"]

    def c_reindex_intermediates(ex, st, a, k, node):
        blk = a[0]
        out = Blk(blk.name + "'", reindexed_to=k.get("unique_groups"), origin=blk)
        g.setdefault("reindexed", []).append((blk, dict(k), out))
        return out

    def c_conc2(ex, st, a, k, node):
        out = Arr("concatenated", 3, blocks=a[0], key1=k.get("key1"), key2=k.get("key2"), axis=k.get("axis"))
        g.setdefault("concs", []).append(out)
        return out

    def models(prims):
        def deepmap(ex, st, a, k, node):
            f, xs = a
            out = []
            for x in xs:
                (s2, v), = prims.call(ex, st, f, [x], {}, node)
                out.append(v)
            return out

        prims.register("dask.utils.deepmap", deepmap)
        prims.register("dask.array.core.deepfirst", lambda ex, st, a, k, n: a[0][0])

    def ensures(ex, env, res):
        blocks, agg, reindex = g["blocks"], g["agg"], g["reindex"]
        ok = isinstance(res, dict) and "groups" in res and "intermediates" in res
        if not ok:
            return [("returns_groups_and_intermediates", z3.BoolVal(False))]
        cl = []
        re_ = g.get("reindexed", [])
        if blockwise:
            cl += [("nothing_reindexed", z3.BoolVal(not re_ and "unique" not in g)), ("groups_are_those_of_an_input_block", z3.BoolVal(any(res["groups"] is b.groups for b in blocks)))]
            used = blocks
        else:
            same = g.get("unique_of") is not None and list(g["unique_of"]) == blocks
            cl += [("groups_found_over_the_original_blocks", z3.BoolVal(bool(same) and res["groups"] is g.get("unique"))),
                   ("every_block_reindexed_to_those_groups", z3.BoolVal([r[0] for r in re_] == blocks and all(r[1].get("unique_groups") is g.get("unique") and r[1].get("agg") is agg and r[1].get("array_type") is reindex.fields["array_type"] for r in re_)))]
            used = [r[2] for r in re_]
        inter = list(res["intermediates"])
        concs, combs = g.get("concs", []), g.get("combines", [])
        cl.append(("as_many_intermediates_as_combine_functions", z3.BoolVal(len(inter) == ncombine and len(concs) == ncombine and len(combs) == ncombine)))
        if len(inter) == ncombine and len(concs) == ncombine and len(combs) == ncombine:
            for i in range(ncombine):
                c_, r_, o_ = concs[i], combs[i], inter[i]
                want_axis = (1, DUMMY)
                cl.append((f"slot{i}_concatenates_slot{i}_of_all_blocks_along_the_dummy_axis", z3.BoolVal(list(c_.info["blocks"]) == used and c_.info["key1"] == "intermediates" and c_.info["key2"] == i and tuple(c_.info["axis"]) == want_axis)))
                cl.append((f"slot{i}_reduced_by_combine_function{i}_along_the_dummy_axis_keeping_dims", z3.BoolVal(r_.info["by"] == i and r_.info["of"] is c_ and tuple(r_.info["kwargs"].get("axis", ())) == want_axis and r_.info["kwargs"].get("keepdims") is True)))
                if is_aggregate:
                    cl.append((f"slot{i}_dummy_axis_squeezed_at_the_final_step", z3.BoolVal(isinstance(o_, Arr) and o_.what == "squeezed" and o_.info["of"] is r_ and o_.info["axis"] == r_.ndim + DUMMY)))
                else:
                    cl.append((f"slot{i}_dummy_axis_kept_between_levels", z3.BoolVal(o_ is r_)))
        return cl

    c = Contract(qualname="_simple_combine", file="flox/core.py", prefix=f"C02.simple_combine.{'blockwise' if blockwise else 'reindex_here'}.{'final' if is_aggregate else 'inner'}.n{ncombine}", params=params, ensures=ensures,
                 serves=("C02", "C03"),
                 assumed=("dask.utils.deepmap applies to every block; deepfirst is the first block", "_conc2 concatenates slot [key1][key2] of every block along the given axes", "algebra of the combine functions: C04"))
    return c, {"_find_unique_groups": c_find_unique, "reindex_intermediates": c_reindex_intermediates, "_conc2": c_conc2}, models


def aggregate_contract():
    g = {}

    class CombineFn:
        def pyvc_call(self, ex, st, args, kwargs, node, prims):
            g.setdefault("calls", []).append((list(args), dict(kwargs)))
            g["combined"] = Opaque("combined-results")
            return g["combined"]

    def params(ex):
        g.clear()
        p = {"x_chunk": Opaque("x_chunk"), "combine": CombineFn(), "agg": Opaque("agg"), "expected_groups": Opaque("expected_groups"), "axis": Opaque("axis"), "keepdims": Opaque("keepdims"),
             "fill_value": Opaque("fill_value"), "reindex": Opaque("reindex")}
        g["p"] = p
        return p

    def c_finalize(ex, st, a, k, node):
        g.setdefault("finalize", []).append((list(a), dict(k)))
        g["final"] = Opaque("final-results")
        return g["final"]

    def ensures(ex, env, res):
        p = g["p"]
        calls, fin = g.get("calls", []), g.get("finalize", [])
        cl = [("combine_called_once_and_finalize_once", z3.BoolVal(len(calls) == 1 and len(fin) == 1))]
        if len(calls) == 1 and len(fin) == 1:
            (ca, ck), (fa, fk) = calls[0], fin[0]
            cl += [("combine_gets_the_blocks_and_is_told_it_is_the_final_step", z3.BoolVal(ca[:4] == [p["x_chunk"], p["agg"], p["axis"], p["keepdims"]] and ck.get("is_aggregate") is True)),
                   ("finalize_gets_the_combined_results_the_requested_groups_and_the_strategy", z3.BoolVal(len(fa) >= 4 and fa[0] is g["combined"] and fa[1] is p["agg"] and fa[2] is p["axis"] and fa[3] is p["expected_groups"] and fk.get("reindex") is p["reindex"])),
                   ("returns_the_finalized_results", z3.BoolVal(res is g["final"]))]
        return cl

    c = Contract(qualname="_aggregate", file="flox/core.py", prefix="C02.aggregate", params=params, ensures=ensures, serves=("C02", "C05"), assumed=("_finalize_results: proved separately (C05.finalize_results.*)",))
    return c, {"_finalize_results": c_finalize}, (lambda prims: None)


def all_simple_combine():
    out = [simple_combine_contract(bw, fin, n) for bw in (True, False) for fin in (True, False) for n in (1, 2)]
    out.append(aggregate_contract())
    return out
