"""Sidecar contracts for the label -> code functions of flox.core (C05, C07, C08, C16):
_factorize_single (RangeIndex and IntervalIndex branches), _ravel_factorized."""

from __future__ import annotations

import z3

from ..pyvc import valsort as V
from ..pyvc.engine import B, Contract, I, SSeq, forall, fresh, in_range
from ..pyvc.prims import Record

R = z3.RealSort()


def sym_seq(name, sort=I, kind="array"):
    arr = z3.Const(name + "_arr", z3.ArraySort(I, sort))
    return SSeq(z3.Int(name + "_len"), lambda i, arr=arr: z3.Select(arr, i), kind=kind, elem_sort=sort, name=name)


# ---------------------------------------------------------------------------------------------
# _factorize_single, RangeIndex branch: labels are already integer codes; code > last requested -> -1
# ---------------------------------------------------------------------------------------------


class RangeIndexRec(Record):
    def __init__(self, n):
        super().__init__("RangeIndex")
        self.n = n

    def pyvc_getitem(self, ex, st, idx, node, prims):
        # expect[-1] of RangeIndex(n): n - 1 (requires n >= 1)
        if idx == -1:
            ex.oblige(st, self.n >= 1, ex._name("index", node), f"line {node.lineno}: expect[-1] needs a non-empty RangeIndex")
            return self.n - 1
        raise NotImplementedError


def fs_range_contract():
    def params(ex):
        return {"by": sym_seq("by"), "expect": RangeIndexRec(z3.Int("n_expected")), "sort": z3.Bool("sort"), "reindex": z3.Bool("reindex")}

    def requires(ex, env):
        return [env["expect"].n >= 1, env["by"].length >= 0]

    def ensures(ex, env, res):
        e = env["__entry__"]
        by, n = e["by"], e["expect"].n
        found, idx = res
        k = fresh("k")
        return [
            ("groups_are_the_requested", z3.BoolVal(found is e["expect"])),
            ("length", idx.length == by.length),
            # code(label, RangeIndex(n)): the label itself when it is requested, -1 when it lies beyond the last requested code
            ("codes", forall(k, z3.Implies(in_range(k, 0, by.length), idx.at(k) == z3.If(by.at(k) > n - 1, -1, by.at(k))))),
            ("input_unchanged_value_semantics", z3.BoolVal(True)),
        ]

    return Contract(qualname="_factorize_single", file="flox/core.py", prefix="C05.factorize_single.range", params=params, requires=requires, ensures=ensures, serves=("C05", "C16"),
                    assumed=("ndarray.reshape(-1) / .copy() keep the values", "masked store x[mask] = v"))


# ---------------------------------------------------------------------------------------------
# _factorize_single, IntervalIndex branch  ==  pandas.cut
# ---------------------------------------------------------------------------------------------


class IntervalIndexRec(Record):
    """contiguous intervals over breaks b[0] < b[1] < ... < b[m]:  left = b[:-1], right = b[1:]"""

    def __init__(self, breaks, closed):
        super().__init__("IntervalIndex")
        self.breaks = breaks
        self.closed = closed
        m = breaks.length - 1
        self.fields = {
            "closed": closed, "closed_right": closed == "right",
            "left": SSeq(m, lambda i: breaks.fn(i), kind="array", elem_sort=R, name="left"),
            "right": SSeq(m, lambda i: breaks.fn(i + 1), kind="array", elem_sort=R, name="right"),
        }


def cut_spec(breaks, x, code, closed):
    """pandas.cut: code j iff x lies in interval j (closed on the given side); -1 if in no interval (also NaN)."""
    nb = breaks.length
    j = fresh("j")
    if closed == "right":
        inside = lambda t: z3.And(V.v_lt(breaks.at(t), x), V.v_le(x, breaks.at(t + 1)))
    else:
        inside = lambda t: z3.And(V.v_le(breaks.at(t), x), V.v_lt(x, breaks.at(t + 1)))
    return z3.Or(
        z3.And(code >= 0, code < nb - 1, inside(code)),
        z3.And(code == -1, forall(j, z3.Implies(in_range(j, 0, nb - 1), z3.Not(inside(j))))),
    )


def cut_clauses(breaks, by, idx, closed):
    """cut_spec for every element, split into three small clauses (one disjunction with a nested quantifier was an
    unstable query: 0.5 s .. 25 s for the same formula under load):
      codes are -1 or an interval number; a code >= 0 names an interval containing the value; a value coded -1 lies in no interval."""
    nb = breaks.length
    k, j = fresh("k"), fresh("j")
    if closed == "right":
        inside = lambda t, x: z3.And(V.v_lt(breaks.at(t), x), V.v_le(x, breaks.at(t + 1)))
    else:
        inside = lambda t, x: z3.And(V.v_le(breaks.at(t), x), V.v_lt(x, breaks.at(t + 1)))
    n = by.length
    return [
        ("pandas_cut.code_is_minus_one_or_an_interval_number", forall(k, z3.Implies(in_range(k, 0, n), z3.And(idx.at(k) >= -1, idx.at(k) < nb - 1)))),
        ("pandas_cut.value_lies_in_the_interval_it_is_coded_with", forall(k, z3.Implies(z3.And(in_range(k, 0, n), idx.at(k) >= 0), inside(idx.at(k), by.at(k))))),
        ("pandas_cut.value_coded_minus_one_lies_in_no_interval", z3.ForAll([k, j], z3.Implies(z3.And(in_range(k, 0, n), idx.at(k) == -1, in_range(j, 0, nb - 1)), z3.Not(inside(j, by.at(k)))))),
    ]


def fs_interval_contract(closed):
    def params(ex):
        breaks = sym_seq("breaks", R)
        return {"by": sym_seq("by", V.Val), "expect": IntervalIndexRec(breaks, closed), "sort": z3.Bool("sort"), "reindex": z3.Bool("reindex")}

    def requires(ex, env):
        b = env["expect"].breaks
        j = fresh("j")
        return [b.length >= 1, forall(j, z3.Implies(in_range(j, 0, b.length - 1), b.at(j) < b.at(j + 1)))]

    def ensures(ex, env, res):
        e = env["__entry__"]
        by, b = e["by"], e["expect"].breaks
        found, idx = res
        k = fresh("k")
        return [
            ("groups_are_the_requested", z3.BoolVal(found is e["expect"])),
            ("length", idx.length == by.length),
        ] + cut_clauses(b, by, idx, closed)

    c = Contract(qualname="_factorize_single", file="flox/core.py", prefix=f"C07.factorize_single.cut_{closed}", params=params, requires=requires, ensures=ensures, raises=("NotImplementedError",), serves=("C07", "C05"),
                    assumed=("numpy.digitize on increasing bins (count of bins below x; NaN after every bin)", "IntervalIndex.left/right/closed of contiguous intervals", "numpy.concatenate", "ndarray.max"))

    # intermediate facts, each proved once where the variable is assigned and used afterwards (keeps the final queries
    # small and stable: the postcondition proved in one piece took anything between 0.5 s and a timeout under load)
    def cut_bins(ex, env):
        bins, b = env["bins"], env["expect"].breaks
        j = fresh("j")
        n = z3.If(b.length >= 2, b.length, 0)  # an IntervalIndex without intervals has no edges at all
        return [("are_the_breaks", z3.And(bins.length == n, forall(j, z3.Implies(in_range(j, 0, n), bins.at(j) == b.at(j))))),
                ("__rebind__", SSeq(n, b.fn, kind="array", elem_sort=b.elem_sort, name="bins_as_breaks"))]

    def cut_within(ex, env):
        w, b, by = env["within_bins"], env["expect"].breaks, env["by"]
        k = fresh("k")
        last = b.at(b.length - 1)
        cmp_ = (lambda x: V.v_le(x, last)) if closed == "right" else (lambda x: V.v_lt(x, last))
        return [("compares_with_the_last_break", z3.And(w.length == by.length, forall(k, z3.Implies(in_range(k, 0, by.length), w.at(k) == cmp_(by.at(k))))))]

    c.cuts = {"bins": cut_bins, "within_bins": cut_within}
    return c


def replay_cut(closed):
    def replay(model):
        import numpy as np
        import pandas as pd

        from flox.core import _factorize_single

        def conv(v):
            if isinstance(v, str):
                if v.startswith("fin("):
                    from fractions import Fraction

                    return float(Fraction(v[4:-1].replace(" ", "")))
                return {"nan": np.nan, "pinf": np.inf, "ninf": -np.inf}[v]
            return float(v)
        ex_ = model.get("expect") if isinstance(model.get("expect"), dict) else {}
        left, right = ex_.get("left") or [], ex_.get("right") or []
        breaks = [float(x) for x in left] + ([float(right[-1])] if right else [])
        if len(breaks) < 2 or any(a >= b for a, b in zip(breaks, breaks[1:])):
            return None, "model has no usable breaks"
        by = np.array([conv(v) for v in model["by"]], dtype=float)
        ii = pd.IntervalIndex.from_breaks(breaks, closed=closed)
        _, idx = _factorize_single(by, ii, sort=True, reindex=True)
        want = np.asarray(pd.cut(by, ii).codes)
        if not np.array_equal(idx, want):
            return True, f"breaks={breaks} closed={closed} x={by.tolist()}: flox codes {idx.tolist()} vs pandas.cut {want.tolist()}"
        return False, f"breaks={breaks} x={by.tolist()} agree with pandas.cut"

    return replay


def search_cut(closed):
    def search():
        import itertools

        import numpy as np
        import pandas as pd

        from flox.core import _factorize_single

        for breaks in ([0.0], [0.0, 1.0], [0.0, 1.0, 2.5], [-1.0, 0.0, 1.0, 4.0]):
            xs = sorted(set(breaks + [b + 0.5 for b in breaks] + [breaks[0] - 1.0])) + [np.nan, np.inf, -np.inf]
            by = np.array(xs, dtype=float)
            ii = pd.IntervalIndex.from_breaks(breaks, closed=closed)
            try:
                _, idx = _factorize_single(by, ii, sort=True, reindex=True)
            except Exception as e:
                return {"breaks": breaks, "by": by.tolist()}, f"raised {type(e).__name__}: {e}"
            want = np.asarray(pd.cut(by, ii).codes) if len(breaks) > 1 else np.full(by.shape, -1)
            if not np.array_equal(idx, want):
                return {"breaks": breaks, "by": [repr(v) for v in by.tolist()], "closed": closed}, f"breaks={breaks} closed={closed} x={by.tolist()}: flox {idx.tolist()} vs pandas.cut {want.tolist()}"
        return None

    return search


# ---------------------------------------------------------------------------------------------
# _ravel_factorized(*factorized, grp_shape): tuple key -> single code, -1 kept
# ---------------------------------------------------------------------------------------------


def ravel_models(prims):
    def ravel_multi_index(ex, st, a, k, node):
        """np.ravel_multi_index(codes, shape, mode='wrap') (ASSUMED): sum_i wrap(c_i, n_i) * stride_i (row-major)."""
        codes, shape = a[0], a[1]
        n = len(codes)
        strides = [1] * n
        for i in range(n - 2, -1, -1):
            strides[i] = strides[i + 1] * shape[i + 1]
        for s_ in shape:
            ex.oblige(st, s_ >= 1, ex._name("ravel", node), f"line {node.lineno}: ravel_multi_index needs positive dimensions (a zero-size grouper has no valid code)")

        def fn(t):
            tot = 0
            for c, nn, sd in zip(codes, shape, strides):
                wrapped = z3.If(c.fn(t) < 0, c.fn(t) + nn, z3.If(c.fn(t) >= nn, c.fn(t) - nn, c.fn(t)))  # mode="wrap" for one period
                tot = tot + wrapped * sd
            return tot

        return SSeq(codes[0].length, fn, kind="array", name="raveled")

    prims.register("numpy.ravel_multi_index", ravel_multi_index)
    prims.register("numpy.logical_or", lambda ex, st, a, k, n: a[0].zipwith(a[1], lambda x, y: z3.Or(x, y), B))
    prims.register("functools.reduce", lambda ex, st, a, k, n: _reduce(ex, st, a, n, prims))


def _reduce(ex, st, a, node, prims):
    f, items = a[0], list(a[1])
    acc = items[0]
    for it in items[1:]:
        (st2, acc), = prims.call(ex, st, f, [acc, it], {}, node)
    return acc


def ravel_contract(nby):
    def params(ex):
        return {"factorized": tuple(sym_seq(f"codes{i}") for i in range(nby)), "grp_shape": tuple(z3.Int(f"n{i}") for i in range(nby))}

    def requires(ex, env):
        out = []
        k = fresh("k")
        L = env["factorized"][0].length
        for c, n in zip(env["factorized"], env["grp_shape"]):
            out += [n >= 1, c.length == L, forall(k, z3.Implies(in_range(k, 0, L), z3.And(c.at(k) >= -1, c.at(k) < n)))]
        return out

    def ensures(ex, env, res):
        e = env["__entry__"]
        codes, shape = e["factorized"], e["grp_shape"]
        k = fresh("k")
        L = codes[0].length
        strides = [1] * nby
        for i in range(nby - 2, -1, -1):
            strides[i] = strides[i + 1] * shape[i + 1]
        anyneg = lambda t: z3.Or([c.at(t) == -1 for c in codes])
        key = lambda t: sum(c.at(t) * sd for c, sd in zip(codes, strides))
        total = 1
        for n in shape:
            total = total * n
        return [
            ("dropped_if_any_missing", forall(k, z3.Implies(z3.And(in_range(k, 0, L), anyneg(k)), res.at(k) == -1))),
            ("tuple_key", forall(k, z3.Implies(z3.And(in_range(k, 0, L), z3.Not(anyneg(k))), res.at(k) == key(k)))),
            ("in_range", forall(k, z3.Implies(z3.And(in_range(k, 0, L), z3.Not(anyneg(k))), z3.And(res.at(k) >= 0, res.at(k) < total)))),
        ]

    return Contract(qualname="_ravel_factorized", file="flox/core.py", prefix=f"C07.ravel_factorized.n{nby}", params=params, requires=requires, ensures=ensures, serves=("C07", "C08"),
                    assumed=("numpy.ravel_multi_index(mode='wrap') row-major", "numpy.logical_or", "functools.reduce"))


def ravel_injective_lemma():
    """RAVEL_INJ: for 0 <= j, j' < n:  i*n + j == i'*n + j'  ==>  i == i' and j == j'   (tuple keys / per-row offsets never collide)."""
    i1, i2, j1, j2, n = z3.Ints("i1 i2 j1 j2 n")
    s = z3.Solver()
    s.set("timeout", 20000)
    s.add(n >= 1, j1 >= 0, j1 < n, j2 >= 0, j2 < n, i1 * n + j1 == i2 * n + j2, z3.Or(i1 != i2, j1 != j2))
    # hint: the difference (i1 - i2) * n lies strictly between -n and n
    s.add((i1 - i2) * n == j2 - j1)
    return s.check()


CONTRACTS = {
    "range": fs_range_contract,
    "cut_right": lambda: fs_interval_contract("right"),
    "cut_left": lambda: fs_interval_contract("left"),
    "ravel2": lambda: ravel_contract(2),
    "ravel3": lambda: ravel_contract(3),
}


# ---------------------------------------------------------------------------------------------
# offset_labels(labels, ngroups): per-row offsetting of codes (C08)
# ---------------------------------------------------------------------------------------------


def offset_contract():
    from ..pyvc.arr2 import Arr2

    def params(ex):
        L = z3.Function("labels2d", I, I, I)
        return {"labels": Arr2(z3.Int("rows"), z3.Int("cols"), lambda r, c: L(r, c), sort=I, name="labels"), "ngroups": z3.Int("ngroups")}

    def requires(ex, env):
        lab = env["labels"]
        r, c = fresh("r"), fresh("c")
        return [lab.rows >= 1, lab.cols >= 1, env["ngroups"] >= 1,
                z3.ForAll([r, c], z3.Implies(z3.And(in_range(r, 0, lab.rows), in_range(c, 0, lab.cols)), z3.And(lab.at(r, c) >= -1, lab.at(r, c) < env["ngroups"])))]

    def ensures(ex, env, res):
        e = env["__entry__"]
        lab, ng = e["labels"], e["ngroups"]
        off, size = res
        r, c = fresh("r"), fresh("c")
        inb = z3.And(in_range(r, 0, lab.rows), in_range(c, 0, lab.cols))
        return [
            ("shape", z3.And(off.rows == lab.rows, off.cols == lab.cols)),
            ("size", size == lab.rows * ng),
            ("missing_kept", z3.ForAll([r, c], z3.Implies(z3.And(inb, lab.at(r, c) == -1), off.at(r, c) == -1))),
            ("row_offset", z3.ForAll([r, c], z3.Implies(z3.And(inb, lab.at(r, c) != -1), off.at(r, c) == r * ng + lab.at(r, c)))),
            # every offset code lies in the block of slots of its own row: nothing leaks between rows (with RAVEL_INJ: codes of different rows differ)
            ("own_row_block", z3.ForAll([r, c], z3.Implies(z3.And(inb, lab.at(r, c) != -1), z3.And(off.at(r, c) >= r * ng, off.at(r, c) < (r + 1) * ng)))),
        ]

    return Contract(qualname="offset_labels", file="flox/core.py", prefix="C08.offset_labels", params=params, requires=requires, ensures=ensures, serves=("C08",),
                    assumed=("numpy broadcasting of an (R, C) array with an (R, 1) column", "np.arange(R).reshape((R, -1)) is the column of row numbers", "math.prod"))


CONTRACTS["offset"] = offset_contract


def search_offset():
    import itertools

    import numpy as np

    from flox.core import offset_labels

    for R, C, ng in ((2, 2, 2), (2, 3, 2), (3, 2, 3)):
        for vals in itertools.product(range(-1, ng), repeat=R * C):
            lab = np.array(vals).reshape(R, C)
            off, size = offset_labels(lab.copy(), ng)
            want = np.where(lab == -1, -1, lab + np.arange(R)[:, None] * ng)
            if size != R * ng or not np.array_equal(off, want):
                return {"labels": lab.tolist(), "ngroups": ng}, f"offset_labels({lab.tolist()}, {ng}) -> {np.asarray(off).tolist()}, size {size}; expected {want.tolist()}, size {R * ng}"
    return None


# ---------------------------------------------------------------------------------------------
# factorize_(by, axes, *, expected_groups, reindex, sort, fastpath)   (C07.tuple_key, C05.sentinel, C16)
# 1-D label arrays, one or two groupers; the per-grouper codes come from the contract of _factorize_single
# ---------------------------------------------------------------------------------------------


class FactorizeSingleCallee:
    """_factorize_single at a call site: (found groups, codes) with -1 <= codes[i] < len(groups), codes shaped like `by`.
    (Range / Interval branches proved above; the pandas.factorize branch is an assumed contract.)"""

    def __init__(self, min_groups=0):
        self.calls = []
        self.min_groups = min_groups

    def __call__(self, ex, st, args, kwargs, node):
        from .finalize import IndexRec

        by = args[0]
        k_ = len(self.calls)
        groups = sym_seq(f"found_groups{k_}")
        codes = sym_seq(f"codes{k_}")
        i = fresh("i")
        st.assume(z3.And(groups.length >= self.min_groups, codes.length == by.length))
        st.assume(forall(i, z3.Implies(in_range(i, 0, codes.length), z3.And(codes.at(i) >= -1, codes.at(i) < groups.length)), patterns=[codes.at(i)]))
        self.calls.append((by, groups, codes))
        return (IndexRec(groups), codes)


def callee_ravel(ex, st, args, kwargs, node):
    """call-site use of the contract of _ravel_factorized proved above"""
    c = ravel_contract(len(args))
    env = {"factorized": tuple(args), "grp_shape": tuple(kwargs["grp_shape"])}
    for r in c.requires(ex, env):
        ex.oblige(st, r, ex._name("pre._ravel_factorized", node), "requires of _ravel_factorized: every grouper has at least one group, codes aligned and within [-1, n)")
    res = sym_seq(f"raveled_{fresh('r').decl().name()}")
    st.assume(res.length == args[0].length)
    for _, f in c.ensures(ex, {"__entry__": env}, res):
        st.assume(f)
    return res


def factorize_contract(nby, fastpath):
    fs = FactorizeSingleCallee(min_groups=1 if nby > 1 else 0)

    def params(ex):
        return {"by": tuple(sym_seq(f"by{i}") for i in range(nby)), "axes": (0,), "expected_groups": None, "reindex": False, "sort": True, "fastpath": fastpath}

    def requires(ex, env):
        n = env["by"][0].length
        return [n >= 0] + [b.length == n for b in env["by"]]

    def ensures(ex, env, res):
        if len(fs.calls) != nby:
            return [("one_factorization_per_grouper", z3.BoolVal(False))]
        group_idx, found, grp_shape, ngroups, size, props = res
        codes = [c for _, _, c in fs.calls]
        ns = [g.length for _, g, _ in fs.calls]
        n = codes[0].length
        i = fresh("i")
        missing = lambda t: z3.Or([c.at(t) == -1 for c in codes])
        key = (lambda t: codes[0].at(t)) if nby == 1 else (lambda t: codes[0].at(t) * ns[1] + codes[1].at(t))
        total = ns[0] if nby == 1 else ns[0] * ns[1]
        cl = [
            ("one_axis_per_grouper", z3.And([z3.BoolVal(len(grp_shape) == nby)] + [grp_shape[k_] == ns[k_] for k_ in range(min(nby, len(grp_shape)))])),
            ("number_of_groups_is_the_product", ngroups == total),
            ("found_groups_handed_on_in_order", z3.BoolVal(len(found) == nby and all(f.labels is g for f, (_, g, _) in zip(found, fs.calls)))),
            ("codes_aligned_with_the_labels", group_idx.length == n),
            ("tuple_key_for_elements_with_all_labels_valid", forall(i, z3.Implies(z3.And(in_range(i, 0, n), z3.Not(missing(i))), group_idx.at(i) == key(i)))),
        ]
        if fastpath:
            cl += [("missing_elements_keep_minus_one", forall(i, z3.Implies(z3.And(in_range(i, 0, n), missing(i)), group_idx.at(i) == -1))),
                   ("size_is_number_of_groups", size == total), ("no_props", z3.BoolVal(props is None))]
        else:
            any_missing = z3.Exists([i], z3.And(in_range(i, 0, n), missing(i)))
            off, sentinel, nanmask = props
            cl += [("missing_elements_go_to_the_sentinel_slot", forall(i, z3.Implies(z3.And(in_range(i, 0, n), missing(i)), group_idx.at(i) == total))),
                   ("sentinel_is_one_past_the_groups", z3.And(sentinel == total, z3.BoolVal(off is False))),
                   ("size_has_room_for_the_sentinel_iff_something_is_missing", z3.And(z3.Implies(any_missing, size == total + 1), z3.Implies(z3.Not(any_missing), size == total))),
                   ("nanmask_marks_exactly_the_missing_elements", z3.And(nanmask.length == n, forall(i, z3.Implies(in_range(i, 0, n), nanmask.at(i) == missing(i)))))]
        return cl

    def req2(ex, env):
        return requires(ex, env)

    c = Contract(qualname="factorize_", file="flox/core.py", prefix=f"C07.factorize_.nby{nby}.{'fastpath' if fastpath else 'props'}", params=params, requires=req2, ensures=ensures, serves=("C07", "C05", "C16"),
                 assumed=("_factorize_single on the pandas.factorize branch: codes in [-1, number of groups found)", "1-D label arrays (n-D labels are flattened by the caller or offset by offset_labels, proved separately)",
                          "for two groupers every grouper found at least one group (numpy.ravel_multi_index raises ValueError otherwise)"))
    callees = {"_factorize_single": fs, "_ravel_factorized": callee_ravel, "FactorProps": lambda ex, st, a, k, n: tuple(a)}
    c.search = search_factorize(nby, fastpath)
    return c, callees, fs


def all_factorize():
    return [factorize_contract(nby, fp) for nby in (1, 2) for fp in (True, False)]


def search_factorize(nby, fastpath):
    """bounded search on the real factorize_: label arrays over {0, 1, 2, NaN} of length <= 3 (<= 2 for two groupers)"""

    def search():
        import itertools

        import numpy as np
        import pandas as pd

        from flox.core import factorize_

        nan = float("nan")
        alpha = (0.0, 1.0, 2.0, nan)
        for n in ((1, 2, 3) if nby == 1 else (1, 2)):
            for flat in itertools.product(alpha, repeat=n * nby):
                bys = [np.array(flat[k * n:(k + 1) * n]) for k in range(nby)]
                per = [pd.factorize(b, sort=True) for b in bys]
                ns = [len(u) for _, u in per]
                if nby > 1 and min(ns) == 0:
                    continue
                total = int(np.prod(ns))
                missing = np.zeros(n, dtype=bool)
                for c, _ in per:
                    missing |= c == -1
                key = per[0][0] if nby == 1 else per[0][0] * ns[1] + per[1][0]
                try:
                    gi, found, shape, ngroups, size, props = factorize_(tuple(b.copy() for b in bys), axes=(0,), fastpath=fastpath)
                except Exception as e:
                    return {"by": [b.tolist() for b in bys], "fastpath": fastpath}, f"raised {type(e).__name__}: {e}"
                bad = []
                if tuple(shape) != tuple(ns) or ngroups != total:
                    bad.append("number_of_groups_is_the_product")
                exp = np.where(missing, -1 if fastpath else total, key)
                if not np.array_equal(np.asarray(gi), exp):
                    bad.append("tuple_key / missing slot")
                if size != total + (0 if fastpath else int(missing.any())):
                    bad.append("size")
                if not fastpath and (props.nan_sentinel != total or not np.array_equal(props.nanmask, missing)):
                    bad.append("props")
                if bad:
                    return {"by": [[("nan" if v != v else v) for v in b.tolist()] for b in bys], "fastpath": fastpath, "got": np.asarray(gi).tolist(), "expected": exp.tolist()}, f"clauses {bad}"
        return None

    return search


# ---------------------------------------------------------------------------------------------
# _convert_expected_groups_to_index(expected_groups, isbin, sort)   (C16.order, C05.order, C07.edges)
# ---------------------------------------------------------------------------------------------


class LabelsRec(Record):
    """A pandas.Index / IntervalIndex / plain array of requested labels seen as its label sequence.
    sort_values / np.sort (ASSUMED): an ascending permutation of the labels."""

    def __init__(self, kind, labels, sorted_from=None):
        super().__init__(kind, labels=labels)
        self.labels = labels
        self.sorted_from = sorted_from

    def pyvc_len(self):
        return self.labels.length

    def pyvc_getattr(self, ex, st, attr, node, prims):
        from ..pyvc.prims import Method

        return Method(self, attr)

    def sorted_copy(self, ex, st, node, kind=None):
        from ..pyvc.prims import stable_argsort

        perm = stable_argsort(ex, st, self.labels, {}, node)
        _, p, inv, _ = perm.perm_of
        out = SSeq(self.labels.length, lambda t: self.labels.at(p(t)), kind="array", name="sorted_labels")
        r = LabelsRec(kind or self.kind, out, sorted_from=(self, p, inv))
        return r

    def pyvc_method(self, ex, st, attr, args, kwargs, node, prims):
        if attr == "sort_values":
            return self.sorted_copy(ex, st, node)
        raise NotImplementedError(attr)


def convert_models(prims):
    prims.register("numpy.sort", lambda ex, st, a, k, n: a[0].sorted_copy(ex, st, n) if isinstance(a[0], LabelsRec) else (_ for _ in ()).throw(NotImplementedError("np.sort of a non-label value")))
    prims.register("pandas.IntervalIndex.from_breaks", lambda ex, st, a, k, n: LabelsRec("IntervalIndex", a[0].labels, sorted_from=("breaks_of", a[0])))


def convert_contract(kind, isbin, sort):
    """kind of the (single) entry: 'Index' | 'IntervalIndex' | 'ndarray' | 'None'"""

    def params(ex):
        entry = None if kind == "None" else LabelsRec(kind, sym_seq("requested"))
        return {"expected_groups": (entry,), "isbin": (isbin,), "sort": sort}

    def requires(ex, env):
        e = env["expected_groups"][0]
        return [] if e is None else [e.labels.length >= 0]

    def ensures(ex, env, res):
        e = env["__entry__"]["expected_groups"][0]
        cl = [("one_entry_per_grouper", z3.BoolVal(isinstance(res, tuple) and len(res) == 1))]
        if not (isinstance(res, tuple) and len(res) == 1):
            return cl
        out = res[0]
        if kind == "None":
            return cl + [("nothing_requested_stays_none", z3.BoolVal(out is None))]
        cl.append(("an_index_comes_back", z3.BoolVal(isinstance(out, LabelsRec))))
        if not isinstance(out, LabelsRec):
            return cl
        i = fresh("i")
        n = e.labels.length
        becomes_bins = kind == "IntervalIndex" or isbin  # edges (array or Index) requested as bins become contiguous intervals
        cl.append(("bins_iff_requested_as_bins", z3.BoolVal((out.kind == "IntervalIndex") == becomes_bins)))
        cl.append(("plain_labels_become_an_index", z3.BoolVal(becomes_bins or out.kind == "Index")))
        cl.append(("no_label_added_or_lost", out.labels.length == n))
        must_sort = sort and not (isbin and kind != "IntervalIndex")  # edges given as breaks are taken in the given order
        if must_sort:
            cl.append(("ascending_when_sort", forall(i, z3.Implies(in_range(i, 0, n - 1), out.labels.at(i) <= out.labels.at(i + 1)))))
            sf = out.sorted_from
            ok = isinstance(sf, tuple) and len(sf) == 3 and sf[0] is e
            cl.append(("sorted_labels_are_a_permutation_of_the_requested_ones", z3.BoolVal(ok)))
            if ok:
                _, p, inv = sf
                cl.append(("permutation_is_a_bijection", forall(i, z3.Implies(in_range(i, 0, n), z3.And(in_range(p(i), 0, n), inv(p(i)) == i, out.labels.at(i) == e.labels.at(p(i)))))))
        else:
            cl.append(("requested_order_kept", forall(i, z3.Implies(in_range(i, 0, n), out.labels.at(i) == e.labels.at(i)))))
        return cl

    def replay(cm):
        import json

        import numpy as np
        import pandas as pd

        from flox.core import _convert_expected_groups_to_index

        e = cm["expected_groups"][0]
        if e is None or not isinstance(e.get("labels"), list):
            return None, "nothing to replay"
        labels = [float(x) for x in e["labels"]]
        if kind == "IntervalIndex":
            if len(labels) < 2 or any(b <= a for a, b in zip(labels, labels[1:])):
                labels = sorted(set(labels)) or [0.0, 1.0]
                if len(labels) < 2:
                    labels = labels + [labels[-1] + 1]
            given = pd.IntervalIndex.from_breaks(labels)[::-1] if len(labels) > 2 else pd.IntervalIndex.from_breaks(labels)
        elif kind == "Index":
            given = pd.Index(labels)
        else:
            given = np.array(labels)
        (out,) = _convert_expected_groups_to_index((given,), isbin=(isbin,), sort=sort)
        bad = []
        must_sort = sort and not (isbin and kind != "IntervalIndex")
        vals = list(out.left) if isinstance(out, pd.IntervalIndex) else list(out)
        src = list(given.left) if isinstance(given, pd.IntervalIndex) else list(given)
        if isinstance(out, pd.IntervalIndex) and isbin and kind != "IntervalIndex":
            return False, json.dumps({"verdict": "held", "note": "edges become bins"})
        if must_sort and any(b < a for a, b in zip(vals, vals[1:])):
            bad.append("ascending_when_sort")
        if must_sort and sorted(vals) != sorted(src):
            bad.append("permutation")
        if not must_sort and vals != src:
            bad.append("requested_order_kept")
        return bool(bad), json.dumps({"verdict": "violated" if bad else "held", "clauses": bad, "requested": [repr(x) for x in src], "sort": sort, "returned": [repr(x) for x in vals]})

    return Contract(qualname="_convert_expected_groups_to_index", file="flox/core.py", prefix=f"C16.convert_expected.{kind}.{'bin' if isbin else 'cat'}.{'sort' if sort else 'nosort'}", params=params, requires=requires,
                    ensures=ensures, replay=replay, serves=("C16", "C05", "C07"), assumed=("Index.sort_values / np.sort: ascending permutation", "IntervalIndex.from_breaks keeps the edges in the given order", "pandas.Index constructor keeps the order"))


def all_convert():
    return [convert_contract(k, b, s) for k in ("Index", "IntervalIndex", "ndarray", "None") for b in (False, True) for s in (True, False)]


def factorize_offset_contract():
    """factorize_ with one grouper whose labels are 2-D and a single reduced axis: codes are offset per row (C08)"""
    from ..pyvc.arr2 import Arr2

    ghost = {}

    def fs(ex, st, a, k, node):
        from .finalize import IndexRec

        by = a[0]
        groups = sym_seq("found_groups")
        Cf = z3.Function("codes2d", I, I, I)
        codes = Arr2(by.rows, by.cols, lambda r, c: Cf(r, c), sort=I, name="codes")
        r, c = fresh("r"), fresh("c")
        st.assume(groups.length >= 1)
        st.assume(z3.ForAll([r, c], z3.Implies(z3.And(in_range(r, 0, by.rows), in_range(c, 0, by.cols)), z3.And(Cf(r, c) >= -1, Cf(r, c) < groups.length)), patterns=[Cf(r, c)]))
        ghost["codes"], ghost["groups"] = codes, groups
        return (IndexRec(groups), codes)

    def offset(ex, st, a, k, node):
        """call-site use of the contract of offset_labels proved above"""
        c = offset_contract()
        env = {"labels": a[0], "ngroups": a[1]}
        for r_ in c.requires(ex, env):
            ex.oblige(st, r_, ex._name("pre.offset_labels", node), "requires of offset_labels: at least one row, column and group; codes within [-1, ngroups)")
        Of = z3.Function(f"offset2d!{fresh('o').decl().name()}", I, I, I)
        off = Arr2(a[0].rows, a[0].cols, lambda r, c: Of(r, c), sort=I, name="offset")
        size = fresh("size")
        for _, f in c.ensures(ex, {"__entry__": env}, (off, size)):
            st.assume(f)
        return (off, size)

    def params(ex):
        L = z3.Function("labels2d", I, I, I)
        by = Arr2(z3.Int("rows"), z3.Int("cols"), lambda r, c: L(r, c), sort=I, name="by")
        return {"by": (by,), "axes": (1,), "expected_groups": None, "reindex": False, "sort": True, "fastpath": False}

    def requires(ex, env):
        by = env["by"][0]
        return [by.rows >= 1, by.cols >= 1]

    def ensures(ex, env, res):
        if "codes" not in ghost:
            return [("one_factorization", z3.BoolVal(False))]
        group_idx, found, grp_shape, ngroups, size, props = res
        codes, ng = ghost["codes"], ghost["groups"].length
        by = env["__entry__"]["by"][0]
        r, c = fresh("r"), fresh("c")
        inb = z3.And(in_range(r, 0, by.rows), in_range(c, 0, by.cols))
        total = by.rows * ng
        off, sentinel, nanmask = props
        any_missing = z3.Exists([r, c], z3.And(inb, codes.at(r, c) == -1))
        return [
            ("number_of_groups", z3.And(ngroups == ng, z3.BoolVal(len(grp_shape) == 1), grp_shape[0] == ng)),
            ("codes_offset_by_their_row", z3.ForAll([r, c], z3.Implies(z3.And(inb, codes.at(r, c) != -1), group_idx.at(r, c) == r * ng + codes.at(r, c)))),
            ("missing_elements_go_to_the_sentinel_slot_past_all_rows", z3.ForAll([r, c], z3.Implies(z3.And(inb, codes.at(r, c) == -1), group_idx.at(r, c) == total))),
            ("sentinel_is_rows_times_groups_and_offsetting_is_announced", z3.And(sentinel == total, z3.BoolVal(off is True))),
            ("size_has_room_for_the_sentinel_iff_something_is_missing", z3.And(z3.Implies(any_missing, size == total + 1), z3.Implies(z3.Not(any_missing), size == total))),
            ("nanmask_marks_exactly_the_missing_elements", z3.ForAll([r, c], z3.Implies(inb, nanmask.at(r, c) == (codes.at(r, c) == -1)))),
        ]

    c = Contract(qualname="factorize_", file="flox/core.py", prefix="C08.factorize_.offset", params=params, requires=requires, ensures=ensures, serves=("C08", "C05"),
                 assumed=("_factorize_single returns codes shaped like the labels, in [-1, number of groups found), at least one group found", "ndarray.reshape to the own shape is the identity"))
    callees = {"_factorize_single": fs, "offset_labels": offset, "FactorProps": lambda ex, st, a, k, n: tuple(a)}
    return c, callees
