"""Sidecar contracts for the sort-and-reduceat kernels of flox/aggregate_flox.py (C01, C20):
_prepare_for_flox, _np_grouped_op (+ the module bindings sum/prod/max/min), _nan_grouped_op."""

from __future__ import annotations

import z3

from ..pyvc import valsort as V
from ..pyvc.engine import B, Contract, I, SSeq, forall, fresh, in_range, to_z3
from ..pyvc.prims import Unsupported, nonzero_of


def sym_seq(name, sort=I, kind="array"):
    arr = z3.Const(name + "_arr", z3.ArraySort(I, sort))
    return SSeq(z3.Int(name + "_len"), lambda i, arr=arr: z3.Select(arr, i), kind=kind, elem_sort=sort, name=name)


# ---------------------------------------------------------------------------------------------
# _prepare_for_flox(group_idx, array): a stable sorting permutation
# ---------------------------------------------------------------------------------------------


def prep_contract():
    def params(ex):
        return {"group_idx": sym_seq("group_idx"), "array": sym_seq("array", V.Val)}

    def requires(ex, env):
        return [env["group_idx"].length == env["array"].length, env["array"].length >= 0]

    def ensures(ex, env, res):
        e = env["__entry__"]
        gi, a = e["group_idx"], e["array"]
        ogi, oa, perm = res
        n = gi.length
        i, j = fresh("i"), fresh("j")
        out = [
            ("lengths", z3.And(ogi.length == n, oa.length == n)),
            ("sorted", forall(i, z3.Implies(in_range(i, 0, n - 1), ogi.at(i) <= ogi.at(i + 1)))),
        ]
        if isinstance(perm, SSeq):
            p = perm
            out += [
                ("perm_in_range", forall(i, z3.Implies(in_range(i, 0, n), in_range(p.at(i), 0, n)))),
                ("same_pairs", forall(i, z3.Implies(in_range(i, 0, n), z3.And(ogi.at(i) == gi.at(p.at(i)), oa.at(i) == a.at(p.at(i)))))),
                ("perm_injective", z3.ForAll([i, j], z3.Implies(z3.And(in_range(i, 0, n), in_range(j, 0, n), i != j), p.at(i) != p.at(j)))),
                ("stable", forall(i, z3.Implies(z3.And(in_range(i, 0, n - 1), ogi.at(i) == ogi.at(i + 1)), p.at(i) < p.at(i + 1)))),
            ]
        else:
            out += [("identity_when_sorted", forall(i, z3.Implies(in_range(i, 0, n), z3.And(ogi.at(i) == gi.at(i), oa.at(i) == a.at(i)))))]
        return out

    return Contract(qualname="_prepare_for_flox", file="flox/aggregate_flox.py", prefix="C01.prepare_for_flox", params=params, requires=requires, ensures=ensures, serves=("C01", "C06", "C10", "C18"),
                    assumed=("ndarray.argsort(kind='stable'): sorting permutation, ties in original order", "fancy indexing a[..., perm]"))


# ---------------------------------------------------------------------------------------------
# _np_grouped_op(group_idx, array, op, axis=-1, size=None, fill_value=None, dtype=None, out=None, **kwargs)
# ---------------------------------------------------------------------------------------------


class ReduceAt:
    """ufunc.reduceat(array, starts) (ASSUMED): out[j] = fold of the ufunc over array[starts[j] : starts[j+1]] (the last
    segment runs to the end).  F(lo, hi) is the fold over the half-open index range, defined by its unfolding."""

    def __init__(self, name, op2):
        self.name, self.op2 = name, op2
        self.F = None
        self.last = None

    def fold(self, ex, array):
        if self.F is None:
            self.F = z3.Function(f"fold_{self.name}!{fresh('f').decl().name()}", I, I, array.elem_sort)
            lo, hi = fresh("lo"), fresh("hi")
            F = self.F
            ex.axioms.append(forall(lo, F(lo, lo + 1) == array.at(lo), patterns=[F(lo, lo + 1)]))
            ex.axioms.append(z3.ForAll([lo, hi], z3.Implies(hi > lo, F(lo, hi + 1) == self.op2(F(lo, hi), array.at(hi))), patterns=[F(lo, hi + 1)]))
        return self.F

    def pyvc_call(self, ex, st, args, kwargs, node, prims):
        array, starts = args[0], args[1]
        n, m = array.length, starts.length
        j = fresh("j")
        ex.oblige(st, forall(j, z3.Implies(in_range(j, 0, m), in_range(starts.at(j), 0, n))), ex._name("reduceat", node), f"line {node.lineno}: reduceat start indices are valid positions of the array")
        ex.oblige(st, forall(j, z3.Implies(in_range(j, 0, m - 1), starts.at(j) < starts.at(j + 1))), ex._name("reduceat", node), f"line {node.lineno}: reduceat start indices are strictly increasing (each segment is a non-empty run)")
        F = self.fold(ex, array)
        self.last = (array, starts)
        res = SSeq(m, lambda t: F(starts.fn(t), z3.If(t + 1 < m, starts.fn(t + 1), n)), kind="array", elem_sort=array.elem_sort, name="reduced")
        out = kwargs.get("out")
        if out is not None:
            ex.oblige(st, out.length == m, ex._name("reduceat", node), f"line {node.lineno}: the out= buffer has one slot per segment")
            prims.rebind(ex, st, out, SSeq(m, res.fn, kind="array", elem_sort=out.elem_sort, name=out.name), node)
            return None
        return res


def v_add(a, b):
    from ..proofs.c04_proofs import v_add as f

    return f(a, b)


def v_max(a, b):
    from ..proofs.c04_proofs import v_max as f

    return f(a, b)


def grouped_op_contract(size_given, opname="sum"):
    opfn = {"sum": v_add, "max": v_max}[opname]

    def params(ex):
        ra = ReduceAt(opname, opfn)
        return {
            "group_idx": sym_seq("group_idx"), "array": sym_seq("array", V.Val), "op": ra, "axis": -1,
            "size": z3.Int("size") if size_given else None, "fill_value": z3.Const("fill", V.Val), "dtype": None, "out": None, "kwargs": {},
        }

    def requires(ex, env):
        gi, a = env["group_idx"], env["array"]
        i = fresh("i")
        out = [gi.length == a.length, gi.length >= 1,
               forall(i, z3.Implies(in_range(i, 0, gi.length), gi.at(i) >= 0)),
               forall(i, z3.Implies(in_range(i, 0, gi.length - 1), gi.at(i) <= gi.at(i + 1)))]  # sorted by _prepare_for_flox
        if size_given:
            # every code fits: callers pass size = number of slots (chunk_reduce) ...
            out.append(forall(i, z3.Implies(in_range(i, 0, gi.length), gi.at(i) < env["size"])))
        return out

    def lemmas(ex, env):
        gi = env["group_idx"]
        k = fresh("k")
        # SORTED_FROM_ZERO: every element is >= the first one (needed for "uniques strictly increasing => distinct")
        return [dict(name="sorted_ge_first", k=k, lo=0, hi=gi.length - 1, prop=lambda t: gi.at(t) >= gi.at(0))]

    def ensures(ex, env, res):
        e = env["__entry__"]
        gi, a, ra = e["group_idx"], e["array"], e["op"]
        n = gi.length
        fill = e["fill_value"]
        F = ra.fold(ex, a)
        # run starts: the positions flagged by the real code = position 0 and every position whose code differs from its left neighbour
        flag = env.get("flag")
        m, P, R = nonzero_of(ex, env["__state__"], flag)
        size = e["size"] if size_given else gi.at(P(m - 1)) + 1  # "the last run start holds the largest label" (sorted input)
        j, g = fresh("j"), fresh("g")
        nxt = lambda t: z3.If(t + 1 < m, P(t + 1), n)
        return [
            ("length", res.length == size),
            ("flag_is_run_start", forall(j, z3.Implies(in_range(j, 0, n), flag.at(j) == z3.Or(j == 0, gi.at(j) != gi.at(j - 1))))),
            # the slot of the code that starts run j holds the fold of the operator over that run, in positional order
            ("run_value", forall(j, z3.Implies(in_range(j, 0, m), res.at(gi.at(P(j))) == F(P(j), nxt(j))))),
            # codes that start no run (absent groups) keep the fill value
            ("fill_elsewhere", forall(g, z3.Implies(z3.And(in_range(g, 0, size), forall(j, z3.Implies(in_range(j, 0, m), gi.at(P(j)) != g))), res.at(g) == fill))),
        ]

    def cut_inv_idx(ex, env):
        """Facts about the run starts, proved right after `(inv_idx,) = flag.nonzero()`:
        SORTED_PAIRWISE (induction), then `uniques` strictly increasing (adjacent, then pairwise by induction)."""
        st = env["__state__"]
        gi, flag, uniques = env["group_idx"], env["flag"], env["uniques"]
        n = gi.length
        m, P, R = nonzero_of(ex, st, flag)
        i0, t = fresh("i0"), fresh("t")
        ex.prove_induction(st, name="SORTED_PAIRWISE", k=t, lo=i0, hi=n - 1, prop=lambda x: gi.at(i0) <= gi.at(x), generalize=[i0], guard=z3.And(i0 >= 0, i0 < n),
                           patterns=lambda x: [z3.MultiPattern(gi.at(i0), gi.at(x))])
        j = fresh("j")
        adj = forall(j, z3.Implies(in_range(j, 0, m - 1), uniques.at(j) < uniques.at(j + 1)))
        facts = [("uniques_adjacent_increasing", adj)]
        return facts

    def cut_after(ex, env):
        st = env["__state__"]
        uniques, flag = env["uniques"], env["flag"]
        m, P, R = nonzero_of(ex, st, flag)
        j0, t = fresh("j0"), fresh("t")
        ex.prove_induction(st, name="UNIQUES_PAIRWISE", k=t, lo=j0 + 1, hi=m - 1, prop=lambda x: uniques.at(j0) < uniques.at(x), generalize=[j0], guard=z3.And(j0 >= 0, j0 < m),
                           patterns=lambda x: [z3.MultiPattern(uniques.at(j0), uniques.at(x))])
        return []

    c = Contract(
        qualname="_np_grouped_op", file="flox/aggregate_flox.py", prefix=f"C01.np_grouped_op.{opname}.{'size' if size_given else 'nosize'}",
        params=params, requires=requires, ensures=ensures, lemmas=lemmas, serves=("C01", "C04", "C20"),
        assumed=("ufunc.reduceat (fold over consecutive segments)", "boolean-mask indexing / ndarray.nonzero (ordered positions of the true entries)", "numpy.full", "scatter store with distinct indices", "numpy.concatenate, numpy.arange"),
    )
    c.cuts = {"inv_idx": lambda ex, env: cut_inv_idx(ex, env) + cut_after_wrapper(ex, env, cut_after)}
    return c


def cut_after_wrapper(ex, env, f):
    return [("__deferred__", f)]


# ---------------------------------------------------------------------------------------------
# _nan_grouped_op(group_idx, array, func, fillna, *args, **kwargs)  (nanmax / nanmin bindings)
# ---------------------------------------------------------------------------------------------


def runs_of(ex, st, gi):
    """run starts of a sorted code array: flag[i] = (i == 0 or gi[i] != gi[i-1]); (m, P, R) = its true positions"""
    cached = getattr(gi, "_runs", None)
    if cached is None:
        flag = SSeq(gi.length, lambda i: z3.Or(i == 0, gi.fn(i) != gi.fn(i - 1)), kind="array", elem_sort=B, name="runflag")
        gi._runs = (flag,) + tuple(nonzero_of(ex, st, flag))
    return gi._runs


class GroupedOpCallee:
    """Call-site use of the contract of _np_grouped_op proved above (bindings max / min / sum of aggregate_flox)."""

    def __init__(self, name, op2):
        self.name, self.op2 = name, op2
        self.ra = ReduceAt(name + "_callee", op2)
        self.seen = None

    def pyvc_call(self, ex, st, args, kwargs, node, prims):
        gi, arr = args[0], args[1]
        size, fill = kwargs.get("size"), kwargs.get("fill_value")
        flag, m, P, R = runs_of(ex, st, gi)
        n = gi.length
        F = self.ra.fold(ex, arr)
        self.seen = (gi, arr)
        res = sym_seq(f"grouped_{self.name}_{fresh('r').decl().name()}", V.Val)
        j, g = fresh("j"), fresh("g")
        nxt = lambda t: z3.If(t + 1 < m, P(t + 1), n)
        st.assume(res.length == to_z3(size))
        st.assume(forall(j, z3.Implies(in_range(j, 0, m), res.at(gi.at(P(j))) == F(P(j), nxt(j))), patterns=[P(j)]))
        st.assume(forall(g, z3.Implies(z3.And(in_range(g, 0, to_z3(size)), forall(j, z3.Implies(in_range(j, 0, m), gi.at(P(j)) != g))), res.at(g) == fill)))
        return res


def count_fn(ex, arr):
    """C(lo, hi) = number of non-NaN elements of arr[lo:hi], by unfolding"""
    C = getattr(arr, "_count", None)
    if C is None:
        C = z3.Function(f"count_valid!{fresh('c').decl().name()}", I, I, I)
        lo, hi = fresh("lo"), fresh("hi")
        ex.axioms.append(forall(lo, C(lo, lo) == 0, patterns=[C(lo, lo)]))
        ex.axioms.append(z3.ForAll([lo, hi], z3.Implies(hi >= lo, z3.And(C(lo, hi + 1) == C(lo, hi) + z3.If(V.is_nan(arr.at(hi)), 0, 1), C(lo, hi) >= 0)), patterns=[C(lo, hi + 1)]))
        arr._count = C
    return C


def callee_nanlen(ex, st, args, kwargs, node):
    """contract of aggregate_flox.nanlen (sum of notnull over each run): counts[g] = number of non-NaN members of code g, 0 for absent codes"""
    gi, arr = args[0], args[1]
    size = kwargs.get("size")
    flag, m, P, R = runs_of(ex, st, gi)
    n = gi.length
    C = count_fn(ex, arr)
    res = sym_seq(f"counts_{fresh('n').decl().name()}", I)
    j, g = fresh("j"), fresh("g")
    nxt = lambda t: z3.If(t + 1 < m, P(t + 1), n)
    st.assume(res.length == to_z3(size))
    st.assume(forall(j, z3.Implies(in_range(j, 0, m), res.at(gi.at(P(j))) == C(P(j), nxt(j))), patterns=[P(j)]))
    st.assume(forall(g, z3.Implies(z3.And(in_range(g, 0, to_z3(size)), forall(j, z3.Implies(in_range(j, 0, m), gi.at(P(j)) != g))), res.at(g) == 0)))
    return res


def callee_isnull(ex, st, args, kwargs, node):
    x = args[0]
    return x.map(lambda v: V.is_nan(v), B) if isinstance(x, SSeq) else V.is_nan(x)


def callee_get_fill_value(ex, st, args, kwargs, node):
    from ..pyvc.prims import ModRef

    dtype, fv = args
    if isinstance(fv, ModRef) and fv.path.endswith("NINF"):
        return V.ninf  # float dtype: -inf (assumed contract of xrdtypes._get_fill_value for floating dtypes)
    if isinstance(fv, ModRef) and fv.path.endswith("INF"):
        return V.pinf
    return fv


def nan_op_contract(which):
    from ..pyvc.prims import ModRef
    from ..proofs.c04_proofs import v_max, v_min

    op2 = v_max if which == "nanmax" else v_min
    sentinel = ModRef("flox.xrdtypes.NINF" if which == "nanmax" else "flox.xrdtypes.INF")
    subst = V.ninf if which == "nanmax" else V.pinf

    def params(ex):
        return {"group_idx": sym_seq("group_idx"), "array": sym_seq("array", V.Val), "func": GroupedOpCallee("max" if which == "nanmax" else "min", op2), "fillna": sentinel,
                "args": (), "kwargs": {"axis": -1, "size": z3.Int("size"), "fill_value": z3.Const("fill", V.Val), "dtype": None}}

    def requires(ex, env):
        gi, a = env["group_idx"], env["array"]
        i = fresh("i")
        return [gi.length == a.length, gi.length >= 1, forall(i, z3.Implies(in_range(i, 0, gi.length), z3.And(gi.at(i) >= 0, gi.at(i) < env["kwargs"]["size"]))),
                forall(i, z3.Implies(in_range(i, 0, gi.length - 1), gi.at(i) <= gi.at(i + 1)))]

    def ensures(ex, env, res):
        e = env["__entry__"]
        st = env["__state__"]
        gi, a, callee = e["group_idx"], e["array"], e["func"]
        fill, size = e["kwargs"]["fill_value"], e["kwargs"]["size"]
        flag, m, P, R = runs_of(ex, st, gi)
        n = gi.length
        replaced = callee.seen[1]
        F = callee.ra.fold(ex, replaced)
        C = count_fn(ex, a)
        j, g, i = fresh("j"), fresh("g"), fresh("i")
        nxt = lambda t: z3.If(t + 1 < m, P(t + 1), n)
        return [
            ("length", res.length == size),
            ("nan_substituted", forall(i, z3.Implies(in_range(i, 0, n), replaced.at(i) == z3.If(V.is_nan(a.at(i)), subst, a.at(i))))),
            # a group with at least one valid member returns the extreme of its members, whatever that extreme is (also +-inf)
            ("extreme_kept", forall(j, z3.Implies(z3.And(in_range(j, 0, m), C(P(j), nxt(j)) > 0), res.at(gi.at(P(j))) == F(P(j), nxt(j))))),
            # a group without a valid member, and an absent group, get the fill value
            ("all_nan_filled", forall(j, z3.Implies(z3.And(in_range(j, 0, m), C(P(j), nxt(j)) == 0), res.at(gi.at(P(j))) == fill))),
            ("absent_filled", forall(g, z3.Implies(z3.And(in_range(g, 0, size), forall(j, z3.Implies(in_range(j, 0, m), gi.at(P(j)) != g))), res.at(g) == fill))),
        ]

    return Contract(
        qualname="_nan_grouped_op", file="flox/aggregate_flox.py", prefix=f"C20.nan_grouped_op.{which}", params=params, requires=requires, ensures=ensures, serves=("C20", "C01"),
        assumed=("numpy.where", "xrdtypes._get_fill_value(float dtype, NINF/INF) = -inf/+inf", "contract of _np_grouped_op (proved: C01.np_grouped_op.*) used at the call through `func`", "contract of nanlen (count of non-NaN per run)"),
    )


NAN_CALLEES = {"isnull": callee_isnull, "nanlen": callee_nanlen, "_get_fill_value": callee_get_fill_value}

CONTRACTS = {"nanmax": lambda: nan_op_contract("nanmax"), "nanmin": lambda: nan_op_contract("nanmin"), "prepare": prep_contract, "grouped_sum_size": lambda: grouped_op_contract(True, "sum"), "grouped_max_nosize": lambda: grouped_op_contract(False, "max")}


def search_kernels(names=("sum", "max", "min", "prod", "nansum", "nanmax", "nanmin", "nanprod")):
    """Bounded stand-in / counter-example finder for the flox-engine kernels: sorted codes, values over a small alphabet."""

    def search():
        import itertools
        import warnings

        import numpy as np

        from flox import aggregate_flox

        alpha = [1.0, -2.0, np.nan, np.inf, -np.inf]
        for n in (1, 2, 3):
            for codes in itertools.product(range(3), repeat=n):
                if list(codes) != sorted(codes):
                    continue
                for vals in itertools.product(alpha, repeat=n):
                    a = np.array(vals)
                    gi = np.array(codes)
                    for name in names:
                        fill = -7.0
                        with warnings.catch_warnings(), np.errstate(all="ignore"):
                            warnings.simplefilter("ignore")
                            got = getattr(aggregate_flox, name)(gi, a, size=3, fill_value=fill, axis=-1, dtype=None)
                            for g in range(3):
                                m = a[gi == g]
                                if m.size == 0:
                                    want = fill
                                elif name.startswith("nan") and name in ("nanmax", "nanmin") and np.isnan(m).all():
                                    want = fill
                                else:
                                    want = getattr(np, name)(m)
                                if not (got[g] == want or (got[g] != got[g] and want != want)):
                                    return {"kernel": name, "group_idx": list(codes), "array": [repr(v) for v in vals]}, f"aggregate_flox.{name}(codes={list(codes)}, values={list(vals)}) slot {g}: got {got[g]!r}, NumPy on the members gives {want!r}"
        return None

    return search


# ---------------------------------------------------------------------------------------------
# ffill(group_idx, array, *, axis)  - grouped forward fill on sorted codes (C10.ffill_kernel)
# ---------------------------------------------------------------------------------------------


def ffill_contract():
    """Sorted codes (the path `_prepare_for_flox` takes when the codes are already sorted: it returns its arguments and
    perm = slice(None); the unsorted path adds a stable permutation and its inverse around the same code and is covered by
    the conformance test of generic_aggregate(ffill) and the bounded part)."""

    def params(ex):
        return {"group_idx": sym_seq("group_idx"), "array": sym_seq("array", V.Val), "axis": 0, "kwargs": {}}

    def requires(ex, env):
        gi, a = env["group_idx"], env["array"]
        i = fresh("i")
        return [gi.length == a.length, gi.length >= 1, forall(i, z3.Implies(in_range(i, 0, gi.length - 1), gi.at(i) <= gi.at(i + 1)))]

    def callee_prepare(ex, st, args, kwargs, node):
        gi, a = args
        i = fresh("i")
        ex.oblige(st, z3.And(gi.length == a.length, forall(i, z3.Implies(in_range(i, 0, gi.length - 1), gi.at(i) <= gi.at(i + 1)))), ex._name("pre._prepare_for_flox.sorted", node),
                  "this contract covers the path of _prepare_for_flox for codes that are already sorted (proved contract: returns its arguments, perm = slice(None))")
        return (gi, a, slice(None, None))

    def run_start(gi, j):
        return z3.Or(j == 0, gi.at(j) != gi.at(j - 1))

    def cut_idx(ex, env):
        """after the running maximum: lemmas by induction over positions"""
        st = env["__state__"]
        idx, gi, a = env["idx"], env["group_idx"], env["array"]
        if not hasattr(idx, "running_max_of"):
            return []
        x, M = idx.running_max_of
        n = a.length
        masked = lambda j: z3.And(V.is_nan(a.at(j)), z3.Not(run_start(gi, j)))
        t, j = fresh("t"), fresh("j")
        ex.prove_induction(st, name="SOURCE_IN_RANGE", k=t, lo=0, hi=n - 1, prop=lambda u: z3.And(M(u) >= 0, M(u) <= u), patterns=lambda u: [M(u)])
        ex.prove_induction(st, name="SOURCE_IS_VALID_OR_RUN_START", k=t, lo=0, hi=n - 1, prop=lambda u: z3.Not(masked(M(u))), patterns=lambda u: [M(u)])
        ex.prove_induction(st, name="SOURCE_IN_THE_SAME_RUN", k=t, lo=0, hi=n - 1, prop=lambda u: gi.at(M(u)) == gi.at(u), patterns=lambda u: [M(u)])
        ex.prove_induction(st, name="EVERYTHING_AFTER_THE_SOURCE_IS_MASKED", k=t, lo=0, hi=n - 1, prop=lambda u: forall(j, z3.Implies(z3.And(j > M(u), j <= u), masked(j))), patterns=lambda u: [M(u)])
        return []

    def ensures(ex, env, res):
        from .scan import ffill_spec

        e = env["__entry__"]
        gi, a = e["group_idx"], e["array"]
        cl = [("aligned_with_the_input", res.length == a.length)]
        cl += ffill_spec(gi, a, res)
        return cl

    def lemmas(ex, env):
        gi = env["group_idx"]
        i0, t = fresh("i0"), fresh("t")
        n = gi.length
        return [dict(name="SORTED_PAIRWISE", k=t, lo=i0, hi=n - 1, prop=lambda x: gi.at(i0) <= gi.at(x), generalize=[i0], guard=z3.And(i0 >= 0, i0 < n), patterns=lambda x: [z3.MultiPattern(gi.at(i0), gi.at(x))])]

    c = Contract(qualname="ffill", file="flox/aggregate_flox.py", prefix="C10.ffill_kernel.sorted", params=params, requires=requires, ensures=ensures, lemmas=lemmas, serves=("C10",),
                 assumed=("np.maximum.accumulate is the running maximum", "ndarray.nonzero / scatter store of a scalar / np.where / np.arange", "1-D view of the filled axis"))
    c.cuts = {"idx@out": cut_idx}
    c.replay = replay_ffill
    c.search = search_ffill
    callees = {"_prepare_for_flox": callee_prepare, "isnull": callee_isnull}
    return c, callees


def _ffill_reference(codes, vals):
    out, seen = [], {}
    for g, v in zip(codes, vals):
        if v == v:
            seen[g] = v
        out.append(seen.get(g, float("nan")))
    return out


def _ffill_check(codes, vals):
    import numpy as np

    from flox.aggregate_flox import ffill

    got = ffill(np.array(codes, dtype="int64"), np.array(vals, dtype="float64"), axis=0)
    exp = _ffill_reference(codes, vals)
    ok = len(got) == len(exp) and all((a == b) or (a != a and b != b) for a, b in zip(np.asarray(got).tolist(), exp))
    return ok, np.asarray(got).tolist(), exp


def replay_ffill(cm):
    import json

    from .finalize import _val_to_float

    codes = [int(c) for c in cm["group_idx"]]
    vals = [_val_to_float(v) for v in cm["array"]]
    if len(codes) != len(vals) or not codes or any(a > b for a, b in zip(codes, codes[1:])):
        return None, "outside the precondition (sorted codes, aligned, non-empty)"
    ok, got, exp = _ffill_check(codes, vals)
    return (not ok), json.dumps({"verdict": "held" if ok else "violated", "input": {"codes": codes, "values": [repr(v) for v in vals]}, "got": [repr(v) for v in got], "expected": [repr(v) for v in exp]})


def search_ffill():
    import itertools

    nan = float("nan")
    for n in (1, 2, 3, 4):
        for codes in itertools.combinations_with_replacement((0, 1, 2), n):  # sorted code sequences
            for vals in itertools.product((1.0, nan, 2.0), repeat=n):
                try:
                    ok, got, exp = _ffill_check(list(codes), list(vals))
                except Exception as e:
                    return {"group_idx": list(codes), "array": [repr(v) for v in vals]}, f"raised {type(e).__name__}: {e}"
                if not ok:
                    return {"group_idx": list(codes), "array": [repr(v) for v in vals]}, f"got {got} expected {exp}"
    return None


def ffill_unsorted_contract():
    """ffill for codes in any order: the stable sorting permutation around the sorted kernel and its inverse at the end.
    `_prepare_for_flox` enters through its proved contract (else-branch: perm is an index array; for sorted codes the
    stable permutation is the identity, so this also describes that case up to the `isinstance(perm, slice)` shortcut)."""
    from ..pyvc.prims import stable_argsort

    ghost = {}

    def params(ex):
        ghost.clear()
        return {"group_idx": sym_seq("group_idx"), "array": sym_seq("array", V.Val), "axis": 0, "kwargs": {}}

    def requires(ex, env):
        return [env["group_idx"].length == env["array"].length, env["group_idx"].length >= 1]

    def callee_prepare(ex, st, args, kwargs, node):
        from ..pyvc.engine import State

        gi, a = args
        n = gi.length
        # opaque / reveal: the facts about the permutation are kept out of the path condition while the lemmas about the
        # sorted kernel are proved (they only distract the solver there) and are revealed where the inverse is taken
        hidden = State()
        perm = stable_argsort(ex, hidden, gi, {"kind": "stable"}, node)
        _, p, inv, _ = perm.perm_of
        st_main, st = st, st.fork()
        for f in hidden.pc:
            st.assume(f)
        # the sorted arrays as sequences of their own, tied to the originals by their defining equations
        # (keeps the lemmas about the sorted kernel free of the permutation)
        ogi, oa = sym_seq("sorted_codes"), sym_seq("sorted_values", V.Val)
        k_ = fresh("k")
        st.assume(z3.And(ogi.length == n, oa.length == n))
        st.assume(forall(k_, z3.Implies(in_range(k_, 0, n), ogi.at(k_) == gi.at(p(k_))), patterns=[ogi.at(k_)]))
        st.assume(forall(k_, z3.Implies(in_range(k_, 0, n), oa.at(k_) == a.at(p(k_))), patterns=[oa.at(k_)]))
        sorted_adj = forall(k_, z3.Implies(in_range(k_, 0, n - 1), ogi.at(k_) <= ogi.at(k_ + 1)))
        if ex.oblige(st, sorted_adj, ex._name("lemma.sorted_codes_adjacent", node), "the permuted codes are sorted (from the contract of the stable argsort)"):
            st.assume(sorted_adj)
        stable_adj = forall(k_, z3.Implies(z3.And(in_range(k_, 0, n - 1), ogi.at(k_) == ogi.at(k_ + 1)), p(k_) < p(k_ + 1)))
        if ex.oblige(st, stable_adj, ex._name("lemma.stable_adjacent", node), "equal neighbouring codes keep their original order (stability)"):
            st.assume(stable_adj)
        # only the derived facts go to the main state now
        defs = [z3.And(ogi.length == n, oa.length == n),
                forall(k_, z3.Implies(in_range(k_, 0, n), ogi.at(k_) == gi.at(p(k_))), patterns=[ogi.at(k_)]),
                forall(k_, z3.Implies(in_range(k_, 0, n), oa.at(k_) == a.at(p(k_))), patterns=[oa.at(k_)])]
        t = fresh("t")
        reveal = list(hidden.pc) + defs[1:] + [
            # triggers from the original arrays to the inverse permutation (every original position is some sorted position)
            forall(t, z3.Implies(in_range(t, 0, n), z3.And(in_range(inv(t), 0, n), p(inv(t)) == t)), patterns=[a.at(t)]),
            forall(t, z3.Implies(in_range(t, 0, n), z3.And(in_range(inv(t), 0, n), p(inv(t)) == t)), patterns=[gi.at(t)])]
        st = st_main
        st.assume(defs[0])
        st.assume(sorted_adj)
        st.assume(stable_adj)
        ghost.update(gi=gi, a=a, p=p, inv=inv, ogi=ogi, oa=oa, n=n, reveal=reveal)
        # lemmas about the sorted codes
        i0, x = fresh("i0"), fresh("x")
        ex.prove_induction(st, name="SORTED_PAIRWISE", k=x, lo=i0, hi=n - 1, prop=lambda u: ogi.at(i0) <= ogi.at(u), generalize=[i0], guard=z3.And(i0 >= 0, i0 < n), patterns=lambda u: [z3.MultiPattern(ogi.at(i0), ogi.at(u))])
        ex.prove_induction(st, name="STABLE_PAIRWISE", k=x, lo=i0, hi=n - 1, prop=lambda u: z3.Implies(z3.And(u > i0, ogi.at(i0) == ogi.at(u)), p(i0) < p(u)), generalize=[i0], guard=z3.And(i0 >= 0, i0 < n),
                           patterns=lambda u: [z3.MultiPattern(p(i0), p(u))])
        return (ogi, oa, perm)

    def argsort_model(ex, st, a, k, node):
        """np.argsort(perm, kind='stable') of the sorting permutation: lemma INVERSE (two inductions): perm[q[t]] == t"""
        perm = a[0]
        for f in ghost.pop("reveal", []):
            st.assume(f)
        q = stable_argsort(ex, st, perm, {"kind": k.get("kind")}, node)
        _, qf, qinv, _ = q.perm_of
        p, n = ghost["p"], ghost["n"]
        t = fresh("t")
        f = lambda u: p(qf(u))
        ex.prove_induction(st, name="INVERSE_LOWER", k=t, lo=0, hi=n - 1, prop=lambda u: f(u) >= u, patterns=lambda u: [qf(u)])
        ex.prove_induction(st, name="INVERSE_UPPER", k=t, lo=0, hi=n - 1, prop=lambda u: f(u) <= u, direction="down", patterns=lambda u: [qf(u)])
        ghost["q"] = qf
        return q

    def run_start(gi, j):
        return z3.Or(j == 0, gi.at(j) != gi.at(j - 1))

    def cut_idx(ex, env):
        st = env["__state__"]
        idx, gi, a = env["idx"], env["group_idx"], env["array"]
        if not hasattr(idx, "running_max_of"):
            return []
        x, M = idx.running_max_of
        n = a.length
        masked = lambda j: z3.And(V.is_nan(a.at(j)), z3.Not(run_start(gi, j)))
        t, j = fresh("t"), fresh("j")
        ex.prove_induction(st, name="SOURCE_IN_RANGE", k=t, lo=0, hi=n - 1, prop=lambda u: z3.And(M(u) >= 0, M(u) <= u), patterns=lambda u: [M(u)])
        ex.prove_induction(st, name="SOURCE_IS_VALID_OR_RUN_START", k=t, lo=0, hi=n - 1, prop=lambda u: z3.Not(masked(M(u))), patterns=lambda u: [M(u)])
        ex.prove_induction(st, name="SOURCE_IN_THE_SAME_RUN", k=t, lo=0, hi=n - 1, prop=lambda u: gi.at(M(u)) == gi.at(u), patterns=lambda u: [M(u)])
        ex.prove_induction(st, name="EVERYTHING_AFTER_THE_SOURCE_IS_MASKED", k=t, lo=0, hi=n - 1, prop=lambda u: forall(j, z3.Implies(z3.And(j > M(u), j <= u), masked(j))), patterns=lambda u: [M(u)])
        ghost["M"] = M
        return []

    def ensures(ex, env, res):
        from .scan import ffill_spec

        e = env["__entry__"]
        gi, a = e["group_idx"], e["array"]
        cl = [("aligned_with_the_input", res.length == a.length)]
        if "M" in ghost and "q" in ghost:
            # intermediate clauses (chained): the sorted kernel's output meets the specification on the sorted arrays,
            # and the result is that output read through the inverse permutation
            M, q, ogi, oa, p, n = ghost["M"], ghost["q"], ghost["ogi"], ghost["oa"], ghost["p"], ghost["n"]
            Fs = SSeq(n, lambda i: oa.at(M(i)), kind="array", elem_sort=V.Val, name="filled_sorted")
            cl += [("sorted." + nm, f) for nm, f in ffill_spec(ogi, oa, Fs)]
            t = fresh("t")
            cl.append(("result_is_the_sorted_output_read_through_the_inverse_permutation", forall(t, z3.Implies(in_range(t, 0, n), z3.And(in_range(q(t), 0, n), p(q(t)) == t, res.at(t) == Fs.at(q(t)))))))
        cl += ffill_spec(gi, a, res)
        return cl

    c = Contract(qualname="ffill", file="flox/aggregate_flox.py", prefix="C10.ffill_kernel.any_order", params=params, requires=requires, ensures=ensures, serves=("C10",),
                 assumed=("np.maximum.accumulate is the running maximum", "ndarray.argsort(kind='stable')", "ndarray.nonzero / scatter store of a scalar / np.where / np.arange", "1-D view of the filled axis",
                          "_prepare_for_flox through its proved contract (stable sorting permutation)"))
    c.cuts = {"idx@out": cut_idx}
    c.chain_ensures = True
    c.replay = None
    c.search = search_ffill_any
    callees = {"_prepare_for_flox": callee_prepare, "isnull": callee_isnull}
    return c, callees, argsort_model


def search_ffill_any():
    import itertools

    nan = float("nan")
    for n in (1, 2, 3, 4):
        for codes in itertools.product((0, 1, 2), repeat=n):
            for vals in itertools.product((1.0, nan, 2.0), repeat=n):
                try:
                    ok, got, exp = _ffill_check(list(codes), list(vals))
                except Exception as e:
                    return {"group_idx": list(codes), "array": [repr(v) for v in vals]}, f"raised {type(e).__name__}: {e}"
                if not ok:
                    return {"group_idx": list(codes), "array": [repr(v) for v in vals]}, f"got {got} expected {exp}"
    return None
