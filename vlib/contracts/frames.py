"""Sidecar frame contracts: `modifies` clauses, summary overrides and reviewed exemptions for FrameCheck."""

from ..framecheck.frames import FRESH_ARRAY

# function -> parameters it is allowed to write, with the reason (callers must then pass objects they own)
MODIFIES = {
    ("aggregate_flox", "_lerp"): {"out": "output buffer; callers pass a buffer allocated in the same task (np.empty_like / np.full) or none"},
    ("aggregate_flox", "_np_grouped_op"): {"out": "output buffer allocated by the same call (np.full) unless the caller supplies its own"},
    ("aggregate_flox", "quantile_"): {"out": "output buffer handed down by _np_grouped_op"},
    ("aggregations", "Aggregation.__init__"): {"self": "constructor"},
    ("aggregations", "reverse"): {"a": "the AlignedArrays wrapper built by groupby_scan for this call; its fields are re-bound to reversed views, the arrays themselves are not written"},
    ("core", "ReindexStrategy.set_blockwise_for_numpy"): {"self": "setter"},
    ("core", "ReindexStrategy.__post_init__"): {"self": "dataclass hook"},
    ("core", "_expand_dims"): {"results": "the result dict of the block task it is composed with (toolz.compose(_expand_dims, chunk_reduce))"},
    ("core", "_postprocess_numbagg"): {"result": "the fresh result of the numbagg kernel"},
    ("core", "_reduce_blockwise"): {"agg": "idempotent: sets agg.finalize = None on the per-call deep copy of the blueprint (every task writes the same value)"},
    ("dask_array_ops", "partial_reduce"): {"dsk": "the graph dict under construction"},
    ("dask_array_ops", "_tree_reduce"): {"out_dsk": "the graph dict under construction"},
    ("xrutils", "ReprObject.__init__"): {"self": "constructor"},
    ("core", "groupby_reduce"): {"reindex": "idempotent: set_blockwise_for_numpy only turns None into True, and _validate_reindex returns a new ReindexStrategy whenever blockwise is None (obligation C19.validate_reindex.RS_None.*.post.fresh_when_unresolved)"},
}

# summaries the analysis cannot derive path-insensitively, with the reason (each is an assumption, listed in the evidence)
OVERRIDES = {
    ("aggregations", "generic_aggregate"): {
        "ret": FRESH_ARRAY,
        "why": "generic_aggregate returns its input only for func == 'identity'; no blueprint in the registry names 'identity' (checked on the real registry at every run), every other path returns the kernel's fresh result",
    },
}

# reviewed write sites the alias lattice cannot classify (xarray object semantics); each is listed as an assumption
EXEMPT = {
    ("xarray", "xarray_reduce", "actual.coords[newdim.name]"): "coords mapping of the Dataset returned by apply_ufunc (fresh result object)",
    ("xarray", "xarray_reduce", "actual[name].attrs"): "attrs of the coordinate variable just created inside the fresh result by actual[name] = expect3",
}
