"""Sidecar contract of flox.core._grouped_combine (C02.combine_protocol, C03, C06.combine): the combine step that re-groups the
concatenated intermediates, as a protocol over _conc2 / chunk_reduce / chunk_argreduce (two input blocks).

PROVED
  ordinary reductions (1 / 2 intermediates x 1 / 2 reduced axes):
  * a single block (a dict) at the final step is returned as it is;
  * with several reduced axes every block is first re-indexed to _find_unique_groups of the ORIGINAL blocks; with one axis nothing is
    re-indexed (the labels are concatenated instead);
  * the labels are the concatenation of the blocks' "groups" along the trailing axes; slot i is the concatenation of slot i of all
    blocks along `axis`, re-grouped by THOSE labels with combine function i, fill i and dtype i of the aggregation's intermediate
    blueprint, expected_groups=None (groups are whatever is found), the caller's engine and sort; the labels returned are the ones
    found by that re-grouping; an empty concatenation yields empty intermediates and labels instead of a kernel call;
  arg-reductions (with / without the nanlen counter):
  * values and positions (slots 0 and 1) are concatenated and re-grouped TOGETHER by one chunk_argreduce call with the combine
    functions / fills / dtypes of the value-position pair only (the counter is sliced off), unless there is a single element along
    the axis, in which case they are passed through; the counter (slot 2) is summed per label by a separate chunk_reduce("sum",
    fill 0, platform integer) over the same labels - or passed through likewise - and appended last.
ASSUMED: _conc2, _find_unique_groups (proved: C12), reindex_intermediates (proved: C02), chunk_reduce / chunk_argreduce (C05 / C06
contracts); dask.utils.deepmap applies to every block.
"""

from __future__ import annotations

import z3

from ..pyvc.engine import Contract
from ..pyvc.prims import Method, ModRef, Opaque, Record


class Blk(Record):
    def __init__(self, name, origin=None, reindexed_to=None):
        super().__init__("IntermediateDict")
        self.name, self.origin, self.reindexed_to = name, origin, reindexed_to


class Arr(Record):
    def __init__(self, what, nax, **info):
        super().__init__("ndarray")
        self.what, self.info = what, info
        self.sizes = tuple(z3.Int(f"{what}_{info.get('key2', 'g')}_n{d}") for d in range(3))
        self.dtype = Opaque("dtype-of-" + what)

    def pyvc_getattr(self, ex, st, attr, node, prims):
        if attr == "shape":
            return self.sizes
        if attr == "dtype":
            return self.dtype
        return Method(self, attr)


def grouped_combine_contract(kind, ncombine, nax):
    """kind: 'reduce' | 'arg' | 'arg_nanlen' | 'single_block'"""
    g = {}
    axis = (2,) if nax == 1 else (1, 2)

    def params(ex):
        g.clear()
        blocks = [Blk("b0"), Blk("b1")]
        is_arg = kind.startswith("arg")
        if is_arg:
            combine = ("max", "argmax") + (("sum",) if kind == "arg_nanlen" else ())
            chunk = ("max", "argmax") + (("nanlen",) if kind == "arg_nanlen" else ())
        else:
            combine = tuple(f"combine{i}" for i in range(ncombine))
            chunk = tuple(f"chunk{i}" for i in range(ncombine))
        n = len(combine)
        agg = Record("Aggregation", name="agg", combine=combine, chunk=chunk, reduction_type="argreduce" if is_arg else "reduce",
                     fill_value={"intermediate": tuple(Opaque(f"fill{i}") for i in range(n))}, dtype={"intermediate": tuple(Opaque(f"dtype{i}") for i in range(n)), "user": Opaque("user-dtype")})
        g.update(blocks=blocks, agg=agg)
        x = {"groups": Opaque("g"), "intermediates": []} if kind == "single_block" else blocks
        g["x"] = x
        return {"x_chunk": x, "agg": agg, "axis": axis, "keepdims": True, "engine": Opaque("engine"), "is_aggregate": False, "sort": Opaque("sort")}

    def c_find_unique(ex, st, a, k, node):
        u = Opaque("unique_groups")
        st.ghost["unique_of"] = tuple(a[0])
        st.ghost["unique"] = u
        return u

    def c_reindex_intermediates(ex, st, a, k, node):
        out = Blk(a[0].name + "'", origin=a[0], reindexed_to=k.get("unique_groups"))
        st.ghost["reindexed"] = st.ghost.get("reindexed", ()) + ((a[0], dict(k), out),)
        return out

    def c_conc2(ex, st, a, k, node):
        key1 = a[1] if len(a) > 1 else k.get("key1")
        out = Arr("conc", nax, blocks=list(a[0]), key1=key1, key2=k.get("key2", "all"), axis=k.get("axis"))
        st.ghost["concs"] = st.ghost.get("concs", ()) + (out,)
        return out

    def c_chunk_reduce(ex, st, a, k, node):
        nred = len(st.ghost.get("reduces", ()))
        out = {"groups": Opaque(f"found_groups{nred}"), "intermediates": [Opaque(f"regrouped{nred}")]}
        st.ghost["reduces"] = st.ghost.get("reduces", ()) + ((list(a), dict(k), out),)
        return out

    def c_chunk_argreduce(ex, st, a, k, node):
        out = {"groups": Opaque("found_groups_arg"), "intermediates": [Opaque("regrouped_values"), Opaque("regrouped_positions")]}
        st.ghost["argreduces"] = st.ghost.get("argreduces", ()) + ((list(a), dict(k), out),)
        return out

    def models(prims):
        def deepmap(ex, st, a, k, node):
            f, xs = a
            out = []
            for x in xs:
                (s2, v), = prims.call(ex, st, f, [x], {}, node)
                out.append(v)
            return out

        def np_empty(ex, st, a, k, node):
            out = Arr("empty", nax, shape=k.get("shape"), dtype_arg=k.get("dtype"))
            st.ghost["empties"] = st.ghost.get("empties", ()) + (out,)
            return out

        prims.register("dask.utils.deepmap", deepmap)
        prims.register("numpy.empty", np_empty)
        prims.register("builtins.slice", lambda ex, st, a, k, n: slice(*a))

    def ensures(ex, env, res):
        blocks, agg = g["blocks"], g["agg"]
        e = env["__entry__"]
        gh = env["__state__"].ghost
        G = lambda key_: list(gh.get(key_, ()))
        if kind == "single_block":
            return [("a_single_block_is_returned_as_it_is", z3.BoolVal(res is g["x"] and not G("concs") and not G("reduces")))]
        cl = []
        re_ = G("reindexed")
        if nax == 1:
            cl.append(("nothing_reindexed_for_one_axis", z3.BoolVal(not re_ and "unique" not in gh)))
            used = blocks
        else:
            cl.append(("every_block_reindexed_to_the_groups_found_over_the_original_blocks", z3.BoolVal(list(gh.get("unique_of", ())) == blocks and [r[0] for r in re_] == blocks and all(r[1].get("unique_groups") is gh.get("unique") and r[1].get("agg") is agg for r in re_))))
            used = [r[2] for r in re_]
        concs = G("concs")
        lab = [c for c in concs if c.info["key1"] == "groups"]
        neg = tuple(range(-nax, 0))
        cl.append(("labels_concatenated_over_all_blocks_along_the_trailing_axes", z3.BoolVal(len(lab) == 1 and list(lab[0].info["blocks"]) == list(used) and tuple(lab[0].info["axis"]) == neg)))
        if len(lab) != 1:
            return cl
        labels = lab[0]
        slot = lambda i: [c for c in concs if c.info["key1"] == "intermediates" and c.info["key2"] == i]
        common = lambda kw: kw.get("axis") == axis and kw.get("expected_groups", 0) is None and kw.get("engine") is e["engine"] and kw.get("sort") is e["sort"]
        inter = list(res["intermediates"]) if isinstance(res, dict) else None
        if kind == "reduce":
            reds, emp = G("reduces"), G("empties")
            cl.append(("every_slot_concatenated_once_over_all_blocks_along_axis", z3.BoolVal(all(len(slot(i)) == 1 and list(slot(i)[0].info["blocks"]) == list(used) and tuple(slot(i)[0].info["axis"]) == axis for i in range(ncombine)))))
            slots_ok = all(len(slot(i)) == 1 for i in range(ncombine))
            if not slots_ok:
                pass
            elif reds and not emp:
                okc = len(reds) == ncombine and all(
                    r[0][0] is slot(i)[0] and r[0][1] is labels and r[1].get("func") == f"combine{i}" and r[1].get("fill_value") == (agg.fields["fill_value"]["intermediate"][i],)
                    and r[1].get("dtype") == (agg.fields["dtype"]["intermediate"][i],) and r[1].get("user_dtype") is agg.fields["dtype"]["user"] and common(r[1]) for i, r in enumerate(reds))
                cl.append(("slot_i_regrouped_by_the_concatenated_labels_with_combine_fill_dtype_i", z3.BoolVal(bool(okc))))
                cl.append(("results_are_the_regrouped_slots_in_order_and_the_labels_found", z3.BoolVal(inter == [r[2]["intermediates"][0] for r in reds] and res["groups"] is reds[-1][2]["groups"])))
            elif emp and not reds:
                cl.append(("an_empty_concatenation_yields_empty_slots_and_labels_without_a_kernel_call", z3.BoolVal(inter is not None and len(inter) == ncombine and all(x.what == "empty" for x in inter) and getattr(res["groups"], "what", "") == "empty")))
            else:
                # some slots empty, some not: shapes of the slots of one block agree along the group axis, so this mix needs
                # inconsistent inputs; what is demanded is only that every slot is served one way or the other
                cl.append(("every_slot_served", z3.BoolVal(inter is not None and len(inter) == ncombine)))
        else:
            args_ = G("argreduces")
            reds = G("reduces")
            npair = 2
            pair_ok = all(len(slot(i)) == 1 and list(slot(i)[0].info["blocks"]) == list(used) and tuple(slot(i)[0].info["axis"]) == axis for i in (0, 1))
            cl.append(("values_and_positions_concatenated_over_all_blocks_along_axis", z3.BoolVal(pair_ok)))
            if pair_ok:
                if args_:
                    (aa, ak, aout) = args_[0]
                    cl.append(("values_and_positions_regrouped_together_by_one_argreduce_over_the_labels", z3.BoolVal(
                        len(args_) == 1 and isinstance(aa[0], tuple) and len(aa[0]) == 2 and aa[0][0] is slot(0)[0] and aa[0][1] is slot(1)[0] and aa[1] is labels and tuple(ak.get("func")) == ("max", "argmax")
                        and tuple(ak.get("fill_value")) == tuple(agg.fields["fill_value"]["intermediate"][:npair]) and tuple(ak.get("dtype")) == tuple(agg.fields["dtype"]["intermediate"][:npair]) and common(ak))))
                    cl.append(("result_starts_with_the_regrouped_pair", z3.BoolVal(inter is not None and inter[:2] == aout["intermediates"])))
                else:
                    cl.append(("a_single_element_along_the_axis_is_passed_through", z3.BoolVal(inter is not None and inter[:2] == [slot(0)[0], slot(1)[0]] and res["groups"] is labels)))
                if kind == "arg_nanlen":
                    cnt = slot(2)
                    okn = len(cnt) == 1 and list(cnt[0].info["blocks"]) == list(used) and inter is not None and len(inter) == 3
                    if okn and reds:
                        (ra, rk, rout) = reds[0]
                        okn = len(reds) == 1 and ra[0] is cnt[0] and ra[1] is labels and rk.get("func") == "sum" and rk.get("fill_value") == (0,) and isinstance(rk.get("dtype"), tuple) and isinstance(rk["dtype"][0], ModRef) and rk["dtype"][0].path == "numpy.intp" and common(rk) and inter[2] is rout["intermediates"][0]
                    elif okn:
                        okn = inter[2] is cnt[0] and not args_
                    cl.append(("counter_summed_per_label_separately_and_appended_last", z3.BoolVal(bool(okn))))
                else:
                    cl.append(("no_counter_without_nanlen", z3.BoolVal(inter is not None and len(inter) == 2 and not reds)))
        return cl

    c = Contract(qualname="_grouped_combine", file="flox/core.py", prefix=f"C02.grouped_combine.{kind}.n{ncombine}.ax{nax}", params=params, ensures=ensures, serves=("C02", "C03", "C06"),
                 assumed=("_conc2 concatenates slot [key1][key2] of every block along the given axes", "_find_unique_groups (proved: C12), reindex_intermediates (proved: C02)", "chunk_reduce / chunk_argreduce: C05 / C06 contracts",
                          "dask.utils.deepmap applies to every block"))
    return c, {"_find_unique_groups": c_find_unique, "reindex_intermediates": c_reindex_intermediates, "_conc2": c_conc2, "chunk_reduce": c_chunk_reduce, "chunk_argreduce": c_chunk_argreduce}, models


def all_grouped_combine():
    out = [grouped_combine_contract("reduce", n, nax) for n in (1, 2) for nax in (1, 2)]
    out += [grouped_combine_contract("arg", 2, 1), grouped_combine_contract("arg_nanlen", 3, 1), grouped_combine_contract("single_block", 1, 1)]
    return out
