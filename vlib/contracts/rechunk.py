"""Sidecar contracts: flox.core._get_optimal_chunks_for_groups, rechunk_for_cohorts (C17, C19)."""

from __future__ import annotations

import z3

from ..pyvc.engine import Contract, I, SSeq, forall, fresh, in_range, to_z3
from ..pyvc.prims import psum


def _sym_seq(name, kind):
    arr = z3.Const(name + "_arr", z3.ArraySort(I, I))
    n = z3.Int(name + "_len")
    return SSeq.from_array(n, arr, kind=kind, name=name)


# ------------------------------------------------------------------------------------------------
# assumed contract of the in-repo helper _unique (np.sort(pd.unique(a))): sorted, duplicate-free, same value set
# ------------------------------------------------------------------------------------------------


def callee_unique(ex, st, args, kwargs, node):
    (x,) = args
    arr = z3.Const(f"uniq!{fresh('u').decl().name()}", z3.ArraySort(I, I))
    n = fresh("uniq_len")
    u = SSeq.from_array(n, arr, kind="array", name="unique")
    w = z3.Function(f"uniq_w!{fresh('w').decl().name()}", I, I)  # witness: u[j] == x[w(j)]
    pos = z3.Function(f"uniq_pos!{fresh('p').decl().name()}", I, I)  # x[i] == u[pos(i)]
    j, i = fresh("j"), fresh("i")
    st.assume(n >= 0)
    st.assume(z3.Implies(x.length > 0, n >= 1))
    st.assume(n <= x.length)
    st.assume(forall(j, z3.Implies(in_range(j, 0, n), z3.And(in_range(w(j), 0, x.length), u.at(j) == x.at(w(j)))), patterns=[u.at(j)]))
    st.assume(forall(j, z3.Implies(in_range(j, 0, n - 1), u.at(j) < u.at(j + 1))))
    st.assume(forall(i, z3.Implies(in_range(i, 0, x.length), z3.And(in_range(pos(i), 0, n), u.at(pos(i)) == x.at(i))), patterns=[x.at(i)]))
    u.unique_of = (x, w)
    return u


# ------------------------------------------------------------------------------------------------
# _get_optimal_chunks_for_groups(chunks, labels)
# ------------------------------------------------------------------------------------------------


def opt_params(ex):
    return {"chunks": _sym_seq("chunks", "tuple"), "labels": _sym_seq("labels", "array")}


def opt_requires(ex, env):
    chunks, labels = env["chunks"], env["labels"]
    i = fresh("i")
    P = psum(ex, None, chunks)
    return [
        chunks.length >= 1,
        labels.length >= 1,
        forall(i, z3.Implies(in_range(i, 0, chunks.length), chunks.at(i) >= 1)),
        P(chunks.length) == labels.length,  # the chunks are the chunks of the axis the labels run along
        forall(i, z3.Implies(in_range(i, 0, labels.length), labels.at(i) >= 0)),  # factorized codes
    ]


def opt_lemmas(ex, env):
    chunks, labels = env["chunks"], env["labels"]
    P = psum(ex, None, chunks)
    nC, n = chunks.length, labels.length
    k = fresh("k")
    j = fresh("j")
    return [
        dict(name="psum_lower", k=k, lo=0, hi=nC, prop=lambda t: P(t) >= t, patterns=lambda t: [P(t)]),
        dict(name="psum_upper", k=j, lo=0, hi=nC, prop=lambda t: P(t) <= n - nC + t, direction="down", patterns=lambda t: [P(t)]),
    ]


def _boundary_ok(labels, b):
    return labels.at(b - 1) != labels.at(b)


def opt_inv1(ex, env, k):
    a = env["newchunkidx"]
    labels = env["labels"]
    n = labels.length
    i = fresh("i")
    return [
        ("nonempty", a.length >= 1),
        ("starts_at_0", a.at(0) == 0),
        ("nonneg", forall(i, z3.Implies(in_range(i, 0, a.length), a.at(i) >= 0))),
        ("increasing", forall(i, z3.Implies(in_range(i, 0, a.length - 1), a.at(i) < a.at(i + 1)))),
        ("bounded", forall(i, z3.Implies(in_range(i, 0, a.length), a.at(i) <= n))),
        ("aligned", forall(i, z3.Implies(z3.And(in_range(i, 1, a.length), a.at(i) < n), _boundary_ok(labels, a.at(i))))),
    ]


def opt_ensures(ex, env, res):
    st = env["__state__"]
    labels = env["__entry__"]["labels"]
    chunks = env["__entry__"]["chunks"]
    n = labels.length
    i = fresh("i")
    P = psum(ex, st, res)
    return [
        ("positive", forall(i, z3.Implies(in_range(i, 0, res.length), res.at(i) >= 1))),
        ("sum", P(res.length) == n),
        # interior boundaries are P(1) .. P(len-1); indexed from 0 so that the solver's triggers match P(j+1)
        ("aligned", forall(i, z3.Implies(in_range(i, 0, res.length - 1), _boundary_ok(labels, P(i + 1))))),
    ]


def replay_opt(model):
    """Run the real function on the counter-model and evaluate the postcondition concretely."""
    import numpy as np

    from flox.core import _get_optimal_chunks_for_groups

    chunks = tuple(int(c) for c in model["chunks"])
    labels = np.array(model["labels"], dtype=np.int64)
    if len(labels) == 0 or sum(chunks) != len(labels) or any(c < 1 for c in chunks) or (labels < 0).any():
        return None, "model violates the precondition (not replayable)"
    fn = getattr(_get_optimal_chunks_for_groups, "__wrapped__", _get_optimal_chunks_for_groups)
    try:
        out = fn(chunks, labels)
    except AssertionError as e:
        return True, f"AssertionError raised on chunks={chunks} labels={labels.tolist()}"
    out = tuple(int(x) for x in out)
    bad = []
    if any(c < 1 for c in out):
        bad.append("non-positive chunk")
    if sum(out) != len(labels):
        bad.append("chunks do not sum to the axis length")
    for b in np.cumsum(out)[:-1]:
        if labels[b - 1] == labels[b]:
            bad.append(f"boundary {int(b)} splits label {int(labels[b])}")
    return (True, f"chunks={chunks} labels={labels.tolist()} -> {out}: " + "; ".join(bad)) if bad else (False, f"-> {out} satisfies the postcondition")


def opt_cut_chunkidx(ex, env):
    c, labels = env["chunkidx"], env["labels"]
    j = fresh("j")
    return [("in_range", forall(j, z3.Implies(in_range(j, 0, c.length), in_range(c.at(j), 0, labels.length)))), ("last", c.at(c.length - 1) == labels.length - 1)]


def opt_cut_lastidx(ex, env):
    l, labels = env["lastidx"], env["labels"]
    n = labels.length
    j = fresh("j")
    return [("run_end", forall(j, z3.Implies(in_range(j, 0, l.length), z3.And(in_range(l.at(j), 0, n), z3.Implies(l.at(j) + 1 < n, labels.at(l.at(j)) != labels.at(l.at(j) + 1))))))]


def opt_cut_firstidx(ex, env):
    f, labels = env["firstidx"], env["labels"]
    n = labels.length
    j = fresh("j")
    return [("run_start", forall(j, z3.Implies(in_range(j, 0, f.length), z3.And(in_range(f.at(j), 0, n), z3.Implies(f.at(j) >= 1, labels.at(f.at(j) - 1) != labels.at(f.at(j)))))))]


OPT = Contract(
    qualname="_get_optimal_chunks_for_groups", file="flox/core.py", prefix="C17.opt",
    params=opt_params, requires=opt_requires, lemmas=opt_lemmas, invariants={1: opt_inv1}, ensures=opt_ensures,
    serves=("C17", "C19"), replay=replay_opt,
    assumed=("numpy.cumsum", "numpy.diff", "numpy.arange", "numpy_groupies.aggregate(func=first|last)", "flox.core._unique (np.sort(pd.unique(.)))", "fancy indexing a[idx]"),
)
OPT.cuts = {"chunkidx": opt_cut_chunkidx, "lastidx": opt_cut_lastidx, "firstidx": opt_cut_firstidx}


def search_opt(nmax=6):
    """Bounded stand-in / counter-example finder: all (chunks, labels) with n <= nmax, labels over {0,1,2}."""
    import itertools

    from ..rtc.reduce_case import compositions

    for n in range(1, nmax + 1):
        for labels in itertools.product(range(3), repeat=n):
            for chunks in compositions(n):
                m = {"chunks": list(chunks), "labels": list(labels)}
                bad, text = replay_opt(m)
                if bad:
                    return m, text
    return None


OPT.search = search_opt


# ------------------------------------------------------------------------------------------------
# rechunk_for_cohorts(array, axis, labels, force_new_chunk_at, chunksize=None, ignore_old_chunks=False, debug=False)
# ------------------------------------------------------------------------------------------------

from ..pyvc.prims import Record, Unsupported  # noqa: E402


class DaskArrayRecord(Record):
    """Abstract dask array seen through one axis: chunks[axis] / shape[axis] / rechunk({axis: chunks})."""

    def __init__(self, chunks_axis, n):
        super().__init__("DaskArray")
        self.chunks_axis = chunks_axis
        self.n = n
        self.fields = {"chunks": _AxisIndexed(chunks_axis), "shape": _AxisIndexed(n)}

    def method(self, ex, st, attr, args, kwargs, node, prims):
        if attr == "rechunk":
            (d,) = args
            ((axis, newchunks),) = list(d.items())
            return DaskArrayRecord(newchunks, self.n)
        raise Unsupported(f"DaskArray.{attr}")


class _AxisIndexed:
    def __init__(self, v):
        self.v = v


def _patch_getitem():
    from ..pyvc import prims as P

    orig = P.Prims.getitem

    def getitem(self, ex, st, base, idx, node):
        if isinstance(base, _AxisIndexed):
            return base.v
        return orig(self, ex, st, base, idx, node)

    P.Prims.getitem = getitem


_patch_getitem()


def coh_params(ex):
    old = _sym_seq("oldchunks", "tuple")
    labels = _sym_seq("labels", "array")
    force = _sym_seq("force", "array")
    n = z3.Int("axis_len")
    return {
        "array": DaskArrayRecord(old, n), "axis": z3.Int("axis"), "labels": labels, "force_new_chunk_at": force,
        "chunksize": z3.Int("chunksize"), "ignore_old_chunks": z3.Bool("ignore_old_chunks"), "debug": False,
    }


def coh_requires(ex, env):
    arr = env["array"]
    old = arr.chunks_axis
    i = fresh("i")
    P = psum(ex, None, old)
    return [
        old.length >= 1,
        forall(i, z3.Implies(in_range(i, 0, old.length), old.at(i) >= 1)),
        P(old.length) == arr.n,  # chunks of the axis sum to its length (dask invariant)
        env["force_new_chunk_at"].length >= 0,
        env["labels"].length >= 0,
        env["chunksize"] >= 1,
    ]


def coh_lemmas(ex, env):
    old = env["array"].chunks_axis
    P = psum(ex, None, old)
    k = fresh("k")
    return [dict(name="old_psum_lower", k=k, lo=0, hi=old.length, prop=lambda t: P(t) >= t, patterns=lambda t: [P(t)])]


def _forced(ex, env, j):
    from ..pyvc.prims import seq_member

    return seq_member(ex, env["force_new_chunk_at"])(env["labels"].at(j))


def _is_oldbreak(ex, env, j):
    from ..pyvc.prims import seq_member

    return seq_member(ex, env["oldbreaks"])(j)


def _must_start(ex, env, j, ignore):
    """position j has to start a chunk: its label is forced, or (unless told to ignore them) it is an old boundary"""
    return z3.Or(_forced(ex, env, j), z3.And(z3.Not(ignore), _is_oldbreak(ex, env, j)))


def coh_inv1(ex, env, k):
    div = env["divisions"]
    ign = env["ignore_old_chunks"]
    i, j = fresh("i"), fresh("j")
    return [
        ("empty_iff_start", z3.And(z3.Implies(k == 0, div.length == 0), z3.Implies(k >= 1, z3.And(div.length >= 1, div.at(0) == 0)))),
        ("below_k", forall(i, z3.Implies(in_range(i, 0, div.length), z3.And(div.at(i) >= 0, div.at(i) < k)))),
        ("increasing", forall(i, z3.Implies(in_range(i, 0, div.length - 1), div.at(i) < div.at(i + 1)))),
        # no position strictly inside a closed chunk has to start a chunk ...
        ("inside_closed", forall([i, j], z3.Implies(z3.And(in_range(i, 0, div.length - 1), div.at(i) < j, j < div.at(i + 1)), z3.Not(_must_start(ex, env, j, ign))))),
        # ... nor any position after the last division so far
        ("inside_open", forall(j, z3.Implies(z3.And(div.length >= 1, div.at(div.length - 1) < j, j < k), z3.Not(_must_start(ex, env, j, ign))))),
    ]


def coh_ensures(ex, env, res):
    st = env["__state__"]
    entry = env["__entry__"]
    labels = entry["labels"]
    n = labels.length
    new = res.chunks_axis
    P = psum(ex, st, new)
    oldP = psum(ex, None, entry["array"].chunks_axis)
    old = entry["array"].chunks_axis
    if res is entry["array"] and "newchunks" in env:
        # the function returned its argument because newchunks == array.chunks[axis]:
        # lemma (by induction): element-wise equal sequences have equal partial sums
        nc = env["newchunks"]
        Pn = psum(ex, st, nc)
        kk = fresh("k")
        ex.prove_induction(st, name="equal_chunks_equal_psums", k=kk, lo=0, hi=nc.length, prop=lambda t: Pn(t) == oldP(t), patterns=lambda t: [Pn(t), oldP(t)])
    i, j = fresh("i"), fresh("j")
    e2 = dict(env)
    e2["labels"] = labels
    e2["force_new_chunk_at"] = entry["force_new_chunk_at"]
    ign = entry["ignore_old_chunks"]
    return [
        ("positive", forall(i, z3.Implies(in_range(i, 0, new.length), new.at(i) >= 1))),
        ("sum", P(new.length) == n),
        # every occurrence of a forced label starts a chunk, and old boundaries are kept unless ignored:
        # stated as "no such position lies strictly inside a chunk" (chunk w spans [P(w), P(w+1)))
        ("starts", forall([i, j], z3.Implies(z3.And(in_range(i, 0, new.length), P(i) < j, j < P(i + 1)), z3.Not(_must_start(ex, e2, j, ign))))),
        ("shape_kept", res.n == entry["array"].n),
    ]


def callee_atleast_1d(ex, st, args, kwargs, node):
    (x,) = args[:1]
    return x  # a sequence is returned unchanged (scalars are outside this contract's parameter sorts)


def coh_models(prims):
    def nonzero(ex, st, a, k, node):
        # np.nonzero(mask)[0]: indices of the true entries.  Only what the caller relies on is assumed:
        # entries are valid indices of the mask.
        (m,) = a
        arr = z3.Const(f"nz!{fresh('n').decl().name()}", z3.ArraySort(I, I))
        ln = fresh("nz_len")
        out = SSeq.from_array(ln, arr, kind="array", name="nonzero")
        i = fresh("i")
        st.assume(z3.And(ln >= 0, ln <= m.length))
        st.assume(forall(i, z3.Implies(in_range(i, 0, ln), in_range(out.at(i), 0, m.length))))
        return (out,)

    prims.register("numpy.nonzero", nonzero)
    prims.register("numpy.median", lambda ex, st, a, k, n: _Median(fresh("median")))


class _Median:
    def __init__(self, v):
        self.v = v


def _patch_getattr():
    from ..pyvc import prims as P

    orig = P.Prims.getattr

    def getattr_(self, ex, st, base, attr, node):
        if isinstance(base, _Median):
            return P.Method(base, attr)
        return orig(self, ex, st, base, attr, node)

    P.Prims.getattr = getattr_
    origm = P.Prims.method

    def method(self, ex, st, obj, attr, args, kwargs, node):
        if isinstance(obj, _Median) and attr == "astype":
            st.assume(obj.v >= 1)  # assumed: the median of positive chunk sizes is >= 1 (min <= median)
            return obj.v
        return origm(self, ex, st, obj, attr, args, kwargs, node)

    P.Prims.method = method


_patch_getattr()


def replay_coh(model):
    import dask.array as da
    import numpy as np

    from flox.core import rechunk_for_cohorts

    old = tuple(int(c) for c in model.get("oldchunks") or model["array"])
    labels = np.array(model["labels"])
    force = list(model.get("force") or model.get("force_new_chunk_at") or [])
    if any(c < 1 for c in old) or len(old) == 0:
        return None, "model violates the precondition"
    n = sum(old)
    arr = da.zeros((n,), chunks=(old,))
    cs = model.get("chunksize")
    ign = bool(model.get("ignore_old_chunks", False))
    try:
        out = rechunk_for_cohorts(arr, 0, labels, force_new_chunk_at=force, chunksize=cs, ignore_old_chunks=ign)
    except ValueError as e:
        return False, f"documented refusal: {e}"
    except AssertionError:
        return True, f"AssertionError on oldchunks={old} labels={labels.tolist()} force={force} chunksize={cs}"
    new = tuple(int(c) for c in out.chunks[0])
    bad = []
    if any(c < 1 for c in new) or sum(new) != n:
        bad.append(f"chunks {new} not positive / not summing to {n}")
    starts = set(np.cumsum((0,) + new)[:-1].tolist())
    for j, lab in enumerate(labels.tolist()):
        if lab in force and j not in starts:
            bad.append(f"forced label {lab} at {j} does not start a chunk")
    if not ign:
        for b in np.cumsum(old)[:-1].tolist():
            if b not in starts:
                bad.append(f"old boundary {b} lost")
    desc = f"oldchunks={old} labels={labels.tolist()} force={force} chunksize={cs} ignore_old_chunks={ign} -> {new}"
    return (True, desc + ": " + "; ".join(bad)) if bad else (False, desc + " satisfies the postcondition")


def search_coh(nmax=4):
    import itertools

    from ..rtc.reduce_case import compositions

    for n in range(1, nmax + 1):
        for labels in itertools.product(range(3), repeat=n):
            for old in compositions(n):
                for force in ([0], [0, 2]):
                    for cs in (1, 2):
                        for ign in (False, True):
                            m = {"oldchunks": list(old), "labels": list(labels), "force": force, "chunksize": cs, "ignore_old_chunks": ign}
                            bad, text = replay_coh(m)
                            if bad:
                                return m, text
    return None


COH = Contract(
    qualname="rechunk_for_cohorts", file="flox/core.py", prefix="C17.coh",
    params=coh_params, requires=coh_requires, lemmas=coh_lemmas, invariants={1: coh_inv1}, ensures=coh_ensures,
    raises=("ValueError",), serves=("C17", "C19"), replay=replay_coh,
    assumed=("numpy.cumsum", "numpy.insert(x, 0, 0)", "numpy.isin", "numpy.nonzero (indices within the mask)", "numpy.diff", "numpy.median of positive sizes >= 1", "dask Array.rechunk({axis: chunks}) sets the chunks of that axis only", "flox.aggregations._atleast_1d is the identity on sequences"),
)
COH.search = search_coh
COH.models = coh_models


# ------------------------------------------------------------------------------------------------
# rechunk_for_blockwise(array, axis, labels): composition of the two contracts above
# ------------------------------------------------------------------------------------------------


def callee_opt(ex, st, args, kwargs, node):
    """Call-site use of the (proved) contract of _get_optimal_chunks_for_groups: check requires, assume ensures."""
    chunks, labels = args
    env = {"chunks": chunks, "labels": labels}
    for n_, r in enumerate(opt_requires(ex, env)):
        ex.oblige(st, r, ex._name("call-requires[_get_optimal_chunks_for_groups]", None) , f"line {node.lineno}: precondition #{n_ + 1} of _get_optimal_chunks_for_groups holds at the call")
    res = _sym_seq(f"optres{fresh('r').decl().name()}", "tuple")
    st.assume(res.length >= 0)
    for name, f in opt_ensures(ex, {"__state__": st, "__entry__": env}, res):
        st.assume(f)
    return res


def callee_factorize(ex, st, args, kwargs, node):
    """ASSUMED contract of factorize_((labels,), axes=())[0] for 1-D labels: integer codes >= 0 of the same length
    (missing labels get the sentinel code ngroups), equal codes <=> equal labels."""
    (bys, ) = args[:1]
    (labels,) = bys
    codes = _sym_seq(f"codes{fresh('c').decl().name()}", "array")
    i, j = fresh("i"), fresh("j")
    st.assume(codes.length == labels.length)
    st.assume(forall(i, z3.Implies(in_range(i, 0, codes.length), codes.at(i) >= 0)))
    # stated without index guards: out-of-range entries of the two index->value maps are unconstrained, and any
    # pair of real arrays satisfying the guarded statement extends to maps satisfying this one (conservative)
    st.assume(z3.ForAll([i, j], (codes.at(i) == codes.at(j)) == (labels.at(i) == labels.at(j)),
                        patterns=[z3.MultiPattern(codes.at(i), codes.at(j)), z3.MultiPattern(labels.at(i), labels.at(j))]))
    return (codes, None, None, None, None, None)


def blk_params(ex):
    old = _sym_seq("oldchunks", "tuple")
    labels = _sym_seq("labels", "array")
    return {"array": DaskArrayRecord(old, z3.Int("axis_len")), "axis": z3.Int("axis"), "labels": labels}


def blk_requires(ex, env):
    arr = env["array"]
    old = arr.chunks_axis
    i = fresh("i")
    P = psum(ex, None, old)
    return [old.length >= 1, env["labels"].length >= 1, forall(i, z3.Implies(in_range(i, 0, old.length), old.at(i) >= 1)), P(old.length) == arr.n, arr.n == env["labels"].length]


def blk_ensures(ex, env, res):
    st = env["__state__"]
    entry = env["__entry__"]
    labels = entry["labels"]
    new = res.chunks_axis
    P = psum(ex, st, new)
    if res is entry["array"] and "newchunks" in env:
        nc = env["newchunks"]
        Pn = psum(ex, st, nc)
        kk = fresh("k")
        ex.prove_induction(st, name="equal_chunks_equal_psums", k=kk, lo=0, hi=nc.length, prop=lambda t: Pn(t) == P(t), patterns=lambda t: [Pn(t), P(t)])
    i = fresh("i")
    return [
        ("positive", forall(i, z3.Implies(in_range(i, 0, new.length), new.at(i) >= 1))),
        ("sum", P(new.length) == labels.length),
        # no boundary separates two equal neighbouring labels; for sequential (run-contiguous) labels this is
        # exactly "no group straddles a chunk boundary"
        ("aligned", forall(i, z3.Implies(in_range(i, 0, new.length - 1), labels.at(P(i + 1) - 1) != labels.at(P(i + 1))))),
        ("shape_kept", res.n == entry["array"].n),
    ]


def replay_blk(model):
    import dask.array as da
    import numpy as np

    from flox.core import rechunk_for_blockwise

    old = tuple(int(c) for c in model["oldchunks"])
    labels = np.array(model["labels"])
    if any(c < 1 for c in old) or sum(old) != len(labels) or len(labels) == 0:
        return None, "model violates the precondition"
    out = rechunk_for_blockwise(da.zeros((len(labels),), chunks=(old,)), 0, labels)
    new = tuple(int(c) for c in out.chunks[0])
    bad = []
    if any(c < 1 for c in new) or sum(new) != len(labels):
        bad.append("not positive / wrong sum")
    for b in np.cumsum(new)[:-1]:
        if labels[b - 1] == labels[b]:
            bad.append(f"boundary {int(b)} splits label {labels[b]}")
    desc = f"oldchunks={old} labels={labels.tolist()} -> {new}"
    return (True, desc + ": " + "; ".join(bad)) if bad else (False, desc + " ok")


def search_blk(nmax=6):
    import itertools

    from ..rtc.reduce_case import compositions

    for n in range(1, nmax + 1):
        for labels in itertools.product(range(3), repeat=n):
            for old in compositions(n):
                m = {"oldchunks": list(old), "labels": list(labels)}
                bad, text = replay_blk(m)
                if bad:
                    return m, text
    return None


BLK = Contract(
    qualname="rechunk_for_blockwise", file="flox/core.py", prefix="C17.blk",
    params=blk_params, requires=blk_requires, ensures=blk_ensures, serves=("C17",), replay=replay_blk,
    assumed=("flox.core.factorize_ (codes >= 0, equal codes <=> equal labels) - assumed here", "dask Array.rechunk({axis: chunks})"),
)
BLK.search = search_blk

CALLEES = {"_unique": callee_unique, "_atleast_1d": callee_atleast_1d, "_get_optimal_chunks_for_groups": callee_opt, "factorize_": callee_factorize}
