"""Sidecar contracts for the token-coverage (T-site) obligations of C14."""

DERIVED_AGG_FIELDS = {
    "simple_combine": "computed from `combine` (covered) by _initialize_aggregation",
    "dtype_init": "only read to compute `dtype` (covered)",
    "new_dims_func": "fixed per aggregation definition; the new dimensions it yields are a function of finalize_kwargs (covered)",
    "preserves_dtype": "only read to compute `dtype` (covered)",
}

LAYER_CONTRACTS = [
    dict(
        file="flox/core.py", func="dask_groupby_agg",
        irrelevant={
            "engine": "value-irrelevant: every engine computes the same values (C01)",
            "sort": "only the order of groups inside intermediate blocks; the final result is reindexed / sorted (C16)",
            "reindex": "whether intermediates are reindexed at the block stage or at combine time does not change values (C02)",
            "fill_value": "equals agg.fill_value['user'] or the aggregation's default: a function of agg (covered); set by groupby_reduce",
            "chunks_cohorts": "a deterministic function of (by, array.chunks, expected_groups, method), all covered (find_group_cohorts, C09/C14 purity)",
        },
        delegated_to_dask={"f'{name}-simple-reduce'": "dask.array.reductions._tree_reduce names its layers prefix + tokenize(func, x, split_every, keepdims, dtype); func is the partial carrying agg, reindex, engine, sort"},
    ),
    dict(file="flox/core.py", func="subset_to_blocks", irrelevant={"chunks_as_array": "np.array of array.chunks (covered through array)", "blkshape": "array.blocks.shape of the array being subset (covered through array)"}),
    dict(file="flox/core.py", func="_extract_unknown_groups", irrelevant={"dtype": "meta only"}),
    dict(file="flox/core.py", func="_collapse_blocks_along_axes", irrelevant={"axis": "reduced.name carries the token of dask_groupby_agg, which covers axis", "group_chunks": "derived from the labels and chunks that the token of `reduced` covers"}),
    dict(file="flox/core.py", func="dask_groupby_scan", irrelevant={"agg": "the scan layers are named by dask's cumreduction from (func, binop, x, ...), which tokenizes the partials carrying agg", "axes": "passed to dask's cumreduction, which tokenizes it"},
         delegated_to_dask={}),
    dict(file="flox/aggregations.py", func="argreduce_preprocess", irrelevant={"axis": "idx is built from array.shape[axis] / array.chunks[axis] and sliced per axis; its dask name (covered) reflects both"}),
]
