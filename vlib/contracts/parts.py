"""Sidecar contract of flox.dask_array_ops.get_parts (C06.order / C03.tree / C09.cover): the partition of the blocks along a reduced
axis into the inputs of one tree level.

toolz.partition_all(k, seq) (ASSUMED, external, conformance-tested): ceil(len(seq) / k) consecutive runs of seq, in order, each of k
members but possibly the last: run j holds seq[j*k : min((j+1)*k, len(seq))] - so every member is in exactly one run and runs
follow the order of seq. Given that, what is PROVED about get_parts for one reduced axis with n blocks (symbolic) and fan-in k
(symbolic), and for an axis that is not reduced:
  * the parts of a reduced axis are partition_all(k, range(n)) with the fan-in asked for THAT axis, over the blocks in their natural
    order 0..n-1 (not reversed, not strided, not a different fan-in);
  * an axis without an entry in split_every is partitioned with fan-in 1 (every block on its own);
  * the announced chunks of the level have one unit chunk per part of a reduced axis - as many as there are parts - and are the
    input's own chunks on every other axis;
  * the keys written are the product of range(number of parts) over the axes.
partial_reduce (the graph writing loop around it) stays a bounded contract (vlib/rtc/tree_case.py).
"""

from __future__ import annotations

import z3

from ..pyvc.engine import Contract, I, SSeq, fresh
from .collapse import ProductIter
from .kernels import sym_seq


class Parts(SSeq):
    """the runs of partition_all(k, seq): element j stands for run j (its members are described by k and seq)"""

    def __init__(self, k, seq, length):
        super().__init__(length, lambda j: j, kind="list", elem_sort=I, name="parts")
        self.k, self.seq = k, seq


def m_partition_all(ex, st, a, k, node):
    fan, seq = a[0], a[1]
    if not isinstance(seq, SSeq):
        raise NotImplementedError("partition_all of a concrete sequence")
    fan = fan if z3.is_expr(fan) else z3.IntVal(fan)
    ex.oblige(st, fan >= 1, ex._name("pre.partition_all", node), f"line {node.lineno}: partition_all needs a positive run length")
    P = fresh("nparts")
    st.assume(z3.And(P >= 0, (P - 1) * fan < seq.length, seq.length <= P * fan))
    return Parts(fan, seq, P)


def register_models(prims):
    prims.register("toolz.partition_all", m_partition_all)
    prims.register("toolz.itertoolz.partition_all", m_partition_all)
    prims.register("itertools.product", lambda ex, st, a, k, node: ProductIter(st, [x for x in a]))
    o_list, o_tuple = prims.models["builtins.list"], prims.models["builtins.tuple"]
    prims.register("builtins.list", lambda ex, st, a, k, n: a[0] if a and isinstance(a[0], Parts) else o_list(ex, st, a, k, n))
    prims.register("builtins.tuple", lambda ex, st, a, k, n: a[0] if a and isinstance(a[0], ProductIter) else o_tuple(ex, st, a, k, n))

    def m_map(ex, st, a, k, node):
        f, xs = a[0], a[1]
        if not isinstance(xs, (list, tuple)):
            raise NotImplementedError("map over a symbolic sequence")
        out = []
        for x in xs:
            (s2, v), = prims.call(ex, st, f, [x], {}, node)
            out.append(v)
        return out

    prims.register("builtins.map", m_map)


def get_parts_contract(kind):
    """kind: 'reduced' (one axis with a fan-in) | 'kept_and_reduced' (axis 0 without an entry, axis 1 reduced)"""
    box = {}

    def params(ex):
        k = z3.Int("fan_in")
        if kind == "reduced":
            chunks = (sym_seq("chunks0", kind="tuple"),)
            items = ((0, k),)
        else:
            chunks = (sym_seq("chunks0", kind="tuple"), sym_seq("chunks1", kind="tuple"))
            items = ((1, k),)
        box.update(k=k, chunks=chunks)
        return {"split_every_items": items, "chunks": chunks}

    def requires(ex, env):
        return [box["k"] >= 1] + [c.length >= 1 for c in env["chunks"]]

    def ensures(ex, env, res):
        e = env["__entry__"]
        k, chunks = box["k"], e["chunks"]
        ok = isinstance(res, tuple) and len(res) == 3
        if not ok:
            return [("returns_keys_parts_chunks", z3.BoolVal(False))]
        keys, parts, out_chunks = res
        nax = len(chunks)
        red = nax - 1
        cl = [("one_partition_per_axis", z3.BoolVal(isinstance(parts, list) and len(parts) == nax and all(isinstance(p, Parts) for p in parts)))]
        if not (isinstance(parts, list) and len(parts) == nax and all(isinstance(p, Parts) for p in parts)):
            return cl
        pr = parts[red]
        j = fresh("j")
        cl += [
            ("reduced_axis_partitioned_with_its_fan_in", pr.k == k),
            ("reduced_axis_partitions_the_blocks_in_their_natural_order", z3.And(pr.seq.length == chunks[red].length, z3.ForAll([j], z3.Implies(z3.And(j >= 0, j < pr.seq.length), pr.seq.at(j) == j)))),
            ("announced_chunks_one_unit_chunk_per_part", z3.And(out_chunks[red].length == pr.length, z3.ForAll([j], z3.Implies(z3.And(j >= 0, j < out_chunks[red].length), out_chunks[red].at(j) == 1)))),
            ("number_of_parts_is_ceil_n_over_k", z3.And((pr.length - 1) * k < chunks[red].length, chunks[red].length <= pr.length * k)),
            ("keys_are_the_product_of_the_part_numbers", z3.BoolVal(isinstance(keys, ProductIter) and len(keys.seqs) == nax) if not isinstance(keys, ProductIter) else
             z3.And(z3.BoolVal(len(keys.seqs) == nax), *[z3.And(s.length == p.length, s.at(j) == j) for s, p in zip(keys.seqs, parts)])),
        ]
        if kind != "reduced":
            p0 = parts[0]
            cl += [("kept_axis_partitioned_block_by_block", z3.And(p0.k == 1, p0.seq.length == chunks[0].length, p0.length == chunks[0].length)),
                   ("kept_axis_keeps_its_chunks", z3.BoolVal(out_chunks[0] is chunks[0]))]
        return cl

    c = Contract(qualname="get_parts", file="flox/dask_array_ops.py", prefix=f"C06.get_parts.{kind}", params=params, requires=requires, ensures=ensures, serves=("C06", "C03", "C09"),
                 assumed=("toolz.partition_all(k, seq): ceil(len/k) consecutive runs of seq in order, run j = seq[j*k : (j+1)*k] (conformance-tested)", "itertools.product yields one in-range member per factor",
                          "functools.lru_cache returns what the function returns (arguments are hashable tuples)"))
    c.search = search_parts
    return c


def all_parts():
    return [get_parts_contract("reduced"), get_parts_contract("kept_and_reduced")]


def search_parts():
    """bounded search on the real function: every (n, k) up to 12 blocks: parts are the consecutive runs, chunks and keys match"""
    import itertools

    from flox.dask_array_ops import get_parts

    for n in range(1, 13):
        for k in range(1, 7):
            for kept in (None, 3):
                chunks = ((2,) * n,) if kept is None else ((1,) * kept, (2,) * n)
                ax = 0 if kept is None else 1
                case = dict(n=n, k=k, kept=kept)
                try:
                    keys, parts, out_chunks = get_parts(((ax, k),), chunks)
                except Exception as e:
                    return case, f"raised {type(e).__name__}: {e}"
                want = [tuple(range(j, min(j + k, n))) for j in range(0, n, k)]
                if [tuple(p) for p in parts[ax]] != want:
                    return case, f"parts {[tuple(p) for p in parts[ax]]} != consecutive runs {want}"
                if tuple(out_chunks[ax]) != (1,) * len(want):
                    return case, f"announced chunks {out_chunks[ax]} for {len(want)} parts"
                if kept is not None and ([tuple(p) for p in parts[0]] != [(i,) for i in range(kept)] or out_chunks[0] != chunks[0]):
                    return case, "kept axis not partitioned block by block"
                if list(keys) != list(itertools.product(*[range(len(p)) for p in parts])):
                    return case, "keys are not the product of the part numbers"
    return None
