"""Sidecar contracts for the binary operator of the parallel-prefix scan (C10.binop, C03.scan):
flox/aggregations.py: concatenate, scan_binary_op.

Abstraction (stated in DESIGN.md §10): arrays are 1-D along the scanned axis (leading axes are carried by NumPy
broadcasting and are not modelled); values are of sort Val (extended reals with NaN); the binary operation of the
Scan blueprint is an uninterpreted function bop : Val x Val -> Val applied elementwise (np.add for nancumsum).

ASSUMED contracts of callees outside this module (trusted, listed in the evidence):
  AlignedArrays.last  = chunk_reduce(..., func=("nanlast",), fill_value=NA, expected_groups=None):
        groups = the distinct codes present; array[k] = the last non-NaN value of code groups[k], NaN if it has none.
  generic_aggregate(group_idx, array, func="ffill", engine="flox"): out[i] = the last non-NaN value among the positions
        q <= i with group_idx[q] == group_idx[i], NaN if there is none.
  reindex_: the contract proved in contracts/finalize.py.
"""

from __future__ import annotations

import z3

from ..pyvc import valsort as V
from ..pyvc.engine import B, Contract, I, SSeq, forall, fresh, in_range
from ..pyvc.prims import ModRef, Opaque, Raised, Record, seq_concat, seq_member
from .finalize import IndexRec, _reindex_spec
from .kernels import sym_seq


def concat_named(ex, a, b):
    """a ++ b as a named sequence function (one per pair of operands, shared by the body and the specification) with its
    defining axioms; keeps index arithmetic out of the triggers."""
    cache = ex.__dict__.setdefault("_concat_cache", {})
    key = (id(a), id(b))
    if key in cache:
        return cache[key][0]
    tag = fresh("c").decl().name()
    C = z3.Function(f"concat!{tag}", I, a.elem_sort)
    q = fresh("q")
    nA, nB = a.length, b.length
    ex.axioms.append(forall(q, z3.Implies(in_range(q, 0, nA), C(q) == a.at(q)), patterns=[C(q)]))
    ex.axioms.append(forall(q, z3.Implies(in_range(q, nA, nA + nB), C(q) == b.at(q - nA)), patterns=[C(q)]))
    out = SSeq(z3.simplify(nA + nB), lambda t: C(t), kind="array", elem_sort=a.elem_sort, name=f"concat_{tag}")
    cache[key] = (out, a, b)  # keep the operands alive: ids are the key
    return out


class AARec(Record):
    """flox.aggregations.AlignedArrays: two aligned 1-D sequences."""

    def __init__(self, array, group_idx):
        super().__init__("AlignedArrays", array=array, group_idx=group_idx)

    @property
    def array(self):
        return self.fields["array"]

    @property
    def group_idx(self):
        return self.fields["group_idx"]

    def pyvc_getattr(self, ex, st, attr, node, prims):
        from ..pyvc.prims import Method

        if attr in self.fields:
            return self.fields[attr]
        return Method(self, attr)

    def pyvc_method(self, ex, st, attr, args, kwargs, node, prims):
        if attr == "last":
            return last_contract(ex, st, self)
        raise NotImplementedError(attr)


def last_spec(ex, cg, ca, U, out, skolem=None):
    """LAST(cg, ca) = (U, out) in universally quantified form (used as the callee's assumed postcondition with a
    Skolem position function, and as the goal of scan_binary_op without one)."""
    k, k2, p, q = fresh("k"), fresh("k2"), fresh("p"), fresh("q")
    N, nS = cg.length, U.length
    memU, memC = seq_member(ex, U), seq_member(ex, cg)
    cl = [
        ("state_groups_distinct", z3.ForAll([k, k2], z3.Implies(z3.And(in_range(k, 0, nS), in_range(k2, 0, nS), k != k2), U.at(k) != U.at(k2)))),
        ("state_covers_every_code_seen", forall(p, z3.Implies(in_range(p, 0, N), memU(cg.at(p))))),
        ("state_has_only_codes_seen", forall(k, z3.Implies(in_range(k, 0, nS), memC(U.at(k))))),
        ("state_aligned", out.length == nS),
    ]
    if skolem is None:
        cl.append(("state_is_last_valid_value", z3.ForAll([k, p], z3.Implies(z3.And(in_range(k, 0, nS), in_range(p, 0, N), cg.at(p) == U.at(k), z3.Not(V.is_nan(ca.at(p))),
                   forall(q, z3.Implies(z3.And(q > p, q < N, cg.at(q) == U.at(k)), V.is_nan(ca.at(q))))), out.at(k) == ca.at(p)))))
        cl.append(("state_is_nan_without_valid_value", forall(k, z3.Implies(z3.And(in_range(k, 0, nS), forall(p, z3.Implies(z3.And(in_range(p, 0, N), cg.at(p) == U.at(k)), V.is_nan(ca.at(p))))), V.is_nan(out.at(k))))))
    else:
        Lp = skolem
        cl.append(("last_position", forall(k, z3.Implies(in_range(k, 0, nS), z3.Or(
            z3.And(Lp(k) == -1, V.is_nan(out.at(k)), forall(p, z3.Implies(z3.And(in_range(p, 0, N), cg.at(p) == U.at(k)), V.is_nan(ca.at(p))))),
            z3.And(in_range(Lp(k), 0, N), cg.at(Lp(k)) == U.at(k), z3.Not(V.is_nan(ca.at(Lp(k)))), out.at(k) == ca.at(Lp(k)),
                   forall(q, z3.Implies(z3.And(q > Lp(k), q < N, cg.at(q) == U.at(k)), V.is_nan(ca.at(q))))))), patterns=[Lp(k)])))
        cl.append(("last_position_trigger", forall(k, z3.Implies(in_range(k, 0, nS), Lp(k) >= -1), patterns=[U.at(k)])))
    return cl


def last_contract(ex, st, aa):
    tag = fresh("l").decl().name()
    U = sym_seq(f"state_groups_{tag}", I)
    out = sym_seq(f"state_values_{tag}", V.Val)
    Lp = z3.Function(f"lastpos!{tag}", I, I)
    st.assume(U.length >= 0)
    for _, f in last_spec(ex, aa.group_idx, aa.array, U, out, skolem=Lp):
        st.assume(f)
    return AARec(out, U)


def ffill_spec(cg, ca, out, skolem=None):
    i, p, q = fresh("i"), fresh("p"), fresh("q")
    N = cg.length
    if skolem is None:
        return [
            ("filled_with_last_valid_value_of_the_same_group", z3.ForAll([i, p], z3.Implies(z3.And(in_range(i, 0, N), in_range(p, 0, i + 1), cg.at(p) == cg.at(i), z3.Not(V.is_nan(ca.at(p))),
             forall(q, z3.Implies(z3.And(q > p, q <= i, cg.at(q) == cg.at(i)), V.is_nan(ca.at(q))))), out.at(i) == ca.at(p)))),
            ("nan_when_the_group_has_no_valid_value_so_far", forall(i, z3.Implies(z3.And(in_range(i, 0, N), forall(q, z3.Implies(z3.And(in_range(q, 0, i + 1), cg.at(q) == cg.at(i)), V.is_nan(ca.at(q))))), V.is_nan(out.at(i))))),
        ]
    P = skolem
    return [("ffill_position", forall(i, z3.Implies(in_range(i, 0, N), z3.Or(
        z3.And(P(i) == -1, V.is_nan(out.at(i)), forall(q, z3.Implies(z3.And(in_range(q, 0, i + 1), cg.at(q) == cg.at(i)), V.is_nan(ca.at(q))))),
        z3.And(in_range(P(i), 0, i + 1), cg.at(P(i)) == cg.at(i), z3.Not(V.is_nan(ca.at(P(i)))), out.at(i) == ca.at(P(i)),
               forall(q, z3.Implies(z3.And(q > P(i), q <= i, cg.at(q) == cg.at(i)), V.is_nan(ca.at(q))))))), patterns=[P(i)])),
        ("ffill_position_trigger", forall(i, z3.Implies(in_range(i, 0, N), P(i) >= -1), patterns=[out.at(i)]))]


def callee_generic_aggregate(ex, st, args, kwargs, node):
    gi, arr = args[0], args[1]
    func = kwargs.get("func")
    if func != "ffill":
        raise NotImplementedError(f"generic_aggregate contract for {func!r}")
    tag = fresh("f").decl().name()
    out = sym_seq(f"ffilled_{tag}", V.Val)
    P = z3.Function(f"ffillpos!{tag}", I, I)
    st.assume(out.length == arr.length)
    for _, f in ffill_spec(gi, arr, out, skolem=P):
        st.assume(f)
    return out


def callee_aligned_arrays(ex, st, args, kwargs, node):
    array = kwargs.get("array", args[0] if args else None)
    group_idx = kwargs.get("group_idx", args[1] if len(args) > 1 else None)
    ex.oblige(st, array.length == group_idx.length, ex._name("post_init.AlignedArrays", node), f"line {node.lineno}: AlignedArrays.__post_init__: array.shape[-1] == group_idx.size")
    return AARec(array, group_idx)


def callee_scan_state(ex, st, args, kwargs, node):
    state, result = kwargs.get("state"), kwargs.get("result")
    ex.oblige(st, z3.BoolVal(state is not None or result is not None), ex._name("post_init.ScanState", node), f"line {node.lineno}: ScanState.__post_init__: state or result is present")
    return Record("ScanState", state=state, result=result)


def callee_concatenate(ex, st, args, kwargs, node):
    """call-site use of the contract of aggregations.concatenate proved below"""
    arrs = args[0]
    assert len(arrs) == 2
    a, b = arrs
    return AARec(concat_named(ex, a.array, b.array), concat_named(ex, a.group_idx, b.group_idx))


def callee_reindex(ex, st, args, kwargs, node):
    """call-site use of the contract of reindex_ proved in contracts/finalize.py (fill_value given, never None here)"""
    arr = args[0]
    frm, to = kwargs["from_"].labels, kwargs["to"].labels
    fill = kwargs["fill_value"]
    i, j = fresh("i"), fresh("j")
    ex.oblige(st, z3.And(arr.length == frm.length, z3.ForAll([i, j], z3.Implies(z3.And(in_range(i, 0, frm.length), in_range(j, 0, frm.length), i != j), frm.at(i) != frm.at(j)))),
              ex._name("pre.reindex_", node), "requires of reindex_: one value per label of from_, labels of from_ distinct")
    res = sym_seq(f"reindexed_{fresh('r').decl().name()}", V.Val)
    fill = fill if fill is None else V.as_val(fill)
    for _, f in _reindex_spec(arr, frm, to, res, fill):
        st.assume(f)
    return res


class BinaryOp:
    """agg.binary_op: an uninterpreted function on Val applied elementwise (np.add for nancumsum)"""

    def __init__(self):
        self.f = z3.Function("binary_op", V.Val, V.Val, V.Val)

    def pyvc_call(self, ex, st, args, kwargs, node, prims):
        a, b = args
        ex.oblige(st, a.length == b.length, ex._name("broadcast", node), f"line {node.lineno}: operands of the binary op have the same length")
        return SSeq(b.length, lambda i: self.f(a.at(i), b.at(i)), kind="array", elem_sort=V.Val, name="binop")


SCAN_CALLEES = {"AlignedArrays": callee_aligned_arrays, "ScanState": callee_scan_state, "concatenate": callee_concatenate, "reindex_": callee_reindex, "generic_aggregate": callee_generic_aggregate}


def concatenate_contract():
    def params(ex):
        return {"arrays": [AARec(sym_seq("a_values", V.Val), sym_seq("a_codes")), AARec(sym_seq("b_values", V.Val), sym_seq("b_codes"))], "axis": -1, "out": None}

    def requires(ex, env):
        a, b = env["arrays"]
        return [a.array.length == a.group_idx.length, b.array.length == b.group_idx.length]

    def ensures(ex, env, res):
        a, b = env["__entry__"]["arrays"]
        i = fresh("i")
        nA, nB = a.array.length, b.array.length
        return [
            ("lengths_add_up", z3.And(res.array.length == nA + nB, res.group_idx.length == nA + nB)),
            ("first_then_second_values", forall(i, z3.Implies(in_range(i, 0, nA + nB), res.array.at(i) == z3.If(i < nA, a.array.at(i), b.array.at(i - nA))))),
            ("first_then_second_codes", forall(i, z3.Implies(in_range(i, 0, nA + nB), res.group_idx.at(i) == z3.If(i < nA, a.group_idx.at(i), b.group_idx.at(i - nA))))),
        ]

    return Contract(qualname="concatenate", file="flox/aggregations.py", prefix="C10.concatenate", params=params, requires=requires, ensures=ensures, serves=("C10", "C03"))


def scan_binary_op_contract(mode, right_kind):
    """mode: 'apply_binary_op' | 'concat_then_scan' | 'other'; right_kind: 'state' (a reduced block) | 'result' (a scanned block)."""
    bop = BinaryOp()

    def params(ex):
        left = AARec(sym_seq("left_values", V.Val), sym_seq("left_codes"))
        right = AARec(sym_seq("right_values", V.Val), sym_seq("right_codes"))
        agg = Record("Scan", mode=mode, binary_op=bop if mode == "apply_binary_op" else None, scan="nancumsum" if mode == "apply_binary_op" else "ffill",
                     identity=z3.Const("identity", V.Val) if mode == "apply_binary_op" else V.nan)
        return {"left_state": Record("ScanState", state=left, result=None),
                "right_state": Record("ScanState", state=right if right_kind == "state" else None, result=right if right_kind == "result" else None), "agg": agg}

    def _lr(env):
        L = env["left_state"].fields["state"]
        R = env["right_state"].fields["state" if right_kind == "state" else "result"]
        return L, R

    def requires(ex, env):
        L, R = _lr(env)
        i, j = fresh("i"), fresh("j")
        r = [L.array.length == L.group_idx.length, R.array.length == R.group_idx.length, L.array.length >= 0, R.array.length >= 0,
             # the state of the blocks so far holds one entry per code (what chunk_reduce / .last() return)
             z3.ForAll([i, j], z3.Implies(z3.And(in_range(i, 0, L.group_idx.length), in_range(j, 0, L.group_idx.length), i != j), L.group_idx.at(i) != L.group_idx.at(j)))]
        if mode == "apply_binary_op":
            # nancumsum refuses missing labels: codes are >= 0; blocks are not empty
            r += [R.group_idx.length >= 1, forall(i, z3.Implies(in_range(i, 0, R.group_idx.length), R.group_idx.at(i) >= 0))]
        return r

    def virtual_result(ex, L, R, identity):
        """RV(i): what the binary op yields at position i of the right block; defined by its two defining clauses"""
        RV = z3.Function(f"right_after_op!{fresh('v').decl().name()}", I, V.Val)
        i, p = fresh("i"), fresh("p")
        nL, nR = L.group_idx.length, R.group_idx.length
        if mode == "apply_binary_op":
            defs = [z3.ForAll([i, p], z3.Implies(z3.And(in_range(i, 0, nR), in_range(p, 0, nL), L.group_idx.at(p) == R.group_idx.at(i)), RV(i) == bop.f(L.array.at(p), R.array.at(i)))),
                    forall(i, z3.Implies(z3.And(in_range(i, 0, nR), forall(p, z3.Implies(in_range(p, 0, nL), L.group_idx.at(p) != R.group_idx.at(i)))), RV(i) == bop.f(identity, R.array.at(i))))]
        else:
            # forward fill of left ++ right, read at the positions of the right block (PV: position of the source value, -1: none)
            cg, ca = concat_named(ex, L.group_idx, R.group_idx), concat_named(ex, L.array, R.array)
            PV = z3.Function(f"source_position!{fresh('v').decl().name()}", I, I)
            q = fresh("q")
            here = lambda t: nL + t
            defs = [forall(i, z3.Implies(in_range(i, 0, nR), z3.Or(
                z3.And(PV(i) == -1, V.is_nan(RV(i)), forall(q, z3.Implies(z3.And(in_range(q, 0, here(i) + 1), cg.at(q) == cg.at(here(i))), V.is_nan(ca.at(q))))),
                z3.And(in_range(PV(i), 0, here(i) + 1), cg.at(PV(i)) == cg.at(here(i)), z3.Not(V.is_nan(ca.at(PV(i)))), RV(i) == ca.at(PV(i)),
                       forall(q, z3.Implies(z3.And(q > PV(i), q <= here(i), cg.at(q) == cg.at(here(i))), V.is_nan(ca.at(q))))))), patterns=[RV(i)])]
        return RV, defs

    def ensures(ex, env, res):
        e = env["__entry__"]
        L, R = _lr(e)
        nL, nR = L.group_idx.length, R.group_idx.length
        RV, defs = virtual_result(ex, L, R, e["agg"].fields["identity"])
        D = z3.And(defs)
        rv_seq = SSeq(nR, lambda t: RV(t), kind="array", elem_sort=V.Val, name="right_after_op")
        S, Rs = res.fields["state"], res.fields["result"]
        i = fresh("i")
        cl = [("canary:definitions", z3.Not(D)), ("result_present_iff_right_is_a_scanned_block", z3.BoolVal((Rs is not None) == (right_kind == "result"))), ("state_present", z3.BoolVal(S is not None))]
        if Rs is not None:
            cl.append(("result_keeps_the_codes_of_the_right_block", z3.And(Rs.group_idx.length == nR, forall(i, z3.Implies(in_range(i, 0, nR), Rs.group_idx.at(i) == R.group_idx.at(i))))))
            cl.append(("result_is_right_combined_with_the_state_of_its_own_group", z3.Implies(D, z3.And(Rs.array.length == nR, forall(i, z3.Implies(in_range(i, 0, nR), Rs.array.at(i) == RV(i)))))))
        if S is not None:
            cg, ca = concat_named(ex, L.group_idx, R.group_idx), concat_named(ex, L.array, rv_seq)
            for name, f in last_spec(ex, cg, ca, S.group_idx, S.array):
                cl.append((name, z3.Implies(D, f)))
        return cl

    def exc_ensures(ex, env, exc):
        return [("only_for_an_unknown_mode", z3.BoolVal(mode == "other"))]

    return Contract(qualname="scan_binary_op", file="flox/aggregations.py", prefix=f"C10.scan_binary_op.{mode}.right_{right_kind}", params=params, requires=requires, ensures=ensures,
                    raises=("ValueError",), exc_ensures=exc_ensures, serves=("C10", "C03"), replay=replay_scan(mode, right_kind) if mode != "other" else None,
                    assumed=("AlignedArrays.last (chunk_reduce nanlast with fill NA): last non-NaN value per distinct code", "generic_aggregate(func='ffill', engine='flox'): grouped forward fill",
                             "agg.binary_op is a function applied elementwise", "pandas.Index / RangeIndex constructors", "1-D view of the scanned axis"))


def all_scan():
    out = [concatenate_contract()]
    for mode in ("apply_binary_op", "concat_then_scan"):
        for rk in ("state", "result"):
            c = scan_binary_op_contract(mode, rk)
            c.search = search_scan(mode, rk)
            out.append(c)
    out.append(scan_binary_op_contract("other", "state"))
    return out


# ---------------------------------------------------------------------------------------------
# replay of counter-models on the real scan_binary_op, and the bounded search used when the solver gives none
# ---------------------------------------------------------------------------------------------


def _f(v):
    from .finalize import _val_to_float

    return _val_to_float(v)


def _same(a, b):
    return (a == b) or (a != a and b != b)


def reference(La, Lg, Ra, Rg, mode, identity=0.0):
    """The postcondition of scan_binary_op evaluated directly (independent of flox)."""
    nan = float("nan")
    if mode == "apply_binary_op":
        left_of = dict(zip(Lg, La))
        rv = [left_of.get(g, identity) + a for g, a in zip(Rg, Ra)]
    else:
        cg, ca = list(Lg) + list(Rg), list(La) + list(Ra)
        seen, ff = {}, []
        for g, a in zip(cg, ca):
            if a == a:
                seen[g] = a
            ff.append(seen.get(g, nan))
        rv = ff[len(Lg):]
    cg, ca = list(Lg) + list(Rg), list(La) + rv
    state = {}
    for g, a in zip(cg, ca):
        if a == a or g not in state:
            state[g] = a if a == a else state.get(g, nan)
    return rv, state


def run_real(La, Lg, Ra, Rg, mode, right_kind):
    import numpy as np

    from flox import aggregations as A

    agg = A.nancumsum if mode == "apply_binary_op" else A.ffill
    left = A.ScanState(state=A.AlignedArrays(array=np.array(La, dtype="float64"), group_idx=np.array(Lg, dtype="int64")), result=None)
    r = A.AlignedArrays(array=np.array(Ra, dtype="float64"), group_idx=np.array(Rg, dtype="int64"))
    right = A.ScanState(state=r if right_kind == "state" else None, result=r if right_kind == "result" else None)
    return A.scan_binary_op(left, right, agg=agg)


def check_real(La, Lg, Ra, Rg, mode, right_kind):
    """None if the real function meets the postcondition on this input, else the list of violated clauses."""
    out = run_real(La, Lg, Ra, Rg, mode, right_kind)
    rv, state = reference(La, Lg, Ra, Rg, mode)
    bad = []
    if (out.result is not None) != (right_kind == "result"):
        bad.append("result_present_iff_right_is_a_scanned_block")
    if out.result is not None:
        if list(out.result.group_idx) != list(Rg):
            bad.append("result_keeps_the_codes_of_the_right_block")
        if len(out.result.array) != len(rv) or not all(_same(float(a), b) for a, b in zip(out.result.array, rv)):
            bad.append("result_is_right_combined_with_the_state_of_its_own_group")
    if out.state is None:
        bad.append("state_present")
    else:
        sg = [int(g) for g in out.state.group_idx]
        if len(set(sg)) != len(sg):
            bad.append("state_groups_distinct")
        if set(sg) != set(state):
            bad.append("state_covers_every_code_seen")
        elif not all(_same(float(v), state[g]) for g, v in zip(sg, out.state.array)):
            bad.append("state_is_last_valid_value")
    return bad or None


def replay_scan(mode, right_kind):
    def replay(cm):
        import json

        L = cm["left_state"]["state"]
        R = cm["right_state"]["state" if right_kind == "state" else "result"]
        if not all(isinstance(x, list) for x in (L["array"], L["group_idx"], R["array"], R["group_idx"])):
            return None, "counter-model too large to replay"
        La, Lg, Ra, Rg = [_f(v) for v in L["array"]], list(L["group_idx"]), [_f(v) for v in R["array"]], list(R["group_idx"])
        if len(set(Lg)) != len(Lg) or len(La) != len(Lg) or len(Ra) != len(Rg) or (mode == "apply_binary_op" and (not Rg or min(Rg) < 0)):
            return None, "outside the precondition"
        bad = check_real(La, Lg, Ra, Rg, mode, right_kind)
        return bool(bad), json.dumps({"verdict": "violated" if bad else "held", "clauses": bad or [], "input": {"left": [La, Lg], "right": [Ra, Rg]}}, default=str)

    return replay


def search_scan(mode, right_kind):
    def search():
        import itertools

        nan = float("nan")
        vals = (1.0, nan, 2.0)
        codes = (0, 1, 2)
        for nL in (0, 1, 2):
            for Lg in itertools.permutations(codes, nL):
                for La in itertools.product(vals, repeat=nL):
                    for nR in (1, 2, 3):
                        for Rg in itertools.product(codes, repeat=nR):
                            if right_kind == "state" and len(set(Rg)) != nR:
                                continue  # a reduced block holds one entry per code
                            for Ra in itertools.product(vals, repeat=nR):
                                if mode == "apply_binary_op" and any(a != a for a in Ra + La):
                                    continue  # nancumsum intermediates are never NaN
                                try:
                                    bad = check_real(list(La), list(Lg), list(Ra), list(Rg), mode, right_kind)
                                except Exception as e:
                                    bad = [f"raised {type(e).__name__}: {e}"]
                                if bad:
                                    return {"left": [list(La), list(Lg)], "right": [list(Ra), list(Rg)], "mode": mode, "right_kind": right_kind}, f"clauses {bad}"
        return None

    return search


# ---------------------------------------------------------------------------------------------
# the glue around scan_binary_op: _zip, chunk_scan, grouped_reduce, _finalize_scan, dask_groupby_scan (flox/core.py)
# ---------------------------------------------------------------------------------------------


class GlueGhost:
    def __init__(self):
        self.generic_aggregate = []
        self.chunk_reduce = []
        self.map_blocks = []
        self.scan = []
        self.tokenize = []


def scan_agg():
    return Record("Scan", scan="nancumsum_or_fill", reduction="nansum_or_nanlast", identity=z3.Const("identity", V.Val), dtype=Opaque("agg.dtype"), mode="apply_binary_op")


def glue_callees(g):
    def generic_aggregate(ex, st, a, k, node):
        out = sym_seq(f"scanned_{fresh('s').decl().name()}", V.Val)
        st.assume(out.length == a[1].length)
        g.generic_aggregate.append((a, dict(k), out))
        return out

    def chunk_reduce(ex, st, a, k, node):
        groups = sym_seq(f"groups_{fresh('g').decl().name()}")
        vals = sym_seq(f"reduced_{fresh('r').decl().name()}", V.Val)
        st.assume(z3.And(groups.length >= 0, vals.length == groups.length))
        g.chunk_reduce.append((a, dict(k), groups, vals))
        return {"groups": groups, "intermediates": [vals]}

    return {"AlignedArrays": callee_aligned_arrays, "ScanState": callee_scan_state, "generic_aggregate": generic_aggregate, "chunk_reduce": chunk_reduce}


def zip_contract():
    def params(ex):
        return {"group_idx": sym_seq("codes"), "array": sym_seq("values", V.Val)}

    def requires(ex, env):
        return [env["array"].length == env["group_idx"].length, env["array"].length >= 0]

    def ensures(ex, env, res):
        e = env["__entry__"]
        return [("codes_and_values_in_their_own_fields", z3.BoolVal(isinstance(res, AARec) and res.group_idx is e["group_idx"] and res.array is e["array"]))]

    return Contract(qualname="_zip", file="flox/core.py", prefix="C10.zip", params=params, requires=requires, ensures=ensures, serves=("C10",)), {"AlignedArrays": callee_aligned_arrays}


def chunk_scan_contract():
    g = GlueGhost()

    def params(ex):
        g.generic_aggregate.clear()
        return {"inp": AARec(sym_seq("values", V.Val), sym_seq("codes")), "axis": 0, "agg": scan_agg(), "dtype": Opaque("dtype"), "keepdims": None}

    def requires(ex, env):
        return [env["inp"].array.length == env["inp"].group_idx.length, env["inp"].array.length >= 0]

    def ensures(ex, env, res):
        e = env["__entry__"]
        ok_call = len(g.generic_aggregate) == 1
        cl = [("one_grouped_scan_of_the_block", z3.BoolVal(ok_call))]
        if ok_call:
            a, k, out = g.generic_aggregate[0]
            cl += [("scans_the_values_by_the_codes_of_the_block", z3.BoolVal(a[0] is e["inp"].group_idx and a[1] is e["inp"].array)),
                   ("uses_the_scan_of_the_blueprint_on_the_flox_engine_with_its_identity", z3.BoolVal(k.get("func") == e["agg"].fields["scan"] and k.get("engine") == "flox" and k.get("fill_value") is e["agg"].fields["identity"])),
                   ("result_carries_the_scanned_values_and_the_same_codes", z3.BoolVal(res.fields["result"] is not None and res.fields["result"].array is out and res.fields["result"].group_idx is e["inp"].group_idx)),
                   ("a_scanned_block_has_no_state_yet", z3.BoolVal(res.fields["state"] is None))]
        return cl

    return Contract(qualname="chunk_scan", file="flox/core.py", prefix="C10.chunk_scan", params=params, requires=requires, ensures=ensures, serves=("C10",), assumed=("generic_aggregate returns an array aligned with its input",)), glue_callees(g)


def grouped_reduce_contract():
    g = GlueGhost()

    def params(ex):
        g.chunk_reduce.clear()
        arr = sym_seq("values", V.Val)
        return {"inp": AARec(arr, sym_seq("codes")), "agg": scan_agg(), "axis": 0, "keepdims": None}

    def requires(ex, env):
        return [env["inp"].array.length == env["inp"].group_idx.length, env["inp"].array.length >= 0]

    def ensures(ex, env, res):
        e = env["__entry__"]
        ok_call = len(g.chunk_reduce) == 1
        cl = [("one_grouped_reduction_of_the_block", z3.BoolVal(ok_call))]
        if ok_call:
            a, k, groups, vals = g.chunk_reduce[0]
            f = k.get("func")
            cl += [("reduces_the_values_by_the_codes_of_the_block", z3.BoolVal(a[0] is e["inp"].array and a[1] is e["inp"].group_idx)),
                   ("uses_the_reduction_of_the_blueprint_with_its_identity_for_the_groups_present", z3.BoolVal(isinstance(f, tuple) and len(f) == 1 and f[0] == e["agg"].fields["reduction"] and k.get("fill_value") is e["agg"].fields["identity"] and k.get("expected_groups", 0) is None and k.get("engine") == "flox")),
                   ("state_carries_the_reduced_values_with_their_groups", z3.BoolVal(res.fields["state"] is not None and res.fields["state"].array is vals and res.fields["state"].group_idx is groups)),
                   ("a_reduced_block_has_no_result", z3.BoolVal(res.fields["result"] is None))]
        return cl

    return Contract(qualname="grouped_reduce", file="flox/core.py", prefix="C10.grouped_reduce", params=params, requires=requires, ensures=ensures, serves=("C10",), assumed=("chunk_reduce returns one intermediate per requested function, aligned with the groups found",)), glue_callees(g)


def finalize_scan_contract(has_result):
    def params(ex):
        r = AARec(sym_seq("values", V.Val), sym_seq("codes")) if has_result else None
        s_ = AARec(sym_seq("state_values", V.Val), sym_seq("state_codes"))
        return {"block": Record("ScanState", state=s_, result=r), "dtype": Opaque("dtype")}

    def ensures(ex, env, res):
        e = env["__entry__"]
        i = fresh("i")
        r = e["block"].fields["result"]
        return [("only_for_a_block_with_a_result", z3.BoolVal(has_result)), ("returns_the_scanned_values_of_the_block", z3.And(res.length == r.array.length, forall(i, z3.Implies(in_range(i, 0, res.length), res.at(i) == r.array.at(i)))) if r is not None else z3.BoolVal(False))]

    def exc_ensures(ex, env, exc):
        return [("asserts_only_for_a_block_without_result", z3.BoolVal(not has_result))]

    return Contract(qualname="_finalize_scan", file="flox/core.py", prefix=f"C10.finalize_scan.{'result' if has_result else 'noresult'}", params=params, ensures=ensures, raises=("AssertionError",) if not has_result else (), exc_ensures=exc_ensures if not has_result else None, serves=("C10",),
                    assumed=("ndarray.astype keeps the values (the dtype rules are C11's)",)), {}


def all_scan_glue():
    return [zip_contract(), chunk_scan_contract(), grouped_reduce_contract(), finalize_scan_contract(True)]


def dask_groupby_scan_contract():
    """Protocol obligations of dask_groupby_scan: how the pieces proved above are wired into dask's parallel prefix."""
    from .config import ArrayRec

    g = GlueGhost()

    def params(ex):
        for l in (g.map_blocks, g.scan, g.tokenize):
            l.clear()
        return {"array": ArrayRec("array", True, 1, z3.StringVal("f")), "by": ArrayRec("by", z3.Bool("by_is_dask"), 1, z3.StringVal("i")), "axes": (0,), "agg": scan_agg()}

    def ensures(ex, env, res):
        e = env["__entry__"]
        cl = [("labels_zipped_with_the_data_then_scanned_then_unzipped", z3.BoolVal(len(g.map_blocks) == 2 and len(g.scan) == 1))]
        if not (len(g.map_blocks) == 2 and len(g.scan) == 1):
            return cl
        (f1, a1, k1, o1), (f2, a2, k2, o2) = g.map_blocks
        sk = g.scan[0]
        unified = getattr(ex, "_unified", None)
        cl += [
            ("zip_gets_codes_first_and_data_second", z3.BoolVal(getattr(f1, "name", None) == "_zip" and unified is not None and len(a1) == 2 and a1[0] is unified[1] and a1[1] is unified[0])),
            ("zip_layer_name_is_derived_from_both_inputs", z3.BoolVal(len(g.tokenize) == 1 and set(map(id, g.tokenize[0])) == {id(unified[0]), id(unified[1])} and isinstance(k1.get("name"), tuple) and k1["name"][0] == "groupby-scan-preprocess-" and k1["name"][1] is g.tokenize[0])),
            ("scan_runs_over_the_zipped_blocks_along_the_axis", z3.BoolVal(sk.get("x") is o1 and sk.get("axis") == 0 and sk.get("method") == "blelloch")),
            ("in_block_scan_is_chunk_scan_with_the_blueprint", z3.BoolVal(_is_partial(sk.get("func"), "chunk_scan", e["agg"]))),
            ("per_block_state_is_grouped_reduce_with_the_blueprint", z3.BoolVal(_is_partial(sk.get("preop"), "grouped_reduce", e["agg"]))),
            ("combine_is_scan_binary_op_with_the_blueprint", z3.BoolVal(_is_partial(sk.get("binop"), "scan_binary_op", e["agg"]))),
            ("identity_and_dtype_of_the_blueprint", z3.BoolVal(sk.get("ident") is e["agg"].fields["identity"] and sk.get("dtype") is e["agg"].fields["dtype"])),
            ("unzipped_with_finalize_scan", z3.BoolVal(_is_partial(f2, "_finalize_scan", None) and len(a2) == 1 and a2[0] is g.scan_out)),
            ("returns_the_unzipped_array", z3.BoolVal(res is o2)),
        ]
        return cl

    def _is_partial(f, name, agg):
        from ..pyvc.prims import PartialVal, RepoFunc

        if not isinstance(f, PartialVal):
            return False
        fn = f.fn
        nm = getattr(fn, "name", None) or (fn.path.split(".")[-1] if isinstance(fn, ModRef) else None)
        return nm == name and (agg is None or f.kwargs.get("agg") is agg)

    def callees():
        from .config import ArrayRec

        def unify(ex, st, a, k, node):
            arr, by = a
            ex._unified = (ArrayRec("array.unified", True, 1, arr.dkind), ArrayRec("by.unified", True, 1, by.dkind))
            ex._unified[1]._meta_objs = ex._unified[0].__dict__.setdefault("_meta_objs", {})  # unified: chunked alike
            return ex._unified

        return {"_unify_chunks": unify}

    def models(prims):
        from .config import ArrayRec

        def map_blocks(ex, st, a, k, node):
            out = ArrayRec(f"mapped{len(g.map_blocks)}", True, 1, z3.StringVal("f"))
            out._meta_objs = a[1].__dict__.setdefault("_meta_objs", {})  # map_blocks keeps the chunk structure of its (unified) inputs
            g.map_blocks.append((a[0], list(a[1:]), dict(k), out))
            return out

        def cumreduction(ex, st, a, k, node):
            g.scan.append(dict(k))
            g.scan_out = ArrayRec("accumulated", True, 1, z3.StringVal("f"))
            g.scan_out._meta_objs = k["x"].__dict__.setdefault("_meta_objs", {})  # a scan keeps the chunk structure
            return g.scan_out

        class Tok:
            def __init__(self, args):
                self.args = args

            def pyvc_binop(self, ex, st, op, other, flip, node, prims):
                # "prefix" + token: the layer name as (prefix, token ingredients)
                return (other, self.args) if flip and isinstance(other, str) else (self.args, other)

        def tokenize(ex, st, a, k, node):
            t = tuple(a)
            g.tokenize.append(t)
            return Tok(t)

        prims.register("dask.array.map_blocks", map_blocks)
        prims.register("dask.array.reductions.cumreduction", cumreduction)
        prims.register("dask.base.tokenize", tokenize)

    c = Contract(qualname="dask_groupby_scan", file="flox/core.py", prefix="C10.dask_groupby_scan", params=params, ensures=ensures, raises=("NotImplementedError",), serves=("C10", "C03", "C13"),
                 assumed=("dask.array.reductions.cumreduction(method='blelloch') computes the inclusive prefix of binop over preop(block) and applies func to the blocks", "dask.array.map_blocks", "result.chunks == array.chunks (in-code assert) is a fact about dask's chunk metadata"))
    return c, callees(), models
