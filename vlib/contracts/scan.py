"""Sidecar contracts for the binary operator of the parallel-prefix scan (C10.binop, C03.scan):
flox/aggregations.py: concatenate, scan_binary_op.

Abstraction (stated in DESIGN.md §10): arrays are 1-D along the scanned axis (leading axes are carried by NumPy
broadcasting and are not modelled); values are of sort Val (extended reals with NaN); the binary operation of the
Scan blueprint is an uninterpreted function bop : Val x Val -> Val applied elementwise (np.add for nancumsum).

ASSUMED contracts of callees outside this module (trusted, listed in the evidence):
  AlignedArrays.last  = chunk_reduce(..., func=("nanlast",), fill_value=NA, expected_groups=None):
        groups = the distinct codes present; array[k] = the last non-NaN value of code groups[k], NaN if it has none.
  generic_aggregate(group_idx, array, func="ffill", engine="flox"): out[i] = the last non-NaN value among the positions
        q <= i with group_idx[q] == group_idx[i], NaN if there is none.
  reindex_: the contract proved in contracts/finalize.py.
"""

from __future__ import annotations

import z3

from ..pyvc import valsort as V
from ..pyvc.engine import B, Contract, I, SSeq, forall, fresh, in_range
from ..pyvc.prims import ModRef, Opaque, Raised, Record, seq_concat, seq_member
from .finalize import IndexRec, _reindex_spec
from .kernels import sym_seq


def concat_named(ex, a, b):
    """a ++ b as a named sequence function (one per pair of operands, shared by the body and the specification) with its
    defining axioms; keeps index arithmetic out of the triggers."""
    cache = ex.__dict__.setdefault("_concat_cache", {})
    key = (id(a), id(b))
    if key in cache:
        return cache[key][0]
    tag = fresh("c").decl().name()
    C = z3.Function(f"concat!{tag}", I, a.elem_sort)
    q = fresh("q")
    nA, nB = a.length, b.length
    ex.axioms.append(forall(q, z3.Implies(in_range(q, 0, nA), C(q) == a.at(q)), patterns=[C(q)]))
    ex.axioms.append(forall(q, z3.Implies(in_range(q, nA, nA + nB), C(q) == b.at(q - nA)), patterns=[C(q)]))
    out = SSeq(z3.simplify(nA + nB), lambda t: C(t), kind="array", elem_sort=a.elem_sort, name=f"concat_{tag}")
    cache[key] = (out, a, b)  # keep the operands alive: ids are the key
    return out


class AARec(Record):
    """flox.aggregations.AlignedArrays: two aligned 1-D sequences."""

    def __init__(self, array, group_idx):
        super().__init__("AlignedArrays", array=array, group_idx=group_idx)

    @property
    def array(self):
        return self.fields["array"]

    @property
    def group_idx(self):
        return self.fields["group_idx"]

    def pyvc_getattr(self, ex, st, attr, node, prims):
        from ..pyvc.prims import Method

        if attr in self.fields:
            return self.fields[attr]
        return Method(self, attr)

    def pyvc_method(self, ex, st, attr, args, kwargs, node, prims):
        if attr == "last":
            return last_contract(ex, st, self)
        raise NotImplementedError(attr)


def last_spec(ex, cg, ca, U, out, skolem=None):
    """LAST(cg, ca) = (U, out) in universally quantified form (used as the callee's assumed postcondition with a
    Skolem position function, and as the goal of scan_binary_op without one)."""
    k, k2, p, q = fresh("k"), fresh("k2"), fresh("p"), fresh("q")
    N, nS = cg.length, U.length
    memU, memC = seq_member(ex, U), seq_member(ex, cg)
    cl = [
        ("state_groups_distinct", z3.ForAll([k, k2], z3.Implies(z3.And(in_range(k, 0, nS), in_range(k2, 0, nS), k != k2), U.at(k) != U.at(k2)))),
        ("state_covers_every_code_seen", forall(p, z3.Implies(in_range(p, 0, N), memU(cg.at(p))))),
        ("state_has_only_codes_seen", forall(k, z3.Implies(in_range(k, 0, nS), memC(U.at(k))))),
        ("state_aligned", out.length == nS),
    ]
    if skolem is None:
        cl.append(("state_is_last_valid_value", z3.ForAll([k, p], z3.Implies(z3.And(in_range(k, 0, nS), in_range(p, 0, N), cg.at(p) == U.at(k), z3.Not(V.is_nan(ca.at(p))),
                   forall(q, z3.Implies(z3.And(q > p, q < N, cg.at(q) == U.at(k)), V.is_nan(ca.at(q))))), out.at(k) == ca.at(p)))))
        cl.append(("state_is_nan_without_valid_value", forall(k, z3.Implies(z3.And(in_range(k, 0, nS), forall(p, z3.Implies(z3.And(in_range(p, 0, N), cg.at(p) == U.at(k)), V.is_nan(ca.at(p))))), V.is_nan(out.at(k))))))
    else:
        Lp = skolem
        cl.append(("last_position", forall(k, z3.Implies(in_range(k, 0, nS), z3.Or(
            z3.And(Lp(k) == -1, V.is_nan(out.at(k)), forall(p, z3.Implies(z3.And(in_range(p, 0, N), cg.at(p) == U.at(k)), V.is_nan(ca.at(p))))),
            z3.And(in_range(Lp(k), 0, N), cg.at(Lp(k)) == U.at(k), z3.Not(V.is_nan(ca.at(Lp(k)))), out.at(k) == ca.at(Lp(k)),
                   forall(q, z3.Implies(z3.And(q > Lp(k), q < N, cg.at(q) == U.at(k)), V.is_nan(ca.at(q))))))), patterns=[Lp(k)])))
        cl.append(("last_position_trigger", forall(k, z3.Implies(in_range(k, 0, nS), Lp(k) >= -1), patterns=[U.at(k)])))
    return cl


def last_contract(ex, st, aa):
    tag = fresh("l").decl().name()
    U = sym_seq(f"state_groups_{tag}", I)
    out = sym_seq(f"state_values_{tag}", V.Val)
    Lp = z3.Function(f"lastpos!{tag}", I, I)
    st.assume(U.length >= 0)
    for _, f in last_spec(ex, aa.group_idx, aa.array, U, out, skolem=Lp):
        st.assume(f)
    return AARec(out, U)


def ffill_spec(cg, ca, out, skolem=None):
    i, p, q = fresh("i"), fresh("p"), fresh("q")
    N = cg.length
    if skolem is None:
        return [
            ("filled_with_last_valid_value_of_the_same_group", z3.ForAll([i, p], z3.Implies(z3.And(in_range(i, 0, N), in_range(p, 0, i + 1), cg.at(p) == cg.at(i), z3.Not(V.is_nan(ca.at(p))),
             forall(q, z3.Implies(z3.And(q > p, q <= i, cg.at(q) == cg.at(i)), V.is_nan(ca.at(q))))), out.at(i) == ca.at(p)))),
            ("nan_when_the_group_has_no_valid_value_so_far", forall(i, z3.Implies(z3.And(in_range(i, 0, N), forall(q, z3.Implies(z3.And(in_range(q, 0, i + 1), cg.at(q) == cg.at(i)), V.is_nan(ca.at(q))))), V.is_nan(out.at(i))))),
        ]
    P = skolem
    return [("ffill_position", forall(i, z3.Implies(in_range(i, 0, N), z3.Or(
        z3.And(P(i) == -1, V.is_nan(out.at(i)), forall(q, z3.Implies(z3.And(in_range(q, 0, i + 1), cg.at(q) == cg.at(i)), V.is_nan(ca.at(q))))),
        z3.And(in_range(P(i), 0, i + 1), cg.at(P(i)) == cg.at(i), z3.Not(V.is_nan(ca.at(P(i)))), out.at(i) == ca.at(P(i)),
               forall(q, z3.Implies(z3.And(q > P(i), q <= i, cg.at(q) == cg.at(i)), V.is_nan(ca.at(q))))))), patterns=[P(i)])),
        ("ffill_position_trigger", forall(i, z3.Implies(in_range(i, 0, N), P(i) >= -1), patterns=[out.at(i)]))]


def callee_generic_aggregate(ex, st, args, kwargs, node):
    gi, arr = args[0], args[1]
    func = kwargs.get("func")
    if func != "ffill":
        raise NotImplementedError(f"generic_aggregate contract for {func!r}")
    tag = fresh("f").decl().name()
    out = sym_seq(f"ffilled_{tag}", V.Val)
    P = z3.Function(f"ffillpos!{tag}", I, I)
    st.assume(out.length == arr.length)
    for _, f in ffill_spec(gi, arr, out, skolem=P):
        st.assume(f)
    return out


def callee_aligned_arrays(ex, st, args, kwargs, node):
    array = kwargs.get("array", args[0] if args else None)
    group_idx = kwargs.get("group_idx", args[1] if len(args) > 1 else None)
    ex.oblige(st, array.length == group_idx.length, ex._name("post_init.AlignedArrays", node), f"line {node.lineno}: AlignedArrays.__post_init__: array.shape[-1] == group_idx.size")
    return AARec(array, group_idx)


def callee_scan_state(ex, st, args, kwargs, node):
    state, result = kwargs.get("state"), kwargs.get("result")
    ex.oblige(st, z3.BoolVal(state is not None or result is not None), ex._name("post_init.ScanState", node), f"line {node.lineno}: ScanState.__post_init__: state or result is present")
    return Record("ScanState", state=state, result=result)


def callee_concatenate(ex, st, args, kwargs, node):
    """call-site use of the contract of aggregations.concatenate proved below"""
    arrs = args[0]
    assert len(arrs) == 2
    a, b = arrs
    return AARec(concat_named(ex, a.array, b.array), concat_named(ex, a.group_idx, b.group_idx))


def callee_reindex(ex, st, args, kwargs, node):
    """call-site use of the contract of reindex_ proved in contracts/finalize.py (fill_value given, never None here)"""
    arr = args[0]
    frm, to = kwargs["from_"].labels, kwargs["to"].labels
    fill = kwargs["fill_value"]
    i, j = fresh("i"), fresh("j")
    ex.oblige(st, z3.And(arr.length == frm.length, z3.ForAll([i, j], z3.Implies(z3.And(in_range(i, 0, frm.length), in_range(j, 0, frm.length), i != j), frm.at(i) != frm.at(j)))),
              ex._name("pre.reindex_", node), "requires of reindex_: one value per label of from_, labels of from_ distinct")
    res = sym_seq(f"reindexed_{fresh('r').decl().name()}", V.Val)
    fill = fill if fill is None else V.as_val(fill)
    for _, f in _reindex_spec(arr, frm, to, res, fill):
        st.assume(f)
    return res


class BinaryOp:
    """agg.binary_op: an uninterpreted function on Val applied elementwise (np.add for nancumsum)"""

    def __init__(self):
        self.f = z3.Function("binary_op", V.Val, V.Val, V.Val)

    def pyvc_call(self, ex, st, args, kwargs, node, prims):
        a, b = args
        ex.oblige(st, a.length == b.length, ex._name("broadcast", node), f"line {node.lineno}: operands of the binary op have the same length")
        return SSeq(b.length, lambda i: self.f(a.at(i), b.at(i)), kind="array", elem_sort=V.Val, name="binop")


SCAN_CALLEES = {"AlignedArrays": callee_aligned_arrays, "ScanState": callee_scan_state, "concatenate": callee_concatenate, "reindex_": callee_reindex, "generic_aggregate": callee_generic_aggregate}


def concatenate_contract():
    def params(ex):
        return {"arrays": [AARec(sym_seq("a_values", V.Val), sym_seq("a_codes")), AARec(sym_seq("b_values", V.Val), sym_seq("b_codes"))], "axis": -1, "out": None}

    def requires(ex, env):
        a, b = env["arrays"]
        return [a.array.length == a.group_idx.length, b.array.length == b.group_idx.length]

    def ensures(ex, env, res):
        a, b = env["__entry__"]["arrays"]
        i = fresh("i")
        nA, nB = a.array.length, b.array.length
        return [
            ("lengths_add_up", z3.And(res.array.length == nA + nB, res.group_idx.length == nA + nB)),
            ("first_then_second_values", forall(i, z3.Implies(in_range(i, 0, nA + nB), res.array.at(i) == z3.If(i < nA, a.array.at(i), b.array.at(i - nA))))),
            ("first_then_second_codes", forall(i, z3.Implies(in_range(i, 0, nA + nB), res.group_idx.at(i) == z3.If(i < nA, a.group_idx.at(i), b.group_idx.at(i - nA))))),
        ]

    return Contract(qualname="concatenate", file="flox/aggregations.py", prefix="C10.concatenate", params=params, requires=requires, ensures=ensures, serves=("C10", "C03"))


def scan_binary_op_contract(mode, right_kind):
    """mode: 'apply_binary_op' | 'concat_then_scan' | 'other'; right_kind: 'state' (a reduced block) | 'result' (a scanned block)."""
    bop = BinaryOp()

    def params(ex):
        left = AARec(sym_seq("left_values", V.Val), sym_seq("left_codes"))
        right = AARec(sym_seq("right_values", V.Val), sym_seq("right_codes"))
        agg = Record("Scan", mode=mode, binary_op=bop if mode == "apply_binary_op" else None, scan="nancumsum" if mode == "apply_binary_op" else "ffill",
                     identity=z3.Const("identity", V.Val) if mode == "apply_binary_op" else V.nan)
        return {"left_state": Record("ScanState", state=left, result=None),
                "right_state": Record("ScanState", state=right if right_kind == "state" else None, result=right if right_kind == "result" else None), "agg": agg}

    def _lr(env):
        L = env["left_state"].fields["state"]
        R = env["right_state"].fields["state" if right_kind == "state" else "result"]
        return L, R

    def requires(ex, env):
        L, R = _lr(env)
        i, j = fresh("i"), fresh("j")
        r = [L.array.length == L.group_idx.length, R.array.length == R.group_idx.length, L.array.length >= 0, R.array.length >= 0,
             # the state of the blocks so far holds one entry per code (what chunk_reduce / .last() return)
             z3.ForAll([i, j], z3.Implies(z3.And(in_range(i, 0, L.group_idx.length), in_range(j, 0, L.group_idx.length), i != j), L.group_idx.at(i) != L.group_idx.at(j)))]
        if mode == "apply_binary_op":
            # nancumsum refuses missing labels: codes are >= 0; blocks are not empty
            r += [R.group_idx.length >= 1, forall(i, z3.Implies(in_range(i, 0, R.group_idx.length), R.group_idx.at(i) >= 0))]
        return r

    def virtual_result(ex, L, R, identity):
        """RV(i): what the binary op yields at position i of the right block; defined by its two defining clauses"""
        RV = z3.Function(f"right_after_op!{fresh('v').decl().name()}", I, V.Val)
        i, p = fresh("i"), fresh("p")
        nL, nR = L.group_idx.length, R.group_idx.length
        if mode == "apply_binary_op":
            defs = [z3.ForAll([i, p], z3.Implies(z3.And(in_range(i, 0, nR), in_range(p, 0, nL), L.group_idx.at(p) == R.group_idx.at(i)), RV(i) == bop.f(L.array.at(p), R.array.at(i)))),
                    forall(i, z3.Implies(z3.And(in_range(i, 0, nR), forall(p, z3.Implies(in_range(p, 0, nL), L.group_idx.at(p) != R.group_idx.at(i)))), RV(i) == bop.f(identity, R.array.at(i))))]
        else:
            # forward fill of left ++ right, read at the positions of the right block (PV: position of the source value, -1: none)
            cg, ca = concat_named(ex, L.group_idx, R.group_idx), concat_named(ex, L.array, R.array)
            PV = z3.Function(f"source_position!{fresh('v').decl().name()}", I, I)
            q = fresh("q")
            here = lambda t: nL + t
            defs = [forall(i, z3.Implies(in_range(i, 0, nR), z3.Or(
                z3.And(PV(i) == -1, V.is_nan(RV(i)), forall(q, z3.Implies(z3.And(in_range(q, 0, here(i) + 1), cg.at(q) == cg.at(here(i))), V.is_nan(ca.at(q))))),
                z3.And(in_range(PV(i), 0, here(i) + 1), cg.at(PV(i)) == cg.at(here(i)), z3.Not(V.is_nan(ca.at(PV(i)))), RV(i) == ca.at(PV(i)),
                       forall(q, z3.Implies(z3.And(q > PV(i), q <= here(i), cg.at(q) == cg.at(here(i))), V.is_nan(ca.at(q))))))), patterns=[RV(i)])]
        return RV, defs

    def ensures(ex, env, res):
        e = env["__entry__"]
        L, R = _lr(e)
        nL, nR = L.group_idx.length, R.group_idx.length
        RV, defs = virtual_result(ex, L, R, e["agg"].fields["identity"])
        D = z3.And(defs)
        rv_seq = SSeq(nR, lambda t: RV(t), kind="array", elem_sort=V.Val, name="right_after_op")
        S, Rs = res.fields["state"], res.fields["result"]
        i = fresh("i")
        cl = [("canary:definitions", z3.Not(D)), ("result_present_iff_right_is_a_scanned_block", z3.BoolVal((Rs is not None) == (right_kind == "result"))), ("state_present", z3.BoolVal(S is not None))]
        if Rs is not None:
            cl.append(("result_keeps_the_codes_of_the_right_block", z3.And(Rs.group_idx.length == nR, forall(i, z3.Implies(in_range(i, 0, nR), Rs.group_idx.at(i) == R.group_idx.at(i))))))
            cl.append(("result_is_right_combined_with_the_state_of_its_own_group", z3.Implies(D, z3.And(Rs.array.length == nR, forall(i, z3.Implies(in_range(i, 0, nR), Rs.array.at(i) == RV(i)))))))
        if S is not None:
            cg, ca = concat_named(ex, L.group_idx, R.group_idx), concat_named(ex, L.array, rv_seq)
            for name, f in last_spec(ex, cg, ca, S.group_idx, S.array):
                cl.append((name, z3.Implies(D, f)))
        return cl

    def exc_ensures(ex, env, exc):
        return [("only_for_an_unknown_mode", z3.BoolVal(mode == "other"))]

    return Contract(qualname="scan_binary_op", file="flox/aggregations.py", prefix=f"C10.scan_binary_op.{mode}.right_{right_kind}", params=params, requires=requires, ensures=ensures,
                    raises=("ValueError",), exc_ensures=exc_ensures, serves=("C10", "C03"), replay=replay_scan(mode, right_kind) if mode != "other" else None,
                    assumed=("AlignedArrays.last (chunk_reduce nanlast with fill NA): last non-NaN value per distinct code", "generic_aggregate(func='ffill', engine='flox'): grouped forward fill",
                             "agg.binary_op is a function applied elementwise", "pandas.Index / RangeIndex constructors", "1-D view of the scanned axis"))


def all_scan():
    out = [concatenate_contract()]
    for mode in ("apply_binary_op", "concat_then_scan"):
        for rk in ("state", "result"):
            c = scan_binary_op_contract(mode, rk)
            c.search = search_scan(mode, rk)
            out.append(c)
    out.append(scan_binary_op_contract("other", "state"))
    return out


# ---------------------------------------------------------------------------------------------
# replay of counter-models on the real scan_binary_op, and the bounded search used when the solver gives none
# ---------------------------------------------------------------------------------------------


def _f(v):
    from .finalize import _val_to_float

    return _val_to_float(v)


def _same(a, b):
    return (a == b) or (a != a and b != b)


def reference(La, Lg, Ra, Rg, mode, identity=0.0):
    """The postcondition of scan_binary_op evaluated directly (independent of flox)."""
    nan = float("nan")
    if mode == "apply_binary_op":
        left_of = dict(zip(Lg, La))
        rv = [left_of.get(g, identity) + a for g, a in zip(Rg, Ra)]
    else:
        cg, ca = list(Lg) + list(Rg), list(La) + list(Ra)
        seen, ff = {}, []
        for g, a in zip(cg, ca):
            if a == a:
                seen[g] = a
            ff.append(seen.get(g, nan))
        rv = ff[len(Lg):]
    cg, ca = list(Lg) + list(Rg), list(La) + rv
    state = {}
    for g, a in zip(cg, ca):
        if a == a or g not in state:
            state[g] = a if a == a else state.get(g, nan)
    return rv, state


def run_real(La, Lg, Ra, Rg, mode, right_kind):
    import numpy as np

    from flox import aggregations as A

    agg = A.nancumsum if mode == "apply_binary_op" else A.ffill
    left = A.ScanState(state=A.AlignedArrays(array=np.array(La, dtype="float64"), group_idx=np.array(Lg, dtype="int64")), result=None)
    r = A.AlignedArrays(array=np.array(Ra, dtype="float64"), group_idx=np.array(Rg, dtype="int64"))
    right = A.ScanState(state=r if right_kind == "state" else None, result=r if right_kind == "result" else None)
    return A.scan_binary_op(left, right, agg=agg)


def check_real(La, Lg, Ra, Rg, mode, right_kind):
    """None if the real function meets the postcondition on this input, else the list of violated clauses."""
    out = run_real(La, Lg, Ra, Rg, mode, right_kind)
    rv, state = reference(La, Lg, Ra, Rg, mode)
    bad = []
    if (out.result is not None) != (right_kind == "result"):
        bad.append("result_present_iff_right_is_a_scanned_block")
    if out.result is not None:
        if list(out.result.group_idx) != list(Rg):
            bad.append("result_keeps_the_codes_of_the_right_block")
        if len(out.result.array) != len(rv) or not all(_same(float(a), b) for a, b in zip(out.result.array, rv)):
            bad.append("result_is_right_combined_with_the_state_of_its_own_group")
    if out.state is None:
        bad.append("state_present")
    else:
        sg = [int(g) for g in out.state.group_idx]
        if len(set(sg)) != len(sg):
            bad.append("state_groups_distinct")
        if set(sg) != set(state):
            bad.append("state_covers_every_code_seen")
        elif not all(_same(float(v), state[g]) for g, v in zip(sg, out.state.array)):
            bad.append("state_is_last_valid_value")
    return bad or None


def replay_scan(mode, right_kind):
    def replay(cm):
        import json

        L = cm["left_state"]["state"]
        R = cm["right_state"]["state" if right_kind == "state" else "result"]
        if not all(isinstance(x, list) for x in (L["array"], L["group_idx"], R["array"], R["group_idx"])):
            return None, "counter-model too large to replay"
        La, Lg, Ra, Rg = [_f(v) for v in L["array"]], list(L["group_idx"]), [_f(v) for v in R["array"]], list(R["group_idx"])
        if len(set(Lg)) != len(Lg) or len(La) != len(Lg) or len(Ra) != len(Rg) or (mode == "apply_binary_op" and (not Rg or min(Rg) < 0)):
            return None, "outside the precondition"
        bad = check_real(La, Lg, Ra, Rg, mode, right_kind)
        return bool(bad), json.dumps({"verdict": "violated" if bad else "held", "clauses": bad or [], "input": {"left": [La, Lg], "right": [Ra, Rg]}}, default=str)

    return replay


def search_scan(mode, right_kind):
    def search():
        import itertools

        nan = float("nan")
        vals = (1.0, nan, 2.0)
        codes = (0, 1, 2)
        for nL in (0, 1, 2):
            for Lg in itertools.permutations(codes, nL):
                for La in itertools.product(vals, repeat=nL):
                    for nR in (1, 2, 3):
                        for Rg in itertools.product(codes, repeat=nR):
                            if right_kind == "state" and len(set(Rg)) != nR:
                                continue  # a reduced block holds one entry per code
                            for Ra in itertools.product(vals, repeat=nR):
                                if mode == "apply_binary_op" and any(a != a for a in Ra + La):
                                    continue  # nancumsum intermediates are never NaN
                                try:
                                    bad = check_real(list(La), list(Lg), list(Ra), list(Rg), mode, right_kind)
                                except Exception as e:
                                    bad = [f"raised {type(e).__name__}: {e}"]
                                if bad:
                                    return {"left": [list(La), list(Lg)], "right": [list(Ra), list(Rg)], "mode": mode, "right_kind": right_kind}, f"clauses {bad}"
        return None

    return search
