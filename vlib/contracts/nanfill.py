"""Sidecar contract of flox.aggregate_flox._nan_grouped_op for INTEGER data (C11.nan_neutral_dtype; protects fix F43): dtype
protocol of the neutral replacement for NaN.

For nanmax / nanmin the replacement for missing values is the smallest / largest value OF A DTYPE. It is written into a copy of
the data (np.where(isnull(array), fillna, array)), so it has to be representable in the data's dtype: NumPy raises OverflowError
for a Python integer outside it (iinfo(int64).max written next to int16 data). What is proved, for data of an integer dtype and a
requested result dtype that is absent or a different (wider) one:
  * the neutral element handed to np.where is taken from the dtype of the array it is written into (the obligation that fails on
    the pre-F43 source, which took it from the requested dtype);
  * the grouped min / max is called once, on the caller's codes and on that masked copy, with the caller's keyword arguments
    (size, fill_value and the requested dtype) handed on unchanged, and its result is what is returned;
  * the floating-point post-processing (groups without a valid member) is not entered for an integer neutral element.
ASSUMED: xrdtypes._get_fill_value(dtype, INF / NINF) of an integer dtype is iinfo(dtype).max / .min; np.where(c, x, y) with a Python
integer x needs x representable in y's dtype and returns an array of y's dtype.
The VALUE contract of _nan_grouped_op (floating data, extended reals) is C20.nan_grouped_op.* in kernels.py.
"""

from __future__ import annotations

import z3

from ..pyvc.engine import Contract
from ..pyvc.prims import Method, ModRef, Opaque, Record


class IArr(Record):
    def __init__(self, dtype, history=()):
        super().__init__("ndarray")
        self.dtype, self.history = dtype, tuple(history)

    def pyvc_getattr(self, ex, st, attr, node, prims):
        if attr == "dtype":
            return self.dtype
        return Method(self, attr)


class Neutral(Record):
    """iinfo(for_dtype).max / .min as a Python integer"""

    def __init__(self, for_dtype, which):
        super().__init__("python-int")
        self.for_dtype, self.which = for_dtype, which


def nanfill_contract(which, requested):
    ghost = {}
    sentinel = ModRef("flox.xrdtypes.NINF" if which == "nanmax" else "flox.xrdtypes.INF")

    class Func:
        def pyvc_call(self, ex, st, args, kwargs, node, prims):
            ghost.setdefault("calls", []).append((list(args), dict(kwargs)))
            out = IArr(kwargs.get("dtype") or ghost["in_dtype"], history=("grouped-" + which[3:],))
            ghost["result"] = out
            return out

    def params(ex):
        ghost.clear()
        in_dtype = Record("dtype", kind="i", token="input")
        ghost["in_dtype"] = in_dtype
        req = Record("dtype", kind="i", token="requested") if requested else None
        return {"group_idx": Opaque("codes"), "array": IArr(in_dtype), "func": Func(), "fillna": sentinel, "args": (),
                "kwargs": {"axis": -1, "size": z3.Int("size"), "fill_value": Opaque("fill"), "dtype": req}}

    def c_get_fill_value(ex, st, a, k, node):
        return Neutral(a[0], "min" if isinstance(a[1], ModRef) and a[1].path.endswith("NINF") else "max")

    def c_isnull(ex, st, a, k, node):
        return Opaque("mask")

    def m_where(ex, st, a, k, node):
        cond, x, y = a
        if isinstance(x, Neutral) and isinstance(y, IArr):
            ex.oblige(st, z3.BoolVal(x.for_dtype is y.dtype), ex._name("numpy.where.python_int_representable", node),
                      f"line {node.lineno}: the integer written next to the data is the extreme of the DATA's dtype (NumPy raises OverflowError for a Python integer outside the dtype of the array)")
            out = IArr(y.dtype, history=("masked", x.which))
            ghost["masked"] = out
            return out
        raise NotImplementedError("np.where of these operands")

    def models(prims):
        prims.register("numpy.where", m_where)

    def ensures(ex, env, res):
        e = env["__entry__"]
        calls = ghost.get("calls", [])
        cl = [("grouped_extreme_called_once", z3.BoolVal(len(calls) == 1))]
        if len(calls) != 1:
            return cl
        args, kw = calls[0]
        cl += [
            ("on_the_callers_codes_and_the_masked_copy", z3.BoolVal(len(args) == 2 and args[0] is e["group_idx"] and args[1] is ghost.get("masked"))),
            ("missing_values_replaced_by_the_matching_extreme", z3.BoolVal(ghost.get("masked") is not None and ghost["masked"].history == ("masked", "min" if which == "nanmax" else "max"))),
            ("keyword_arguments_handed_on", z3.BoolVal(all(kw.get(k_) is v_ or kw.get(k_) == v_ for k_, v_ in e["kwargs"].items()) and set(kw) == set(e["kwargs"]))),
            ("returns_the_grouped_extreme", z3.BoolVal(res is ghost.get("result"))),
        ]
        return cl

    c = Contract(qualname="_nan_grouped_op", file="flox/aggregate_flox.py", prefix=f"C11.nan_neutral_dtype.{which}.{'dtype_requested' if requested else 'dtype_none'}", params=params, ensures=ensures, serves=("C11", "C20"),
                 assumed=("xrdtypes._get_fill_value(integer dtype, INF / NINF) = iinfo(dtype).max / .min", "np.where(c, <python int>, y) needs the integer representable in y's dtype (NumPy >= 2) and returns y's dtype",
                          "value contract of _nan_grouped_op: C20.nan_grouped_op.* (floating data)"))
    c.search = search_nanfill
    return c, {"_get_fill_value": c_get_fill_value, "isnull": c_isnull, "nanlen": lambda ex, st, a, k, node: Opaque("counts")}, models


def all_nanfill():
    return [nanfill_contract(w, r) for w in ("nanmax", "nanmin") for r in (False, True)]


def search_nanfill():
    """bounded search on the real functions: every integer width of data x every requested integer / float dtype"""
    import numpy as np

    from flox import aggregate_flox as F

    codes = np.array([0, 0, 1, 2, 2, 2])
    for func in ("nanmax", "nanmin"):
        for dt in ("int8", "int16", "int32", "int64", "uint8", "uint16", "uint32"):
            data = np.array([3, 1, 2, 5, 7, 4], dtype=dt)
            for req in (None, "int64", "int32", "float64"):
                case = dict(func=func, data_dtype=dt, dtype=req)
                try:
                    got = getattr(F, func)(codes, data, size=3, fill_value=0, dtype=None if req is None else np.dtype(req))
                except Exception as ex_:
                    return case, f"raised {type(ex_).__name__}: {ex_}"
                want = [getattr(np, func[3:])(data[codes == g]) for g in range(3)]
                if got.tolist() != [int(w) for w in want]:
                    return case, f"got {got.tolist()}, per-group np.{func[3:]} gives {want}"
    return None
