"""Sidecar contract of flox.core._find_unique_groups (C12.labels_found_at_compute_time): the labels of a combine step are the
non-missing labels found by its input blocks, each once, ascending - or the single placeholder NaN when no block found any.

Two input blocks (the fan-in is immaterial: deepmap/flatten concatenate whatever number of member lists), labels as extended reals
(NaN = missing). PROVED, given the callee contracts below:
  * every non-missing label found by either block is in the result (nothing is lost);
  * every member of the result is a non-missing label of one of the blocks (nothing is invented) - unless no block has one, in
    which case the result is exactly [NaN];
  * the result is strictly ascending (each label once, sorted).
ASSUMED: listify_groups (proved: C12.listify_groups) hands on the members of a block's groups array in order;
dask.utils.deepmap / dask.base.flatten apply it to every block and concatenate; _unique = np.sort(pd.unique(.)) returns the
distinct members ascending with at most one NaN, last (conformance-tested); boolean-mask indexing keeps the selected members in
order; notnull is `not NaN` on floating labels.
"""

from __future__ import annotations

import z3

from ..pyvc import valsort as V
from ..pyvc.engine import B, Contract, I, SSeq, forall, fresh, in_range
from ..pyvc.prims import ModRef, Record
from .kernels import sym_seq
from .scan import concat_named


GHOST = {}


class Block(Record):
    def __init__(self, groups):
        super().__init__("IntermediateDict")
        self.groups = groups


def c_listify(ex, st, a, k, node):
    blk = a[0]
    return blk.groups


def c_unique(ex, st, a, k, node):
    x = a[0]
    tag = fresh("u").decl().name()
    U = z3.Function(f"unique!{tag}", I, V.Val)
    n = fresh("nunique")
    i, j = fresh("i"), fresh("j")
    st.assume(z3.And(n >= 0, n <= x.length, z3.Implies(x.length >= 1, n >= 1)))
    # members of the result are members of the input ...
    W = z3.Function(f"unique_src!{tag}", I, I)
    st.assume(forall(j, z3.Implies(in_range(j, 0, n), z3.And(in_range(W(j), 0, x.length), x.at(W(j)) == U(j))), patterns=[U(j)]))
    # ... every member of the input is in the result ...
    R_ = z3.Function(f"unique_pos!{tag}", I, I)
    st.assume(forall(i, z3.Implies(in_range(i, 0, x.length), z3.And(in_range(R_(i), 0, n), U(R_(i)) == x.at(i))), patterns=[x.at(i)]))
    # ... distinct and ascending, NaN (at most one) last
    s_, t_ = fresh("s"), fresh("t")
    st.assume(z3.ForAll([s_, t_], z3.Implies(z3.And(0 <= s_, s_ < t_, t_ < n), z3.And(z3.Not(V.is_nan(U(s_))), z3.Or(V.is_nan(U(t_)), V.v_lt(U(s_), U(t_))))), patterns=[z3.MultiPattern(U(s_), U(t_))]))
    GHOST.update(x=x, U=U, W=W, Rpos=R_)
    return SSeq(n, lambda t: U(t), kind="array", elem_sort=V.Val, name="unique")


def c_notnull(ex, st, a, k, node):
    x = a[0]
    GHOST["mask"] = SSeq(x.length, lambda t: z3.Not(V.is_nan(x.fn(t))), kind="array", elem_sort=B, name="notnull")
    return GHOST["mask"]


def register_models(prims):
    def m_deepmap(ex, st, a, k, node):
        f, xs = a
        out = []
        for x in xs:
            (s2, v), = prims.call(ex, st, f, [x], {}, node)
            out.append(v)
        return out

    def m_flatten(ex, st, a, k, node):
        xs = list(a[0])
        out = xs[0]
        for y in xs[1:]:
            out = concat_named(ex, out, y)
        return out

    o_array = prims.models["numpy.array"]

    def m_array(ex, st, a, k, node):
        x = a[0]
        if isinstance(x, list) and len(x) == 1:
            e0 = x[0]
            if (isinstance(e0, ModRef) and e0.path == "numpy.nan") or (isinstance(e0, float) and e0 != e0) or (z3.is_expr(e0) and (e0.sort() == V.Val or str(e0) == "NaN")):
                v0 = e0 if (z3.is_expr(e0) and e0.sort() == V.Val) else V.nan
                return SSeq(z3.IntVal(1), lambda t: v0, kind="array", elem_sort=V.Val, name="placeholder")
        return o_array(ex, st, a, k, node)

    prims.register("dask.utils.deepmap", m_deepmap)
    prims.register("dask.base.flatten", m_flatten)
    prims.register("numpy.array", m_array)


def find_unique_groups_contract():
    box = {}

    def params(ex):
        GHOST.clear()
        a, b = sym_seq("groups_block0", V.Val), sym_seq("groups_block1", V.Val)
        box.update(a=a, b=b)
        return {"x_chunk": [Block(a), Block(b)]}

    def requires(ex, env):
        return [box["a"].length >= 1, box["b"].length >= 1]

    def ensures(ex, env, res):
        """Witness forms: the position of a found label in the result is named (rank, among the non-missing members, of its
        position among the distinct members), which is stronger than "it occurs somewhere" and needs no existential search."""
        a, b = box["a"], box["b"]
        if not all(k_ in GHOST for k_ in ("x", "mask")) or getattr(GHOST["mask"], "_nz", None) is None or not isinstance(res, SSeq) or res.elem_sort != V.Val:
            return [("distinct_members_taken_and_missing_ones_filtered_out", z3.BoolVal(False))]
        x, W, Rpos, mask = GHOST["x"], GHOST["W"], GHOST["Rpos"], GHOST["mask"]
        m, P, R = mask._nz
        i, j = fresh("i"), fresh("j")
        nA = a.length
        valid = lambda v: z3.Not(V.is_nan(v))
        some_valid = z3.Or(z3.Exists([i], z3.And(in_range(i, 0, a.length), valid(a.at(i)))), z3.Exists([i], z3.And(in_range(i, 0, b.length), valid(b.at(i)))))

        def kept(member, q):
            w = R(Rpos(q))
            return z3.And(x.at(q) == member, in_range(w, 0, res.length), res.at(w) == member)

        src = W(P(j))
        return [
            ("no_label_lost_block0", forall(i, z3.Implies(z3.And(in_range(i, 0, a.length), valid(a.at(i))), kept(a.at(i), i)))),
            ("no_label_lost_block1", forall(i, z3.Implies(z3.And(in_range(i, 0, b.length), valid(b.at(i))), kept(b.at(i), nA + i)))),
            ("no_label_invented", z3.Implies(some_valid, forall(j, z3.Implies(in_range(j, 0, res.length), z3.And(valid(res.at(j)), in_range(src, 0, nA + b.length), z3.If(src < nA, a.at(src) == res.at(j), b.at(src - nA) == res.at(j))))))),
            ("placeholder_when_nothing_was_found", z3.Implies(z3.Not(some_valid), z3.And(res.length == 1, V.is_nan(res.at(0))))),
            ("each_label_once_ascending", z3.Implies(some_valid, forall(j, z3.Implies(in_range(j, 0, res.length - 1), V.v_lt(res.at(j), res.at(j + 1)))))),
        ]

    c = Contract(qualname="_find_unique_groups", file="flox/core.py", prefix="C12.find_unique_groups", params=params, requires=requires, ensures=ensures, serves=("C12", "C16"),
                 assumed=("listify_groups hands on the members of a block's groups in order (proved: C12.listify_groups)", "dask.utils.deepmap / dask.base.flatten: apply to every block, concatenate",
                          "_unique = np.sort(pd.unique(.)): distinct members ascending, at most one NaN, last (conformance-tested)", "boolean-mask indexing keeps the selected members in order"))
    c.search = search_find_unique
    c.chain_ensures = True
    return c, {"listify_groups": c_listify, "_unique": c_unique, "notnull": c_notnull}


def search_find_unique():
    import itertools

    import numpy as np

    from flox.core import _find_unique_groups

    nan = float("nan")
    alphabet = [1.0, 2.0, 3.0, nan]
    for n0, n1 in ((1, 1), (2, 1), (2, 2), (1, 3)):
        for a in itertools.product(alphabet, repeat=n0):
            for b in itertools.product(alphabet, repeat=n1):
                got = _find_unique_groups([{"groups": np.array(a)}, {"groups": np.array(b)}])
                want = sorted({v for v in a + b if v == v})
                ok = (got.tolist() == want) if want else (len(got) == 1 and got[0] != got[0])
                if not ok:
                    return dict(block0=list(map(str, a)), block1=list(map(str, b))), f"got {got.tolist()}, the non-missing labels found are {want}"
    return None
