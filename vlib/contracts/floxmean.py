"""Sidecar contract of flox.aggregate_flox.mean / nanmean (C11.mean_dtype, C01; protects fix F42): the engine='flox' grouped
mean is the grouped (nan)sum accumulated in the requested dtype divided by the number of valid members, and the division
obeys NumPy's casting rule: a true division stored into an INTEGER array is refused by NumPy (UFuncTypeError) unless
casting="unsafe" is asked for, in which case the quotient is truncated towards zero like np.mean(x, dtype=<integer>).

What is proved (func in {mean, nanmean} x requested dtype kind in {floating, integer}, fill_value given / None):
  * no exception: the division is admissible for the dtype of the sums (the obligation that fails on the pre-F42 source);
  * the result keeps the dtype of the sums (= the requested dtype);
  * for every group with at least one valid member: floating: result * count == sum; integer: result is the exact mean q = sum / count
    truncated towards zero (an integer with |q| - 1 < |result| <= |q| and the sign of q);
  * protocol: the sums and the counts are taken over the SAME codes, data and number of groups, the counts with
    fill_value=0, the sums with the caller's fill_value (0 when none is given), dtype handed on.
What is ASSUMED: `sum` / `nansum` (contracts proved in kernels.py: C01.grouped_op / nan_op) return one entry per group with
the requested dtype; `nanlen` returns non-negative integer counts; np.divide(a, b, out=a, casting=...) is the elementwise
true quotient stored into a, truncated towards zero when a is an integer array.
"""

from __future__ import annotations

import z3

from ..pyvc.engine import Contract, I, SSeq, forall, fresh, in_range
from ..pyvc.prims import Opaque, Record
from .kernels import sym_seq

R = z3.RealSort()
QUOT = z3.Function("exact_quotient", R, I, R)


def trunc(q):
    return z3.If(q >= 0, z3.ToInt(q), -z3.ToInt(-q))


class GArr(Record):
    """one value per group, known by its dtype kind ('f' | 'i')"""

    def __init__(self, kind, vals, dtype_token):
        super().__init__("ndarray", kind=kind)
        self.kind_, self.vals, self.token = kind, vals, dtype_token

    def quotient(self, ex, counts, kind):
        U = z3.Function(f"undefined_quotient!{fresh('u').decl().name()}", I, R if kind == "f" else I)  # 0/0, x/0: NaN, +-inf or an arbitrary integer after the cast
        vals = self.vals

        def q(g):
            # floating: mathematical real division; integer: the same quotient kept abstract (QUOT) - the truncation facts are
            # linear in it and hold for every interpretation, real division included (keeps nonlinear arithmetic out of the query)
            exact = vals.fn(g) / z3.ToReal(counts.fn(g)) if kind == "f" else QUOT(vals.fn(g), counts.fn(g))
            return z3.If(counts.fn(g) > 0, exact if kind == "f" else trunc(exact), U(g))

        # an integer result is integer-SORTED (integrality by construction)
        return GArr(kind, SSeq(vals.length, q, kind="array", elem_sort=(R if kind == "f" else I), name="quotient"), self.token)

    def pyvc_iop(self, ex, st, op, rhs, node):
        """out /= counts : in-place true division keeps out's dtype; NumPy refuses it for integer arrays"""
        import ast

        if not isinstance(op, ast.Div) or not isinstance(rhs, SSeq):
            raise NotImplementedError("in-place operator on a grouped array")
        ex.oblige(st, z3.BoolVal(self.kind_ == "f"), ex._name("numpy.casting.inplace_true_divide", node), f"line {node.lineno}: in-place true division needs a floating array (NumPy raises UFuncTypeError for an integer one)")
        ex.oblige(st, rhs.length == self.vals.length, ex._name("broadcast", node), f"line {node.lineno}: as many counts as sums")
        return self.quotient(ex, rhs, self.kind_)


def floxmean_contract(func, kind, fill_given):
    ghost = {}

    def params(ex):
        ghost.clear()
        dtype = Record("dtype", kind=kind, token="requested")
        return {"group_idx": Opaque("codes"), "array": Opaque("data"), "axis": -1, "size": z3.Int("size"), "fill_value": (Opaque("fill") if fill_given else None), "dtype": dtype}

    def requires(ex, env):
        return [env["size"] >= 0]

    def c_sum(which):
        def callee(ex, st, a, k, node):
            ghost["sum"] = (which, list(a), dict(k))
            vals = sym_seq("sums", R)
            st.assume(vals.length == k["size"])
            ghost["sums"] = vals
            return GArr(kind, vals, k.get("dtype"))

        return callee

    def c_nanlen(ex, st, a, k, node):
        ghost["nanlen"] = (list(a), dict(k))
        cnt = sym_seq("counts", I)
        g = fresh("g")
        st.assume(z3.And(cnt.length == k["size"], forall(g, z3.Implies(in_range(g, 0, cnt.length), cnt.at(g) >= 0))))
        ghost["counts"] = cnt
        return cnt

    def m_divide(ex, st, a, k, node):
        x, y = a[0], a[1]
        out = k.get("out")
        if not (isinstance(x, GArr) and isinstance(y, SSeq)):
            raise NotImplementedError("np.divide of these operands")
        target = out if out is not None else None
        if target is None:
            return x.quotient(ex, y, "f")  # a new floating array
        ok = isinstance(target, GArr) and (target.kind_ == "f" or k.get("casting") == "unsafe")
        ex.oblige(st, z3.BoolVal(bool(ok)), ex._name("numpy.casting.true_divide_into_out", node), f"line {node.lineno}: a true quotient is stored into an integer array only with casting='unsafe' (NumPy raises UFuncTypeError otherwise)")
        ex.oblige(st, y.length == x.vals.length, ex._name("broadcast", node), f"line {node.lineno}: as many counts as sums")
        return x.quotient(ex, y, target.kind_ if isinstance(target, GArr) else "f")

    def models(prims):
        prims.register("numpy.divide", m_divide)
        prims.register("numpy.true_divide", m_divide)

    def ensures(ex, env, res):
        e = env["__entry__"]
        cl = [("sums_and_counts_taken", z3.BoolVal("sum" in ghost and "nanlen" in ghost))]
        if not ("sum" in ghost and "nanlen" in ghost):
            return cl
        which, sa, sk = ghost["sum"]
        na, nk = ghost["nanlen"]
        want_fill = e["fill_value"] if fill_given else 0
        cl += [
            ("sums_by_the_matching_kernel", z3.BoolVal(which == ("sum" if func == "mean" else "nansum"))),
            ("sums_over_the_callers_codes_data_and_size", z3.BoolVal(len(sa) == 2 and sa[0] is e["group_idx"] and sa[1] is e["array"] and sk.get("size") is e["size"] and sk.get("axis") == e["axis"])),
            ("sums_accumulated_in_the_requested_dtype", z3.BoolVal(sk.get("dtype") is e["dtype"])),
            ("sums_filled_with_the_callers_fill_or_zero", z3.BoolVal(sk.get("fill_value") is want_fill or (not fill_given and sk.get("fill_value") == 0))),
            ("counts_over_the_same_codes_data_and_size", z3.BoolVal(len(na) == 2 and na[0] is e["group_idx"] and na[1] is e["array"] and nk.get("size") is e["size"] and nk.get("axis") == e["axis"] and nk.get("fill_value") == 0)),
            ("result_keeps_the_requested_dtype", z3.BoolVal(isinstance(res, GArr) and res.kind_ == kind and res.token is e["dtype"])),
        ]
        if isinstance(res, GArr):
            s, c, r = ghost["sums"], ghost["counts"], res.vals
            g = fresh("g")
            cl.append(("one_value_per_group", r.length == e["size"]))
            if kind == "f":
                cl.append(("mean_times_count_is_the_sum", forall(g, z3.Implies(z3.And(in_range(g, 0, e["size"]), c.at(g) > 0), r.at(g) * z3.ToReal(c.at(g)) == s.at(g)))))
            else:
                q = QUOT(s.at(g), c.at(g))  # the exact mean sum / count
                ab = lambda t: z3.If(t >= 0, t, -t)
                rr = z3.ToReal(r.at(g)) if r.elem_sort == I else r.at(g)
                cl.append(("integer_mean_is_the_quotient_truncated_towards_zero", forall(g, z3.Implies(z3.And(in_range(g, 0, e["size"]), c.at(g) > 0),
                          z3.And(ab(rr) <= ab(q), ab(q) - 1 < ab(rr), z3.Implies(rr != 0, (rr > 0) == (q > 0)))))))
        return cl

    c = Contract(qualname=func, file="flox/aggregate_flox.py", prefix=f"C11.flox_{func}.dtype_{kind}.{'fill' if fill_given else 'nofill'}", params=params, requires=requires, ensures=ensures, serves=("C11", "C01"),
                 assumed=("aggregate_flox.sum / nansum return one entry per group in the requested dtype (their values: contracts C01.grouped_op / nan_op)", "aggregate_flox.nanlen returns the non-negative number of valid members per group",
                          "np.divide(a, b, out=a, casting=...) stores the elementwise true quotient into a, truncated towards zero for an integer a; it raises UFuncTypeError for an integer a unless casting='unsafe'"))
    c.search = search_floxmean
    return c, {"sum": c_sum("sum"), "nansum": c_sum("nansum"), "nanlen": c_nanlen}, models


def all_floxmean():
    return [floxmean_contract(func, kind, fg) for func in ("mean", "nanmean") for kind in ("f", "i") for fg in (False, True)]


def search_floxmean():
    """bounded search on the real functions: small sorted-code inputs, every dtype= kind, against np.mean of each group"""
    import numpy as np

    from flox import aggregate_flox as F

    codes = np.array([0, 0, 1, 2, 2, 2])
    for func in ("mean", "nanmean"):
        for data in (np.array([3, 1, 2, 5, -7, 4]), np.array([3.0, 1.5, 2.0, 5.0, -7.0, 4.0])):
            for dt in ("int64", "int32", "float64", "float32"):
                case = dict(func=func, data=data.tolist(), codes=codes.tolist(), dtype=dt)
                try:
                    got = getattr(F, func)(codes, data, size=3, dtype=np.dtype(dt))
                except Exception as ex_:
                    return case, f"raised {type(ex_).__name__}: {ex_}"
                want = np.array([np.mean(data[codes == g], dtype=np.dtype(dt)) for g in range(3)])
                if got.dtype != np.dtype(dt) or not np.allclose(got, want):
                    return case, f"got {got.tolist()} ({got.dtype}), np.mean(dtype={dt}) per group gives {want.tolist()}"
    return None
