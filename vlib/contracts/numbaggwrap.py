"""Sidecar contract of flox.aggregate_numbagg._numbagg_wrapper (C20.accumulation_dtype, protects fix F29):
for nansum / nanprod / nansum_of_squares of integer or bool data with a requested integer / float result dtype, the data
handed to numbagg's kernel already HAS that dtype (numbagg accumulates at the width of its input), codes and the number of
labels are handed on, and the result is cast to the requested dtype."""

from __future__ import annotations

import z3

from ..pyvc.engine import Contract, fresh
from ..pyvc.prims import ModRef, Opaque, Record

ACCUMULATING = ("nansum", "nanprod", "nansum_of_squares")


class DArr(Record):
    """an array known by its dtype: kind (one letter) and an identity token for the dtype object"""

    def __init__(self, kind, dtype_token, history=()):
        super().__init__("ndarray", dtype=Record("dtype", kind=kind, token=dtype_token))
        self.kind_, self.token, self.history = kind, dtype_token, tuple(history)

    def pyvc_getattr(self, ex, st, attr, node, prims):
        from ..pyvc.prims import Method

        if attr == "dtype":
            return self.fields["dtype"]
        return Method(self, attr)

    def pyvc_method(self, ex, st, attr, args, kwargs, node, prims):
        if attr == "astype":
            t = args[0]
            kind = t.fields["kind"] if isinstance(t, Record) and "kind" in t.fields else None
            return DArr(kind, t, history=self.history + (("astype", t),))
        raise NotImplementedError(attr)


def numbagg_wrapper_contract(func, in_kind, dtype_kind):
    """in_kind: dtype kind of the data; dtype_kind: kind of the requested dtype or None"""
    ghost = {}

    def params(ex):
        ghost.clear()
        want = Record("dtype", kind=dtype_kind, token="requested") if dtype_kind is not None else None
        return {"group_idx": Opaque("codes"), "array": DArr(in_kind, "input-dtype"), "func": func, "axis": -1, "size": z3.Int("size"), "fill_value": Opaque("fill"), "dtype": want, "kwargs": {}}

    def ensures(ex, env, res):
        e = env["__entry__"]
        cl = [("one_kernel_call", z3.BoolVal("call" in ghost))]
        if "call" not in ghost:
            return cl
        name, args, kw = ghost["call"]
        data = args[0]
        must_cast = func in ACCUMULATING and dtype_kind is not None and in_kind in "iub" and dtype_kind in "iuf"
        cl += [
            ("kernel_is_the_grouped_function_asked_for", z3.BoolVal(name == f"group_{func}")),
            ("codes_and_number_of_labels_handed_on", z3.BoolVal(len(args) == 2 and args[1] is e["group_idx"] and kw.get("num_labels") is e["size"] and kw.get("axis") == -1)),
            ("integer_data_is_accumulated_in_the_requested_dtype", z3.BoolVal((not must_cast) or (isinstance(data, DArr) and data.token is e["dtype"]))),
            ("result_is_cast_to_the_requested_dtype", z3.BoolVal(isinstance(res, DArr) and res.history[-1:] == (("astype", e["dtype"]),))),
        ]
        return cl

    def callees():
        return {}

    def models(prims):
        def np_dtype(ex, st, a, k, node):
            return a[0]  # np.dtype(x) of a dtype is that dtype

        def issubdtype(ex, st, a, k, node):
            return False  # none of the CAST_TO source types (datetime, timedelta, np.int_ for means) is exercised by these variants

        class Kernel:
            def __init__(self, name):
                self.name = name

            def pyvc_call(self, ex, st, args, kwargs, node, prims_):
                ghost["call"] = (self.name, list(args), dict(kwargs))
                return DArr("f", "kernel-output")

        def getattr_(ex, st, a, k, node):
            name = a[1]
            return Kernel(name if isinstance(name, str) else "?")

        prims.register("numpy.dtype", np_dtype)
        prims.register("numpy.issubdtype", issubdtype)
        prims.register("builtins.getattr", getattr_)

    c = Contract(qualname="_numbagg_wrapper", file="flox/aggregate_numbagg.py", prefix=f"C20.numbagg_wrapper.{func}.in_{in_kind}.dtype_{dtype_kind}", params=params, ensures=ensures, serves=("C20", "C01"),
                 assumed=("numbagg.grouped.group_* kernels accumulate in the dtype of their input (external; F35 is the known limit for 64-bit integers)", "CAST_TO source types (datetime, timedelta, np.int_) are not exercised by these variants"))
    return c, callees(), models


def all_numbaggwrap():
    out = []
    for func in ("nansum", "nanprod", "nansum_of_squares", "nanmax"):
        for ik in ("i", "u", "b", "f"):
            for dk in (None, "i", "f"):
                out.append(numbagg_wrapper_contract(func, ik, dk))
    return out
