"""Sidecar contract of flox.aggregations.argreduce_preprocess (C06.global_positions, C14.layer_name; protects fix F2): every block
of a dask array is zipped with the GLOBAL positions of its elements along the reduced axis.

PROVED (rank 1-3, every position of the reduced axis; sizes and chunks symbolic objects compared by identity):
  * NotImplementedError iff more (or fewer) than one axis is given, before any graph is built;
  * the positions are dask.array.arange(array.shape[axis]) - the length of THAT axis - cut into array.chunks[axis] - the chunks of
    THAT axis, so that block k of the positions lines up with block k of the data - as platform integers;
  * they are broadcast against the data with the full slice at the reduced axis and a new axis everywhere else;
  * one map_blocks call zips (data block, position block), data first, announced with the data's dtype and meta;
  * the layer name contains a token of BOTH the data and the positions (two arrays with different contents or chunks never share
    the layer).
ASSUMED: dask.array.arange / map_blocks / tokenize as documented (arange(n, chunks=c) yields 0..n-1 in chunks c; map_blocks applies
the function blockwise to aligned blocks, broadcasting unit axes).
"""

from __future__ import annotations

import z3

from ..pyvc.engine import Contract
from ..pyvc.prims import ModRef, Opaque, Record


class DArr(Record):
    def __init__(self, ndim):
        super().__init__("DaskArray")
        self.ndim = ndim
        self.shape = tuple(Opaque(f"size{d}") for d in range(ndim))
        self.chunks = tuple(Opaque(f"chunks{d}") for d in range(ndim))
        self.dtype, self._meta = Opaque("dtype"), Opaque("meta")

    def pyvc_getattr(self, ex, st, attr, node, prims):
        if attr in ("ndim", "shape", "chunks", "dtype", "_meta"):
            return getattr(self, attr)
        raise NotImplementedError(attr)


class Positions(Record):
    def __init__(self, n, chunks, dtype, index=None):
        super().__init__("DaskArange")
        self.n, self.chunks, self.dtype, self.index = n, chunks, dtype, index

    def pyvc_getitem(self, ex, st, idx, node, prims):
        return Positions(self.n, self.chunks, self.dtype, index=idx)


class Tok:
    def __init__(self, args):
        self.args = args

    def pyvc_binop(self, ex, st, op, other, flip, node, prims):
        return ("name", other, self.args) if flip else ("name", self.args, other)


def _zips_in_order(f):
    """the local function handed to map_blocks is  def f(a, b): return (a, b)  (read from its AST)"""
    import ast

    if not (isinstance(f, tuple) and len(f) == 2 and f[0] == "localfunc" and isinstance(f[1], ast.FunctionDef)):
        return False
    fn = f[1]
    names = [a.arg for a in fn.args.args]
    body = [s_ for s_ in fn.body if not (isinstance(s_, ast.Expr) and isinstance(s_.value, ast.Constant))]
    if len(names) != 2 or len(body) != 1 or not isinstance(body[0], ast.Return) or not isinstance(body[0].value, ast.Tuple):
        return False
    elts = body[0].value.elts
    return len(elts) == 2 and all(isinstance(e, ast.Name) for e in elts) and [e.id for e in elts] == names


def argpre_contract(ndim, axis):
    """axis: a tuple (one member: the supported case; two: refused)"""
    g = {}

    def params(ex):
        g.clear()
        arr = DArr(ndim)
        g["arr"] = arr
        return {"array": arr, "axis": axis}

    def models(prims):
        def arange(ex, st, a, k, node):
            g.setdefault("arange", []).append((list(a), dict(k)))
            p = Positions(a[0], k.get("chunks"), k.get("dtype"))
            g["pos"] = p
            return p

        def map_blocks(ex, st, a, k, node):
            g.setdefault("map_blocks", []).append((list(a), dict(k)))
            out = Record("ZippedArray")
            g["out"] = out
            return out

        def tokenize(ex, st, a, k, node):
            t = tuple(a)
            g.setdefault("tokenize", []).append(t)
            return Tok(t)

        prims.register("dask.array.arange", arange)
        prims.register("dask.array.map_blocks", map_blocks)
        prims.register("dask.base.tokenize", tokenize)
        prims.register("builtins.slice", lambda ex, st, a, k, n: slice(*a))

    def exc_ensures(ex, env, exc):
        return [("refused_only_for_several_axes", z3.BoolVal(exc == "NotImplementedError" and len(axis) != 1 and "arange" not in g and "map_blocks" not in g))]

    def ensures(ex, env, res):
        arr = g["arr"]
        cl = [("one_axis_given", z3.BoolVal(len(axis) == 1))]
        if len(axis) != 1:
            return cl
        ax = axis[0]
        ar, mb = g.get("arange", []), g.get("map_blocks", [])
        cl.append(("positions_built_once_and_zipped_once", z3.BoolVal(len(ar) == 1 and len(mb) == 1)))
        if not (len(ar) == 1 and len(mb) == 1):
            return cl
        (aa, ak), (ma, mk) = ar[0], mb[0]
        pos = g["pos"]
        zipped_pos = ma[2] if len(ma) >= 3 else None
        want_index = tuple(slice(None) if i == ax else None for i in range(ndim))
        got_index = getattr(zipped_pos, "index", None)
        norm = lambda t: tuple(None if (isinstance(x, ModRef) and x.path.endswith("newaxis")) else x for x in t) if isinstance(t, tuple) else t
        name = mk.get("name")
        toks = g.get("tokenize", [])
        cl += [
            ("positions_span_the_length_of_the_reduced_axis", z3.BoolVal(len(aa) == 1 and aa[0] is arr.shape[ax])),
            ("positions_chunked_like_the_data_along_the_reduced_axis", z3.BoolVal(ak.get("chunks") is arr.chunks[ax])),
            ("positions_are_platform_integers", z3.BoolVal(isinstance(ak.get("dtype"), ModRef) and ak["dtype"].path == "numpy.intp")),
            ("positions_broadcast_along_the_reduced_axis_only", z3.BoolVal(isinstance(zipped_pos, Positions) and norm(got_index) == want_index)),
            ("data_block_first_position_block_second", z3.BoolVal(len(ma) == 3 and ma[1] is arr and isinstance(zipped_pos, Positions) and zipped_pos.n is pos.n and isinstance(ma[0], tuple) and ma[0][0] == "localfunc")),
            ("zipping_function_returns_data_block_then_position_block", z3.BoolVal(_zips_in_order(ma[0]))),
            ("announced_with_the_dtype_and_meta_of_the_data", z3.BoolVal(mk.get("dtype") is arr.dtype and mk.get("meta") is arr._meta)),
            ("layer_name_tokenizes_data_and_positions", z3.BoolVal(isinstance(name, tuple) and len(toks) == 1 and any(t is arr for t in toks[0]) and any(isinstance(t, Positions) for t in toks[0]) and any(x is toks[0] for x in name))),
            ("returns_the_zipped_array", z3.BoolVal(res is g.get("out"))),
        ]
        return cl

    c = Contract(qualname="argreduce_preprocess", file="flox/aggregations.py", prefix=f"C06.argreduce_preprocess.nd{ndim}.ax{''.join(map(str, axis))}", params=params, ensures=ensures, exc_ensures=exc_ensures,
                 raises=("NotImplementedError",), serves=("C06", "C14"),
                 assumed=("dask.array.arange(n, chunks=c, dtype=t): 0..n-1 in chunks c", "dask.array.map_blocks applies the function to aligned blocks, broadcasting unit axes", "dask.base.tokenize is a content token of its arguments"))
    c.search = search_argpre
    return c, {}, models


def all_argpre():
    out = []
    for ndim in (1, 2, 3):
        for ax in range(ndim):
            out.append(argpre_contract(ndim, (ax,)))
    out.append(argpre_contract(2, (0, 1)))
    return out


def search_argpre():
    """bounded search on the real function: the zipped positions of every block are its global positions along the axis"""
    import dask
    import dask.array as da
    import numpy as np

    from flox.aggregations import argreduce_preprocess

    for shape, chunks in (((5,), (2,)), ((4, 6), (3, 4)), ((2, 3, 4), (1, 2, 3))):
        for ax in range(len(shape)):
            x = da.from_array(np.arange(int(np.prod(shape))).reshape(shape), chunks=chunks)
            case = dict(shape=list(shape), chunks=list(chunks), axis=ax)
            try:
                z = argreduce_preprocess(x, (ax,))
                keys = list(dask.core.flatten(z.__dask_keys__()))
                blocks = dask.get(dict(z.__dask_graph__()), keys)
            except Exception as e:
                return case, f"raised {type(e).__name__}: {e}"
            for key, (blk, pos) in zip(keys, blocks):
                k = key[1 + ax]
                start = int(np.sum(x.chunks[ax][:k]))
                want = np.arange(start, start + x.chunks[ax][k])
                if np.asarray(pos).reshape(-1).tolist() != want.tolist() or np.asarray(pos).ndim != len(shape):
                    return case, f"block {key[1:]}: positions {np.asarray(pos).reshape(-1).tolist()} != global positions {want.tolist()}"
    return None
