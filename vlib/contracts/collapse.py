"""Sidecar contract of flox.core._collapse_blocks_along_axes (C08.collapse): the graph layer that re-addresses the blocks of
a method="blockwise" result reduced over SEVERAL axes so that every reduced axis but the last becomes a unit axis and the
last one carries the groups.

What is proved (for 2 and 3 reduced axes, 0 and 1 kept/batch dimensions, symbolic numbers of blocks):
  * the rank is preserved: the collapsed array has as many dimensions as its input (the later `blockwise(_extract_result, ...)`
    addresses it with the input's index string) - one unit chunk axis PER reduced axis but the last;
  * the kept dimensions keep their chunks (the very same objects), the group axis is `group_chunks`;
  * every key written into the new layer has the rank of the announced chunks, and reads a block that exists in the
    input: right rank, every coordinate within the input's numblocks (store protocol, checked at the store on every path);
  * the layer is named after its input ("reshape-" + input name) and the input is declared as its dependency.
What is ASSUMED: np.unravel_index(i, shape) for 0 <= i < prod(shape) returns one in-range coordinate per entry of shape
(conformance-tested); itertools.product yields tuples with one in-range member per factor; dask.array.Array /
HighLevelGraph.from_collections are constructors (no computation).
"""

from __future__ import annotations

import z3

from ..pyvc.engine import Contract, I, SSeq, forall, fresh, in_range
from ..pyvc.prims import Opaque, Record
from .kernels import sym_seq


class ProductIter:
    """itertools.product(r_0, ..., r_m) over ranges of symbolic length: item(k) is a tuple with one arbitrary in-range member per
    factor (digit functions); the order and the exactly-once property are not modelled (not needed per iteration)."""

    def __init__(self, st, seqs):
        self.seqs = seqs
        self.n = fresh("nproduct")
        st.assume(self.n >= 0)
        self.digits = []
        k = fresh("k")
        for j, s in enumerate(seqs):
            d = z3.Function(f"digit{j}!{fresh('d').decl().name()}", I, I)
            st.assume(forall(k, z3.Implies(z3.And(k >= 0, k < self.n), in_range(d(k), 0, s.length)), patterns=[d(k)]))
            self.digits.append(d)

    def length(self):
        return self.n

    def item(self, k, single):
        return tuple(s.at(d(k)) for s, d in zip(self.seqs, self.digits))

    pyvc_iter = True


def m_product(ex, st, a, k, node):
    seqs = [x if isinstance(x, SSeq) else SSeq(z3.IntVal(len(x)), (lambda xs: lambda i: _sel(xs, i))(list(x)), kind="range") for x in a]
    return ProductIter(st, seqs)


def _sel(xs, i):
    out = z3.IntVal(xs[-1]) if xs else z3.IntVal(0)
    for j in range(len(xs) - 2, -1, -1):
        out = z3.If(i == j, z3.IntVal(xs[j]), out)
    return out


def _prod(xs):
    p = None
    for x in xs:
        p = x if p is None else p * x
    return p if p is not None else z3.IntVal(1)


def m_unravel_index_scalar(orig):
    def m(ex, st, a, k, node):
        ind, shape = a[0], a[1]
        if isinstance(ind, SSeq) or not isinstance(shape, tuple):
            return orig(ex, st, a, k, node)
        ex.oblige(st, z3.And(ind >= 0, ind < _prod(list(shape))), ex._name("pre.unravel_index", node), f"line {node.lineno}: np.unravel_index: the flat block number is within the block grid")
        out = []
        for j, s in enumerate(shape):
            r = fresh(f"coord{j}")
            st.assume(in_range(r, 0, s))
            out.append(r)
        return tuple(out)

    return m


def m_from_collections(ex, st, a, k, node):
    return Record("HighLevelGraph", name=a[0], layer=a[1], dependencies=tuple(k.get("dependencies", ())))


def m_dask_array(ex, st, a, k, node):
    graph, name = a[0], a[1]
    chunks = k["chunks"] if "chunks" in k else a[2]
    ok = isinstance(graph, Record) and graph.kind == "HighLevelGraph"
    ex.oblige(st, z3.BoolVal(bool(ok)) if not ok else (graph.fields["name"] == name), ex._name("protocol.array_name_is_layer_name", node), f"line {node.lineno}: the array is named after the layer that holds its keys")
    return Record("DaskArray", name=name, chunks=tuple(chunks), dtype=k.get("dtype"), graph=graph)


def register_models(prims):
    prims.register("itertools.product", m_product)
    prims.register("numpy.unravel_index", m_unravel_index_scalar(prims.models.get("numpy.unravel_index")))
    prims.register("dask.highlevelgraph.HighLevelGraph.from_collections", m_from_collections)
    prims.register("dask.array.Array", m_dask_array)
    prims.register("dask.array.core.Array", m_dask_array)


def collapse_contract(naxis, nbatch):
    ndim = nbatch + naxis
    box = {}

    def params(ex):
        chunks = tuple(sym_seq(f"chunks{d}", kind="tuple") for d in range(ndim))
        numblocks = tuple(c.length for c in chunks)
        reduced = Record("DaskArray", name=z3.String("reduced_name"), chunks=chunks, numblocks=numblocks, dtype=Opaque("dtype"), ndim=ndim)
        group_chunks = (sym_seq("group_chunks", kind="tuple"),)
        box.update(reduced=reduced, group_chunks=group_chunks)
        return {"reduced": reduced, "axis": tuple(range(nbatch, ndim)), "group_chunks": group_chunks}

    def requires(ex, env):
        r = env["reduced"]
        nb = r.fields["numblocks"]
        # one result block per input block along the reduced axes at most (method="blockwise": one per block, or a single one)
        return [n >= 1 for n in nb] + [env["group_chunks"][0].length >= 1, env["group_chunks"][0].length <= _prod(list(nb[nbatch:]))]

    def store_hook(ex, st, key, value, node):
        r = box["reduced"]
        nb = r.fields["numblocks"]
        key_ok = isinstance(key, tuple) and len(key) == ndim + 1
        ex.oblige(st, z3.BoolVal(bool(key_ok)), ex._name("protocol.key_has_the_rank_of_the_input", node), f"line {node.lineno}: a key of the new layer is (name, one block number per dimension of the input)")
        val_ok = isinstance(value, tuple) and len(value) == ndim + 1
        ex.oblige(st, z3.BoolVal(bool(val_ok)) if not val_ok else z3.And(value[0] == r.fields["name"], *[in_range(value[1 + d], 0, nb[d]) for d in range(ndim)]),
                  ex._name("protocol.reads_an_existing_block", node), f"line {node.lineno}: the key read is a block of the input: its name, right rank, every coordinate within numblocks")
        if key_ok and val_ok and nbatch:
            ex.oblige(st, z3.And(*[key[1 + d] == value[1 + d] for d in range(nbatch)]), ex._name("protocol.kept_dimensions_address_the_same_block", node), f"line {node.lineno}: the coordinates of the kept dimensions are passed through")
        st.ghost["stores"] = st.ghost.get("stores", 0) + 1

    def ensures(ex, env, res):
        e = env["__entry__"]
        r = e["reduced"]
        ok = isinstance(res, Record) and res.kind == "DaskArray"
        if not ok:
            return [("returns_an_array", z3.BoolVal(False))]
        ch = res.fields["chunks"]
        cl = [("rank_preserved", z3.BoolVal(len(ch) == ndim))]
        if len(ch) == ndim:
            cl.append(("kept_dimensions_keep_their_chunks", z3.BoolVal(all(ch[d] is r.fields["chunks"][d] for d in range(nbatch)))))
            cl.append(("reduced_axes_but_the_last_become_unit_axes", z3.BoolVal(all(isinstance(ch[d], tuple) and tuple(ch[d]) == (1,) for d in range(nbatch, ndim - 1)))))
            cl.append(("last_axis_carries_the_groups", z3.BoolVal(ch[-1] is e["group_chunks"][0])))
        cl.append(("named_after_its_input", res.fields["name"] == z3.Concat(z3.StringVal("reshape-"), r.fields["name"])))
        g = res.fields["graph"]
        cl.append(("input_declared_as_dependency", z3.BoolVal(isinstance(g, Record) and any(d is r for d in g.fields["dependencies"]))))
        cl.append(("dtype_passed_through", z3.BoolVal(res.fields["dtype"] is r.fields["dtype"])))
        return cl

    c = Contract(qualname="_collapse_blocks_along_axes", file="flox/core.py", prefix=f"C08.collapse.ax{naxis}.batch{nbatch}", params=params, requires=requires, ensures=ensures,
                 invariants={1: lambda ex, env, k: []}, serves=("C08", "C11"),
                 assumed=("np.unravel_index(i, shape), 0 <= i < prod(shape), returns one coordinate within each entry of shape", "itertools.product yields one in-range member per factor",
                          "dask.array.Array and HighLevelGraph.from_collections are constructors"))
    c.store_hooks = {"layer2": store_hook}
    c.search = search_collapse
    return c


def all_collapse():
    return [collapse_contract(naxis, nbatch) for naxis in (2, 3) for nbatch in (0, 1)]


def search_collapse():
    """bounded search on the real function: single- and multi-block blockwise results over 2-3 reduced axes"""
    import itertools

    import dask.array as da
    import numpy as np

    from flox.core import _collapse_blocks_along_axes

    for nbatch, naxis in itertools.product((0, 1), (2, 3)):
        for nblocks in itertools.product((1, 2), repeat=nbatch + naxis):
            shape = tuple(2 * n for n in nblocks)
            x = da.zeros(shape, chunks=2)
            axis = tuple(range(nbatch, nbatch + naxis))
            ng = int(np.prod(nblocks[nbatch:]))
            case = dict(nblocks=list(nblocks), nbatch=nbatch, naxis=naxis)
            try:
                out = _collapse_blocks_along_axes(x, axis, ((3,) * ng,))
            except Exception as ex_:
                return case, f"raised {type(ex_).__name__}: {ex_}"
            if out.ndim != x.ndim:
                return case, f"rank {out.ndim} != rank of the input {x.ndim}"
            keys = set(out.__dask_graph__().layers[out.name].keys())
            want = set(itertools.product([out.name], *[range(n) for n in out.numblocks]))
            if keys != want:
                return case, "keys of the layer are not the announced block grid"
    return None


# ---------------------------------------------------------------------------------------------
# _extract_unknown_groups(reduced, dtype): the lazy array of the labels found at compute time
# ---------------------------------------------------------------------------------------------


def extract_unknown_groups_contract(ndim):
    """the labels found at compute time are read from the FIRST block of the reduced result (every block of the last tree level
    carries all labels of its cohort / of the whole array): one task, key (name, 0), reading (reduced.name, 0, ..., 0)["groups"];
    one chunk of unknown size; the announced dtype is the labels' dtype; the layer is named after its input, which is declared a
    dependency"""
    box = {}

    def params(ex):
        chunks = tuple(sym_seq(f"chunks{d}", kind="tuple") for d in range(ndim))
        reduced = Record("DaskArray", name=z3.String("reduced_name"), chunks=chunks, numblocks=tuple(c.length for c in chunks), dtype=Opaque("dtype"), ndim=ndim)
        dtype = Record("dtype", token="labels-dtype")
        box.update(reduced=reduced, dtype=dtype)
        return {"reduced": reduced, "dtype": dtype}

    def requires(ex, env):
        return [n >= 1 for n in env["reduced"].fields["numblocks"]]

    def ensures(ex, env, res):
        r = box["reduced"]
        ok = isinstance(res, tuple) and len(res) == 1 and isinstance(res[0], Record) and res[0].kind == "DaskArray"
        if not ok:
            return [("returns_one_lazy_array", z3.BoolVal(False))]
        g = res[0]
        graph = g.fields["graph"]
        layer = graph.fields["layer"] if isinstance(graph, Record) else None
        name = g.fields["name"]
        cl = [("named_after_its_input", name == z3.Concat(z3.StringVal("group-"), r.fields["name"])),
              ("input_declared_as_dependency", z3.BoolVal(isinstance(graph, Record) and any(d is r for d in graph.fields["dependencies"]))),
              ("one_chunk_of_unknown_size", z3.BoolVal(len(g.fields["chunks"]) == 1 and len(g.fields["chunks"][0]) == 1 and str(g.fields["chunks"][0][0]) == "NaN")),
              ("announces_the_labels_dtype", z3.BoolVal(isinstance(g.fields.get("meta"), Record) and g.fields["meta"].fields.get("dtype") is box["dtype"])),
              ("exactly_one_task", z3.BoolVal(isinstance(layer, dict) and len(layer) == 1))]
        if isinstance(layer, dict) and len(layer) == 1:
            (key, task), = layer.items()
            cl.append(("task_key_is_the_only_block_of_the_result", z3.BoolVal(isinstance(key, tuple) and len(key) == 2 and key[1] == 0) if not (isinstance(key, tuple) and len(key) == 2) else z3.And(key[0] == name, z3.BoolVal(key[1] == 0))))
            good = isinstance(task, tuple) and len(task) == 3 and isinstance(task[1], tuple) and len(task[1]) == ndim + 1 and task[2] == "groups" and getattr(task[0], "path", "") == "operator.getitem"
            cl.append(("task_reads_groups_of_the_first_block_of_the_input", z3.BoolVal(False) if not good else z3.And(task[1][0] == r.fields["name"], z3.BoolVal(all(c == 0 for c in task[1][1:])))))
        return cl

    c = Contract(qualname="_extract_unknown_groups", file="flox/core.py", prefix=f"C12.extract_unknown_groups.nd{ndim}", params=params, requires=requires, ensures=ensures, serves=("C12", "C11"),
                 assumed=("dask.array.Array and HighLevelGraph.from_collections are constructors", "every block of the reduced result carries the labels under the key 'groups' (contract of the aggregate step: C12.find_unique_groups / C05 reindex)"))
    return c


def register_models_groups(prims):
    register_models(prims)

    def m_dask_array2(ex, st, a, k, node):
        r = m_dask_array(ex, st, a, k, node)
        r.fields["meta"] = k.get("meta")
        return r

    o_array = prims.models["numpy.array"]

    def m_np_array(ex, st, a, k, node):
        if "dtype" in k and isinstance(a[0], list) and len(a[0]) == 0:
            return Record("ndarray-meta", dtype=k["dtype"], size=0)
        return o_array(ex, st, a, k, node)

    prims.register("dask.array.Array", m_dask_array2)
    prims.register("numpy.array", m_np_array)


def all_extract_unknown_groups():
    out = [extract_unknown_groups_contract(nd) for nd in (1, 2, 3)]
    for c in out:
        c.search = search_extract_unknown_groups
    return out


def search_extract_unknown_groups():
    """bounded search on the real function: reduced results of rank 1-3, several label dtypes"""
    import operator

    import dask.array as da
    import numpy as np

    from flox.core import _extract_unknown_groups

    for nd in (1, 2, 3):
        for dt in ("int64", "float32", "datetime64[ns]"):
            x = da.zeros((4,) * nd, chunks=2)
            case = dict(ndim=nd, dtype=dt)
            try:
                (g,) = _extract_unknown_groups(x, np.dtype(dt))
            except Exception as e:
                return case, f"raised {type(e).__name__}: {e}"
            layer = dict(g.__dask_graph__().layers[g.name])
            want = {(g.name, 0): (operator.getitem, (x.name,) + (0,) * nd, "groups")}
            if layer != want:
                return case, f"layer {layer} != {want}"
            if g.dtype != np.dtype(dt) or g.ndim != 1 or g.numblocks != (1,) or g.name != f"group-{x.name}":
                return case, f"announced dtype {g.dtype}, rank {g.ndim}, blocks {g.numblocks}, name {g.name}"
    return None
