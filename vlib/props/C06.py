"""C06 — position-sensitive reductions respect global positions across chunk boundaries."""

from __future__ import annotations

import itertools

import numpy as np

from ..core import Ctx
from ..rtc import gen
from ..rtc.driver import run_bounded
from ..rtc.reduce_case import blockwise_precondition, compositions, enc, label_patterns

FUNCTION = "flox.core.groupby_reduce (arg*/first/last family on chunked input)"
FUNCS = ["argmax", "argmin", "nanargmax", "nanargmin", "first", "last", "nanfirst", "nanlast"]


def check(case):
    from ..rtc.reduce_case import check_case

    return check_case(case, refusal_ok=True)


def bounded_cases(ctx: Ctx):
    rng = gen.rng_for(ctx, 6)
    n = 6 if ctx.quick else 8
    pats = [p for p in label_patterns(n, 2, with_missing=True) if any(x >= 0 for x in p)]
    chunkings = list(compositions(n))
    alpha_nan = [-1.0, 0.0, 2.0, 2.0, float("nan")]
    cases = []
    i = 0
    for func in FUNCS:
        alpha = [a for a in alpha_nan if a == a] if func in ("argmax", "argmin") else alpha_nan
        for pat in gen.sample(pats, 12 if ctx.quick else 40, rng):
            lab = gen.labels_to_array(pat)
            for rep in range(2):
                v = np.array([alpha[rng.integers(len(alpha))] for _ in range(n)])
                chs = gen.sample(chunkings, 5, rng) if ctx.quick else gen.sample(chunkings, 24, rng)
                chs = chs + [tuple([1] * n), (n,)]
                for ch in chs:
                    i += 1
                    dt = "int64" if (func in ("first", "last", "argmax", "argmin", "nanfirst", "nanlast") and i % 4 == 0) else "float64"
                    vv = np.where(np.isnan(v), 1, v).astype("int64") if dt == "int64" else v
                    c = dict(array=enc(vv), by=[enc(lab)], func=func, chunks=[list(ch)], method=[None, "map-reduce", "cohorts"][i % 3],
                             split_every=[2, 4][i % 2], engine=[None, "numpy", "numba"][(i // 2) % 3] if i % 9 else "numbagg")
                    if func in ("first", "last"):
                        # only defined for chunked input when each group lies in one block; otherwise refused (C19)
                        c["method"] = [None, "blockwise"][i % 2]
                    if i % 5 == 0:
                        # a leading batch axis: positions are along the reduced (last) axis
                        c["array"] = enc(np.stack([vv, vv[::-1]]))
                        c["chunks"] = [[1, 1], list(ch)]
                    if c["method"] == "blockwise" and not blockwise_precondition(c):
                        c["method"] = None
                    cases.append(c)
    return cases


def run(ctx: Ctx):
    note = ""
    if getattr(ctx, "only", None) != "bounded":
        from ..proofs import c06_proofs

        note = c06_proofs.run(ctx)
    if getattr(ctx, "only", None) != "proof":
        run_bounded(
            ctx, "C06.rtc.global_positions", FUNCTION, bounded_cases(ctx), "vlib.props.C06:check",
            bound=f"arrays of length {6 if ctx.quick else 8} over {{-1,0,2,2,NaN}} (ties and NaNs on both sides of every boundary), <=2 groups + missing labels, chunkings sampled from all compositions plus all-size-1 and single-chunk, methods None/map-reduce/cohorts, split_every 2 and 4 (tree depth up to 3), optional batch axis",
            rule="case = (reduction, label pattern, values, chunking, method, split_every, engine); postcondition: index along the reduced axis of the whole array of the first extreme / the first or last member in the whole array (NumPy on the group's members); non-trivial = >=3 blocks",
            nontrivial=lambda c: len(c["chunks"][-1]) >= 3,
        )
    if getattr(ctx, "only", None) != "proof":
        from ..rtc.tree_case import tree_cases

        run_bounded(
            ctx, "C06.rtc.tree_builder", "flox.dask_array_ops._tree_reduce / partial_reduce / get_parts", tree_cases(24 if ctx.quick else 64, 8 if ctx.quick else 12), "vlib.rtc.tree_case:check_tree",
            bound="EXHAUSTIVE over #blocks 1..%d x split_every 2..%d and the config default x 1-2 batch blocks x two block_index values" % ((24, 8) if ctx.quick else (64, 12)),
            rule="postcondition on the graph dict: one root per batch index at (.., block_index); the leaves under each root are exactly its batch's blocks 0..n-1, once each, in increasing order; every task combines 1..split_every consecutive blocks of its own batch index; intermediate keys used exactly once; non-trivial = depth >= 2",
            nontrivial=lambda c: c["nblocks"] > (c["split_every"] or 4), exhaustive=True, chunksize=16,
        )
    ctx.assume("numpy_groupies argmax/argmin return the first occurrence (assumed contract, exercised by the bounded part)")
    ctx.trust("dask.blockwise.lol_tuples ordering", "dask tree reduction ordering", "numpy_groupies arg reductions", "z3 / cvc5")
    return "other", ("Mixed: arg-pair algebra and global-index mapping (chunk_argreduce) proved on the real source; block order in the tree builder and the end-to-end contract are bounded stand-ins. " + note)


def _case_of(payload):
    if "case" in payload:
        return payload["case"]
    m = payload.get("model")
    return m.get("case") if isinstance(m, dict) else None


def replay(payload):
    if _case_of(payload) is None:
        print("REPLAY: obligation", payload.get("obligation"), "-", payload.get("formula"), "| solver:", str(payload.get("solver_output"))[:500])
        return 1
    payload = {**payload, "case": _case_of(payload)}
    r = check(payload["case"])
    print("REPLAY:", "contract holds" if r is None else r["why"])
    return 0 if r is None else 1
