"""C20 — numeric fidelity: infinities kept, no narrow-integer wrap, stable var/std."""

from __future__ import annotations

import itertools

import numpy as np

from ..core import Ctx
from ..rtc import gen
from ..rtc.driver import run_bounded
from ..rtc.reduce_case import compositions, enc, label_patterns

FUNCTION = "flox.core.groupby_reduce (numeric fidelity)"


def check(case):
    from ..rtc.reduce_case import check_case, check_chunked_vs_eager

    r = check_case(case, refusal_ok=True, check_dtype=case.get("check_dtype", False))
    if r is None and case.get("chunks") is not None:
        r = check_chunked_vs_eager(case)
    return r


def check_var(case):
    """var/std of well-conditioned data: eager and chunked agree to floating-point accuracy (bounded stand-in only)."""
    from ..rtc.reduce_case import ALLOWED_EXC, eager_variant, run_case, signature

    e = run_case(eager_variant(case))
    d = run_case(case)
    sig = signature(case)
    if not e["ok"] or not d["ok"]:
        bad = e if not e["ok"] else d
        if bad["exc_type"] in ALLOWED_EXC:
            return None
        return {"case": case, "why": f"raised {bad['exc_type']}: {bad['exc_msg']}", "sig": sig}
    a, b = np.asarray(e["result"], dtype="float64"), np.asarray(d["result"], dtype="float64")
    if a.shape != b.shape:
        return {"case": case, "why": f"shapes differ {a.shape} {b.shape}", "sig": sig}
    from ..rtc.reduce_case import dec

    arr = dec(case["array"])
    by = dec(case["by"][0])
    fk = case.get("finalize_kwargs") or {}
    for gi, lab in enumerate(np.asarray(e["groups"][0]).tolist()):
        m = arr[by == lab]
        with np.errstate(all="ignore"):
            mu, sd = np.nanmean(m), np.nanstd(m)
        if not (sd > 0) or abs(mu) / sd > 100:
            continue  # this group is not well-conditioned (|mean|/std > 1e2): the property does not speak about it
        if not np.isclose(a[gi], b[gi], rtol=1e-10, equal_nan=True):
            return {"case": case, "why": f"label {lab}: eager {a[gi]!r} vs chunked {b[gi]!r} differ beyond rtol 1e-10 (group |mean|/std = {abs(mu) / sd:.1f})", "sig": sig}
        want = getattr(np, case["func"])(m, ddof=fk.get("ddof", 0))
        if not np.isclose(a[gi], want, rtol=1e-9, equal_nan=True):
            return {"case": case, "why": f"eager {case['func']} of label {lab}: {a[gi]} vs numpy {want}", "sig": sig}
    return None


def bounded_cases(ctx: Ctx):
    rng = gen.rng_for(ctx, 20)
    n = 4 if ctx.quick else 6
    cases = []
    i = 0
    pats = [p for p in label_patterns(n, 2, with_missing=True) if any(x >= 0 for x in p)]
    chunkings = list(compositions(n))
    # (a) infinities are data
    al = [float("inf"), float("-inf"), float("nan"), 1.0, -2.0]
    for func in ("min", "max", "nanmin", "nanmax", "sum", "nansum", "prod", "nanprod", "mean", "nanmean"):
        for pat in gen.sample(pats, (12 if ctx.quick else 50) if func in ("min", "max", "nanmin", "nanmax") else (5 if ctx.quick else 20), rng):
            lab = gen.labels_to_array(pat)
            for rep in range(4):
                i += 1
                v = np.array([al[rng.integers(len(al))] for _ in range(n)])
                for eng in gen.ENGINES:
                    c = dict(array=enc(v), by=[enc(lab)], func=func, engine=eng)
                    if (i + len(cases)) % 2:
                        c["chunks"] = [list(chunkings[(i + len(cases)) % len(chunkings)])]
                        c["method"] = [None, "map-reduce", "cohorts"][(i + len(cases)) % 3]
                    cases.append(c)
    # (b) integer sums/products beyond the input width but within the result dtype
    for dt, vals in (("int8", [100, 100, 127, -128, -100, 27]), ("uint8", [200, 200, 255, 100, 1, 3]), ("int16", [30000, 30000, -32768, 1, 2, 32767]),
                     ("int32", [2**31 - 1, 2**31 - 1, -(2**31), 5, 7, 2**30]), ("uint16", [65535, 65535, 1, 2, 3, 4]), ("uint32", [2**32 - 1, 2**32 - 1, 1, 2, 3, 4])):
        for func in ("sum", "nansum", "prod", "nanprod", "mean", "count", "var", "nanvar", "nanstd"):
            for pat in gen.sample([p for p in pats if all(x >= 0 for x in p)], 5 if ctx.quick else 20, rng):
                i += 1
                v = np.array([vals[rng.integers(len(vals))] for _ in range(n)], dtype=dt)
                if func in ("prod", "nanprod"):
                    v = np.array([[7, 11, 13, 2, 3, 5][rng.integers(6)] for _ in range(n)], dtype=dt)  # product exceeds 8 bits, fits 64
                lab = gen.labels_to_array(pat)
                for eng in gen.ENGINES:
                    c = dict(array=enc(v), by=[enc(lab)], func=func, engine=eng, check_dtype=func not in ("var", "nanvar", "nanstd"))
                    if i % 2:
                        c["chunks"] = [list(chunkings[i % len(chunkings)])]
                        c["method"] = [None, "map-reduce", "cohorts"][i % 3]
                    cases.append(c)
    return cases


def var_cases(ctx: Ctx):
    rng = gen.rng_for(ctx, 200)
    cases = []
    n = 12
    for t in range(60 if ctx.quick else 400):
        mean = float(rng.choice([0.0, 1.0, -50.0, 1e2]))
        std = float(rng.choice([1.0, 10.0]))  # |mean|/std <= 1e2: well-conditioned (cancellation error ~ eps*(mean/std)^2 <= 2e-12)
        v = rng.normal(mean, std, size=n)
        if t % 3 == 0:
            v[rng.integers(n)] = np.nan
        lab = rng.integers(0, 3, size=n) * 10 + 5
        ch = list(compositions(4))[t % 8]
        ch = [c * 3 for c in ch]
        func = ["var", "std", "nanvar", "nanstd"][t % 4]
        if "nan" not in func:
            v = np.nan_to_num(v, nan=mean)
        cases.append(dict(array=enc(v), by=[enc(lab)], func=func, chunks=[ch], method=[None, "map-reduce", "cohorts"][t % 3],
                          engine=gen.ENGINES[t % 5], finalize_kwargs={"ddof": t % 2}))
    return cases


def run(ctx: Ctx):
    note = ""
    if getattr(ctx, "only", None) != "bounded":
        from ..proofs import c20_proofs

        note = c20_proofs.run(ctx)
    if getattr(ctx, "only", None) != "proof":
        run_bounded(
            ctx, "C20.rtc.inf_and_width", FUNCTION, bounded_cases(ctx), "vlib.props.C20:check",
            bound="(a) arrays over {+Inf,-Inf,NaN,1,-2} for min/max/nanmin/nanmax (and sum/prod/mean with their nan- variants: an infinity is a value, never replaced by a finite stand-in) on all 5 engines, eager and chunked; (b) int8/uint8/int16/uint16/int32/uint32 arrays whose group totals/products exceed the input width but fit the result dtype, sum/nansum/prod/nanprod/mean/count/var/nanvar/nanstd on all engines and strategies",
            rule="postcondition: NumPy on the members (extreme = +-Inf kept; integer totals exact in the advertised dtype); chunked == eager; non-trivial = contains an infinity or a total beyond the input width",
            nontrivial=lambda c: True,
        )
        run_bounded(
            ctx, "C20.rtc.var_accuracy", FUNCTION, var_cases(ctx), "vlib.props.C20:check_var",
            bound="seeded normal data, 12 elements, |mean|/std <= 1e2, 3 groups, ddof 0/1, NaN in a third of the cases; all engines and strategies",
            rule="eager vs chunked var/std within rtol 1e-10 and eager vs numpy within 1e-9 — a bounded numerical comparison that proves nothing about rounding",
            nontrivial=lambda c: True,
        )
    ctx.na_subclaims.append("'var/std agree to floating-point accuracy' is a statement about rounding error: outside contract-based deductive verification with floats modelled as reals; only the bounded numerical comparison speaks to it")
    ctx.assume("machine integers treated as mathematical integers with explicit wrap at declared cast points; 64-bit accumulators assumed not to overflow")
    ctx.trust("numpy ufunc.reduceat / bincount accumulation dtype", "numbagg kernels", "z3 / cvc5")
    return "other", ("Mixed: all-NaN detection by counting and infinities-as-data obligations on the real engine='flox' kernels; fidelity of the whole call on every engine is a bounded stand-in; floating-point accuracy is not decidable in this family. " + note)


def _case_of(payload):
    if "case" in payload:
        return payload["case"]
    m = payload.get("model")
    return m.get("case") if isinstance(m, dict) else None


def replay(payload):
    if _case_of(payload) is None:
        print("REPLAY: obligation", payload.get("obligation"), "-", payload.get("formula"), "| solver:", str(payload.get("solver_output"))[:500])
        return 1
    payload = {**payload, "case": _case_of(payload)}
    case = payload["case"]
    r = check(case) if case["func"] not in ("var", "std", "nanvar", "nanstd") or not case.get("finalize_kwargs") else check_var(case)
    print("REPLAY:", "contract holds" if r is None else r["why"])
    return 0 if r is None else 1
