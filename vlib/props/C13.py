"""C13 — generated tasks are pure, re-executable and serialisable."""

from __future__ import annotations

import numpy as np

from ..core import Ctx
from ..rtc import gen
from ..rtc.driver import run_bounded

FUNCTION = "every graph callable built by flox.core.dask_groupby_agg / dask_groupby_scan / flox.dask_array_ops"


def check(case):
    import warnings

    from ..rtc import graphs
    from ..rtc.reduce_case import ALLOWED_EXC, arrays_equal, run_case, signature
    from ..rtc.scan_case import run_scan, scan_sig

    is_scan = case["func"] in ("nancumsum", "ffill", "bfill")
    sig = scan_sig(case) if is_scan else signature(case)
    with warnings.catch_warnings():
        warnings.simplefilter("ignore")
        d = run_scan(case, compute=False) if is_scan else run_case(case, compute=False)
    if not d["ok"]:
        return None if d["exc_type"] in ALLOWED_EXC else {"case": case, "why": f"raised {d['exc_type']}: {d['exc_msg']}", "sig": sig}
    lazy = d.get("lazy_obj")
    if lazy is None:
        return None
    try:
        with warnings.catch_warnings():
            warnings.simplefilter("ignore")
            ref = np.asarray(lazy.compute(scheduler="sync"))
    except Exception as e:
        return None if type(e).__name__ in ALLOWED_EXC else {"case": case, "why": f"compute raised {type(e).__name__}: {str(e)[:150]}", "sig": sig}
    g, keys = graphs.materialize(lazy)
    stats = {}
    try:
        with warnings.catch_warnings():
            warnings.simplefilter("ignore")
            vals = graphs.execute(g, keys, order="random", rng=np.random.default_rng(case.get("order_seed", 0)), instrument=True, pickle_roundtrip=True, stats=stats)
    except graphs.TaskViolation as e:
        return {"case": case, "why": str(e)[:400], "sig": sig}
    out = np.asarray(graphs.assemble(lazy, vals))
    w = arrays_equal(out, ref, exact=True)
    if w:
        return {"case": case, "why": f"instrumented execution (read-only inputs, each task run 3x) differs from plain compute: {w}", "sig": sig}
    return None


def bounded_cases(ctx: Ctx):
    from . import C02, C06, C10

    rng = gen.rng_for(ctx, 13)
    cases = []
    k = 500 if ctx.quick else 3000
    cases += gen.sample(C02.bounded_cases(ctx), k, rng)
    cases += gen.sample(C06.bounded_cases(ctx), k // 2, rng)
    cases += [c for c in gen.sample(C10.bounded_cases(ctx), k // 2, rng) if c.get("chunks") is not None]
    for i, c in enumerate(cases):
        c["order_seed"] = ctx.seed * 31 + i
    return cases


def run(ctx: Ctx):
    note = ""
    if getattr(ctx, "only", None) != "bounded":
        from ..proofs import c13_proofs

        note = c13_proofs.run(ctx)
    if getattr(ctx, "only", None) != "proof":
        run_bounded(
            ctx, "C13.rtc.instrumented_executor", FUNCTION, bounded_cases(ctx), "vlib.props.C13:check",
            bound="graphs of a sample of the C02 (all strategies / reindex modes), C06 (arg/first/last) and C10 (scans) bounded domains; every task executed on read-only inputs, twice, and once more after a cloudpickle round trip of the task",
            rule="postcondition per task: inputs bit-identical afterwards (fingerprints; writes raise on read-only buffers), equal value on re-execution, equal value after pickling; final result equals the plain compute; non-trivial = >=2 blocks",
            nontrivial=lambda c: len(c["chunks"][-1]) >= 2, chunksize=4,
        )
    ctx.assume("cloudpickle round trip in the same interpreter stands for shipping to another process (module-level callables resolve by reference)")
    ctx.na_subclaims.append("'any interleaving of tasks sharing an input' is reduced to per-task frame conditions (no task writes its inputs); interleavings themselves are not explored")
    ctx.trust("numpy read-only flag semantics", "cloudpickle", "z3 / cvc5")
    return "other", ("Mixed: frame (W-site) and purity obligations by FrameCheck on the real source; the instrumented executor is a bounded stand-in. " + note)


def _case_of(payload):
    if "case" in payload:
        return payload["case"]
    m = payload.get("model")
    return m.get("case") if isinstance(m, dict) else None


def replay(payload):
    if _case_of(payload) is None:
        print("REPLAY: obligation", payload.get("obligation"), "-", payload.get("formula"), "| solver:", str(payload.get("solver_output"))[:500])
        return 1
    payload = {**payload, "case": _case_of(payload)}
    r = check(payload["case"])
    print("REPLAY:", "contract holds" if r is None else r["why"])
    return 0 if r is None else 1
