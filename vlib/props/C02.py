"""C02 — chunked results equal eager results for every strategy, reindex mode, chunking."""

from __future__ import annotations

import numpy as np

from ..core import Ctx
from ..rtc import gen
from ..rtc.driver import run_bounded
from ..rtc.reduce_case import blockwise_precondition, compositions, enc, label_patterns

FUNCTION = "flox.core.groupby_reduce"


def check(case):
    from ..rtc.reduce_case import check_chunked_vs_eager

    return check_chunked_vs_eager(case)


def bounded_cases(ctx: Ctx):
    rng = gen.rng_for(ctx, 2)
    n = 4 if ctx.quick else 6
    pats = [p for p in label_patterns(n, 3, with_missing=True) if any(x >= 0 for x in p)]
    chunkings = list(compositions(n))
    methods = [None, "map-reduce", "cohorts", "blockwise"]
    reindexes = [None, True, False]
    cases = []
    i = 0
    funcs = gen.CHUNKABLE
    npat = 14 if ctx.quick else 60
    for func in funcs:
        for pat in gen.sample(pats, npat, rng):
            lab = gen.labels_to_array(pat)
            dt = "float64"
            if func in ("any", "all"):
                dt = "bool"
            elif func in ("max", "min", "nanmax", "nanmin", "first", "last", "nanfirst", "nanlast", "argmax", "argmin", "count", "sum", "prod", "mean", "var") and i % 3 == 1:
                dt = ["int64", "uint8", "int8"][(i // 3) % 3]
            v = gen.values_for(func, n, rng, 12, dt)[int(rng.integers(0, 12))]
            present = sorted({x for x in lab.tolist() if x == x})
            for ch in chunkings if not ctx.quick else gen.sample(chunkings, 5, rng):
                i += 1
                method = methods[i % 4]
                reindex = reindexes[(i // 4) % 3]
                by_dask = (i % 5) == 0
                c = dict(array=enc(v), by=[enc(lab)], func=func, chunks=[list(ch)], method=method, reindex=reindex,
                         split_every=[2, 3, 4][i % 3], engine=[None, "numpy", "flox", "numbagg"][(i // 3) % 4])
                if by_dask:
                    c["by_chunks"] = [[list(ch)]]
                    if method == "cohorts":
                        c["method"] = "map-reduce"
                if by_dask or i % 2 == 0:
                    # expected groups: a superset (one absent label) with a fill, or exactly those present
                    if i % 3 == 0:
                        c["expected_groups"] = [present + [max(present) + 10 if present else 5]]
                        c["fill_value"] = [0, "nan", -5][i % 3] if func not in ("any", "all") else False
                        if func in gen.REDUCTIONS and func.endswith(("argmax", "argmin")):
                            c["fill_value"] = -1
                    else:
                        c["expected_groups"] = [present]
                if c["method"] == "blockwise" and not blockwise_precondition(c):
                    c["method"] = None
                if func in ("var", "nanvar", "std", "nanstd") and i % 3 == 0:
                    c["finalize_kwargs"] = {"ddof": 1}
                cases.append(c)
    # 2-D labels reduced over both axes: block grids in two dimensions (cohorts are products of per-axis block selections)
    pats2 = {
        "checkerboard": [[5, 15, 5], [15, 5, 15]], "row_stripes": [[5, 5, 5], [15, 15, 15]], "col_stripes": [[5, 15, 25], [5, 15, 25]],
        "corner": [[5, 5, 15], [5, 25, 25]], "with_missing": [[5.0, float("nan"), 15.0], [15.0, 5.0, float("nan")]],
    }
    grids = [[[1, 1], [1, 1, 1]], [[2], [1, 1, 1]], [[1, 1], [3]], [[1, 1], [2, 1]], [[2], [3]]]
    v2 = np.array([[1.0, 2.0, 4.0], [8.0, 16.0, 32.0]])  # distinct subset sums: a wrong pairing of labels and values cannot cancel out
    for func in ("sum", "nanmax", "count", "nanmean", "argmax", "nanfirst", "var"):
        for pname, pat in pats2.items():
            for gi_, grid in enumerate(grids):
                i += 1
                if ctx.quick and (i % 3 == 1) and pname != "checkerboard":
                    continue
                c = dict(array=enc(v2), by=[enc(np.array(pat))], func=func, chunks=grid, method=methods[i % 3], reindex=reindexes[(i // 3) % 3], split_every=[2, 4][i % 2])
                if i % 4 == 0:
                    c["by_chunks"] = [grid]
                    c["expected_groups"] = [[5, 15, 25]]
                    c["fill_value"] = -1 if func == "argmax" else (0 if func == "count" else "nan")
                    if c["method"] == "cohorts":
                        c["method"] = "map-reduce"
                cases.append(c)
    # deep trees: many unit blocks per group, so that the reduction tree has three or more levels for small fan-ins (and two or
    # more for the default): a tree that is one level short, or partitions blocks wrongly, only shows with >= 5 blocks for
    # split_every=2, >= 10 for 3, >= 17 for 4 (added after seeded change C02-tree-depth-by-integer-floor-division was missed)
    for n_ in (5, 7, 10, 17) if ctx.quick else (5, 6, 7, 9, 10, 11, 17, 19, 26):
        labs = [np.array([0, 1] * n_)[:n_], np.zeros(n_, dtype=int), np.array([0] * (n_ - 2) + [1, 0])]
        vals = np.arange(1.0, n_ + 1.0) ** 2
        for func in ("sum", "nanmax", "argmax", "nanmean", "count", "first", "nanvar"):
            for lab in labs:
                i += 1
                c = dict(array=enc(vals), by=[enc(lab)], func=func, chunks=[[1] * n_], method=["map-reduce", "cohorts"][i % 2], reindex=None, split_every={5: 2, 7: 2, 6: 2, 9: 2, 10: 3, 11: 3, 17: 4, 19: 4, 26: 5}[n_])
                cases.append(c)
    return cases


def nontrivial(c):
    return sum(len(x) for x in c["chunks"]) > len(c["chunks"]) and len(set(map(str, c["by"][0]["data"]))) >= 2


def run(ctx: Ctx):
    note = ""
    if getattr(ctx, "only", None) != "bounded":
        from ..proofs import c02_proofs

        note = c02_proofs.run(ctx)
    if getattr(ctx, "only", None) != "proof":
        cases = bounded_cases(ctx)
        run_bounded(
            ctx, "C02.rtc.chunked_equals_eager", FUNCTION, cases, "vlib.props.C02:check",
            bound=f"1-D arrays of length {4 if ctx.quick else 6}; all compositions as chunkings ({'5 sampled per pattern' if ctx.quick else 'all'}); methods None/map-reduce/cohorts/blockwise(precondition checked); reindex None/True/False; labels numpy or dask; split_every 2..4; 23 chunkable reductions; deep trees: 5-17 (26) unit blocks with the fan-in that needs one more level than floor division gives",
            rule="case = (reduction, dtype, label pattern, values, chunking, method, reindex, label kind, engine, split_every); non-trivial = >=2 blocks and >=2 distinct labels",
            nontrivial=nontrivial,
        )
    ctx.assume("dask.array.reductions._tree_reduce, dask.array.blockwise, unify_chunks and the schedulers are external (assumed); exercised but not verified")
    ctx.trust("dask", "numpy", "pandas", "numpy_groupies", "numbagg", "z3 / cvc5")
    return "other", ("Mixed: plan-consistency and reindex obligations are proved on the real source (the combines and the graph builder are not under contract); the end-to-end contract chunked == eager is a bounded stand-in. " + note)


def _case_of(payload):
    if "case" in payload:
        return payload["case"]
    m = payload.get("model")
    return m.get("case") if isinstance(m, dict) else None


def replay(payload):
    if _case_of(payload) is None:
        print("REPLAY: obligation", payload.get("obligation"), "-", payload.get("formula"), "| solver:", str(payload.get("solver_output"))[:500])
        return 1
    payload = {**payload, "case": _case_of(payload)}
    r = check(payload["case"])
    print("REPLAY:", "contract holds" if r is None else r["why"])
    return 0 if r is None else 1
