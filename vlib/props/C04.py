"""C04 — block/combine/finalize decomposition of each aggregation is exact; fills are neutral."""

from __future__ import annotations

import itertools

import numpy as np

from ..core import Ctx
from ..rtc import gen
from ..rtc.driver import run_bounded
from ..rtc.reduce_case import FLOAT_ALPHABET, enc

FUNCTION = "flox.core.groupby_reduce (registry blueprints executed by the chunk/combine/finalize machinery)"

DECOMPOSABLE = [f for f in gen.CHUNKABLE]  # every registry entry with chunk != None
CUSTOM = ["range", "sumcubes", "msq"]


def check(case):
    from ..rtc.reduce_case import check_case, check_chunked_vs_eager

    r = check_case(case, refusal_ok=True)
    if r is None and not case.get("custom_agg"):
        r = check_chunked_vs_eager(case)
    return r


def splits(seq, nparts):
    """All ways of cutting seq into nparts ordered (possibly empty) consecutive parts."""
    n = len(seq)
    for cuts in itertools.combinations_with_replacement(range(n + 1), nparts - 1):
        b = (0,) + cuts + (n,)
        yield [seq[b[i] : b[i + 1]] for i in range(nparts)]


def layout(parts, filler=7.0):
    """Block k = [filler (label 15)] + part_k (label 5): lets a block hold no member of group 5."""
    vals, labs, chunks = [], [], []
    for p in parts:
        vals.append(filler)
        labs.append(15)
        vals.extend(p)
        labs.extend([5] * len(p))
        chunks.append(1 + len(p))
    return vals, labs, chunks


def bounded_cases(ctx: Ctx):
    rng = gen.rng_for(ctx, 4)
    msize = 3 if ctx.quick else 4
    cases = []
    alpha = list(FLOAT_ALPHABET)
    i = 0
    for func in DECOMPOSABLE + CUSTOM:
        if func in ("any", "all"):
            al = [True, False]
        elif func in ("argmax", "argmin"):
            al = [a for a in alpha if a == a]
        elif func in CUSTOM:
            al = [-2.0, -1.0, 0.0, 1.0, 3.0, float("nan")]
        else:
            al = alpha
        multisets = []
        for size in range(1, msize + 1):
            multisets.extend(itertools.combinations_with_replacement(range(len(al)), size))
        # every multiset in some order; orders matter for first/last/arg*: take two permutations
        budget = (30 if ctx.quick else 140)
        for ms in gen.sample(multisets, budget, rng):
            seq = [al[k] for k in ms]
            perm = list(rng.permutation(len(seq)))
            seq = [seq[k] for k in perm]
            for nparts in (2, 3):
                allsp = list(splits(seq, nparts))
                for parts in (allsp if not ctx.quick else gen.sample(allsp, 3, rng)):
                    i += 1
                    vals, labs, chunks = layout(parts, filler=(True if func in ("any", "all") else 7.0))
                    dt = "bool" if func in ("any", "all") else "float64"
                    c = dict(array=enc(np.array(vals, dtype=dt)), by=[enc(np.array(labs))], func=func, chunks=[chunks],
                             method=["map-reduce", "cohorts", None][i % 3], reindex=[None, True, False][(i // 3) % 3],
                             engine=[None, "numpy", "flox"][(i // 2) % 3], split_every=2 + (i % 2))
                    if func in CUSTOM:
                        c["custom_agg"] = func
                        c["method"] = "map-reduce"
                        c["reindex"] = None
                        c["engine"] = "numpy"
                    if func in ("var", "nanvar", "std", "nanstd") and i % 2:
                        c["finalize_kwargs"] = {"ddof": 1}
                    cases.append(c)
    return cases


def run(ctx: Ctx):
    note = ""
    if getattr(ctx, "only", None) != "bounded":
        from ..proofs import c04_proofs

        note = c04_proofs.run(ctx)
    if getattr(ctx, "only", None) != "proof":
        run_bounded(
            ctx, "C04.rtc.split_merge", FUNCTION, bounded_cases(ctx), "vlib.props.C04:check",
            bound=f"one group's members = multisets of size <= {3 if ctx.quick else 4} over {{-2,-1,0,1,3,NaN,+Inf,-Inf}} (booleans for any/all), in a random order, cut into 2 or 3 ordered parts including empty ones ({'3 sampled splits' if ctx.quick else 'all splits'} per multiset); every block also holds one member of a second group; 23 registry aggregations + 3 user-defined Aggregation objects",
            rule="case = (aggregation, member sequence, split); postcondition: result == NumPy on all members at once, and chunked == eager; non-trivial = some part empty or containing NaN",
            nontrivial=lambda c: 1 in c["chunks"][0] or "nan" in c["array"]["data"],
        )
    ctx.assume("floating point as extended reals in the algebraic obligations (no rounding); sums of the small-integer alphabet are exact in binary64, so the bounded part compares with rtol 1e-9")
    ctx.trust("numpy ufunc semantics (np.sum/max/min/prod/any/all, nan-variants)", "z3 / cvc5")
    return "other", ("Mixed: monoid-law obligations (L1-L5) over the blueprints returned by the real _initialize_aggregation are proved for all values; the execution of a blueprint by the machinery (including user-defined Aggregation objects) is a bounded stand-in. " + note)


def _case_of(payload):
    if "case" in payload:
        return payload["case"]
    m = payload.get("model")
    return m.get("case") if isinstance(m, dict) else None


def replay(payload):
    if _case_of(payload) is None:
        print("REPLAY: obligation", payload.get("obligation"), "-", payload.get("formula"), "| solver:", str(payload.get("solver_output"))[:500])
        return 1
    payload = {**payload, "case": _case_of(payload)}
    r = check(payload["case"])
    print("REPLAY:", "contract holds" if r is None else r["why"])
    return 0 if r is None else 1
