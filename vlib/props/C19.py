"""C19 — unsupported requests refused cleanly; the automatic plan works wherever map-reduce does."""

from __future__ import annotations

import itertools

import numpy as np

from ..core import Ctx
from ..rtc import gen
from ..rtc.driver import run_bounded
from ..rtc.reduce_case import blockwise_precondition, enc

FUNCTION = "flox.core.groupby_reduce (validation layer and plan resolution)"


def check(case):
    from ..rtc.reduce_case import ALLOWED_EXC, ARG_FUNCS, EXACT_FUNCS, arrays_equal, check_case, oracle, eager_variant, run_case, signature

    r = check_case(case, refusal_ok=True)
    if r is not None:
        return r
    if case.get("chunks") is None or case.get("method") != "map-reduce":
        return None
    mr = run_case(case)
    if not mr["ok"]:
        return None
    auto = dict(case)
    auto["method"] = None
    a = run_case(auto)
    sig = signature(auto)
    if not a["ok"]:
        sig["exc_type"] = a["exc_type"]
        return {"case": auto, "why": f"method='map-reduce' succeeds but method=None raises {a['exc_type']}: {a['exc_msg']}", "sig": sig}
    skip = None
    if case["func"] in ARG_FUNCS:
        try:
            skip = oracle(eager_variant(case))["dontcare"]
        except Exception:
            skip = None
    exact = case["func"] in EXACT_FUNCS
    w = arrays_equal(a["result"], mr["result"], exact, skip=skip)
    if w:
        return {"case": auto, "why": f"method=None differs from method='map-reduce': {w}", "sig": sig}
    return None


LAYOUTS_1D = {"single": [6], "ones": [1, 1, 1, 1, 1, 1], "uneven": [2, 4], "pairs": [2, 2, 2]}


def cell_cases(ctx: Ctx):
    rng = gen.rng_for(ctx, 19)
    funcs = gen.REDUCTIONS + gen.ORDER_STATS
    engines = gen.ENGINES
    methods = [None, "map-reduce", "cohorts", "blockwise"]
    reindexes = [None, True, False]
    labelkinds = ["numpy", "dask"]
    ranks = [1, 2]
    expecteds = ["absent", "present", "none-present"]
    cells = list(itertools.product(funcs, engines, methods, reindexes, labelkinds, ranks, expecteds))
    k = 4000 if ctx.quick else 40000
    idx = rng.choice(len(cells), size=min(k, len(cells)), replace=False)
    cases = []
    for ii, ci in enumerate(sorted(idx.tolist())):
        func, engine, method, reindex, lk, rank, exp = cells[ci]
        dt = "bool" if func in ("any", "all") else "float64"
        if rank == 1:
            # the last pattern puts every label into three blocks of the size-1 layout: with split_every=2 the per-cohort tree has two levels
            lab = np.array([[5, 15, 5, 15, 25, 25], [5, 5, 15, 15, 25, 25], [5, 15, 25, 5, 15, 25], [5, 15, 5, 15, 5, 15]][(ii // 5) % 4])
            if ii % 4 == 0:
                lab = np.where(np.arange(6) == 2, np.nan, lab.astype(float))
            shape = (6,)
            layout = list(LAYOUTS_1D)[ii % 4]
            chunks = [LAYOUTS_1D[layout]]
            axis = [None, -1, 0][ii % 3]
        else:
            lab = np.array([[5, 15, 25], [15, 5, 25]])
            if ii % 4 == 0:
                lab = lab.astype(float)
                lab[0, 1] = np.nan
            shape = (2, 3)
            chunks = [[[2], [3]], [[1, 1], [3]], [[2], [1, 2]], [[1, 1], [1, 1, 1]]][ii % 4]
            axis = [None, -1, (0, 1), 0, (-1, -2)][ii % 5]
        n = int(np.prod(shape))
        if dt == "bool":
            v = rng.integers(0, 2, size=n).astype(bool).reshape(shape)
        else:
            al = [-2.0, -1.0, 0.0, 1.0, 3.0] + ([np.nan] if func not in ("argmax", "argmin") else [])
            v = np.array([al[rng.integers(len(al))] for _ in range(n)]).reshape(shape)
        c = dict(array=enc(v), by=[enc(lab)], func=func, engine=engine, method=method, reindex=reindex, chunks=chunks, split_every=[2, 4, 3][(ii // 3) % 3])
        if axis is not None:
            c["axis"] = list(axis) if isinstance(axis, tuple) else axis
        if lk == "dask":
            c["by_chunks"] = [chunks[-lab.ndim:]]
        if exp == "present":
            c["expected_groups"] = [[5, 15, 25, 35]]
            c["fill_value"] = -1 if "arg" in func else (False if dt == "bool" else (0 if func == "count" else "nan"))
        elif exp == "none-present":
            c["expected_groups"] = [[105, 115]]
            c["fill_value"] = -1 if "arg" in func else (False if dt == "bool" else (0 if func == "count" else "nan"))
        if "quantile" in func:
            c["finalize_kwargs"] = {"q": [0.5, [0.25, 0.75]][ii % 2]}
        if func in ("var", "std", "nanvar", "nanstd") and ii % 2:
            c["finalize_kwargs"] = {"ddof": 1}
        if method == "blockwise" and not blockwise_precondition(c):
            # explicit blockwise only on inputs meeting its precondition: make every group live in one block
            if rank == 1:
                c["by"] = [enc(np.array([5, 5, 15, 15, 25, 25]))]
                c["chunks"] = [[2, 2, 2]] if ii % 2 else [[6]]
                if lk == "dask":
                    c["by_chunks"] = [c["chunks"]]
            else:
                c["chunks"] = [[2], [3]]
                if lk == "dask":
                    c["by_chunks"] = [c["chunks"]]
        cases.append(c)
    # a request that cannot be served: more reduction axes than label dimensions (must be refused cleanly)
    for func in ("sum", "nanmax", "argmax", "count"):
        for chunks in (None, [[1, 1], [3]], [[2], [1, 2]]):
            for ax in ([0, 1], [-1, -2], [1, 0]):
                c = dict(array=enc(np.arange(6.0).reshape(2, 3)), by=[enc(np.array([5, 15, 5]))], func=func, axis=ax, chunks=chunks, split_every=4)
                cases.append(c)
    # degenerate input inside the documented contract: no element has a valid label and nothing is requested
    # (the NumPy specification is an empty result); eager and chunked, every method
    for func in ("sum", "nanmax", "count", "argmax", "var", "nanfirst"):
        for chunks in (None, [[6]], [[2, 2, 2]]):
            for method in ((None,) if chunks is None else (None, "map-reduce", "cohorts")):
                c = dict(array=enc(np.array([1.0, 2.0, 3.0, -1.0, 0.0, 2.0])), by=[enc(np.array([np.nan] * 6))], func=func, method=method, chunks=chunks, split_every=4)
                cases.append(c)
    return cases, len(cells)


def run(ctx: Ctx):
    note = ""
    if getattr(ctx, "only", None) != "bounded":
        from ..proofs import c19_proofs

        note = c19_proofs.run(ctx)
    if getattr(ctx, "only", None) != "proof":
        cases, ncells = cell_cases(ctx)
        run_bounded(
            ctx, "C19.rtc.cells", FUNCTION, cases, "vlib.props.C19:check",
            bound=f"cell space reduction(29) x engine(5) x method(4) x reindex(3) x label kind(2) x label rank(2) x expected_groups(absent/present/none present) = {ncells} cells; a seeded sample of {len(cases)} cells, each on a length-6 / 2x3 input with rotating axis and chunk layout (single block, size-1 chunks, uneven) and split_every in {2, 3, 4} (a cohort of 3 blocks already needs a two-level tree)",
            rule="postcondition per cell: the call (and its compute) either returns the NumPy-specified result or raises ValueError / NotImplementedError / ImportError; when method='map-reduce' succeeds, method=None succeeds with the same answer; explicit blockwise only where its precondition holds; non-trivial = chunked with >= 2 blocks",
            nontrivial=lambda c: c.get("chunks") is not None and sum(len(x) for x in c["chunks"]) > len(c["chunks"]), chunksize=16,
        )
    ctx.assume("exceptions raised inside unmodelled library internals are only seen by the bounded part")
    ctx.trust("dask", "numpy_groupies", "numbagg", "z3 / cvc5")
    return "other", ("Mixed: decision-table / exception-type / call-site signature obligations on the real validation code; the cell sweep is a bounded stand-in. " + note)


def _case_of(payload):
    if "case" in payload:
        return payload["case"]
    m = payload.get("model")
    return m.get("case") if isinstance(m, dict) else None


def replay(payload):
    if _case_of(payload) is None:
        print("REPLAY: obligation", payload.get("obligation"), "-", payload.get("formula"), "| solver:", str(payload.get("solver_output"))[:500])
        return 1
    payload = {**payload, "case": _case_of(payload)}
    r = check(payload["case"])
    print("REPLAY:", "contract holds" if r is None else r["why"])
    return 0 if r is None else 1
