"""C15 — xarray_reduce agrees with xarray's own groupby, including dims, coords and attrs."""

from __future__ import annotations

import numpy as np

from ..core import Ctx
from ..rtc import gen
from ..rtc.driver import run_bounded

FUNCTION = "flox.xarray.xarray_reduce"
SIZES = {"x": 6, "y": 4, "z": 2}
LAB = [10, 20, 10, 30, 20, 10]
LAB2 = ["a", "b", "a", "b"]


def build(case):
    import xarray as xr

    rng = np.random.default_rng(case["data_seed"])
    dims = tuple(case["dims"])

    def arr(dd, name, attrs):
        data = rng.integers(-3, 4, size=[SIZES[d] for d in dd]).astype(float)
        if case.get("nan", True):
            data[rng.random(data.shape) < 0.2] = np.nan
        if case.get("int_data"):
            data = np.nan_to_num(data).astype("int64")
        return xr.DataArray(data, dims=dd, name=name, attrs=attrs)

    da = arr(dims, "v", {"units": "m", "long_name": "value"})
    coords = {"x": np.arange(SIZES["x"]) * 1.0, "lab": ("x", np.array(LAB))}
    if "y" in dims:
        coords["y"] = np.arange(SIZES["y"])
        coords["lab2"] = ("y", np.array(LAB2))
        coords["lab2d"] = (("y", "x") if dims.index("y") < dims.index("x") else ("x", "y"), (np.arange(SIZES["y"])[:, None] % 2 * 5 + np.array(LAB)[None, :] // 10 % 2).T if dims.index("x") < dims.index("y") else (np.arange(SIZES["y"])[:, None] % 2 * 5 + np.array(LAB)[None, :] // 10 % 2))
    da = da.assign_coords({k: v for k, v in coords.items() if k in ("x", "lab") or "y" in dims})
    obj = da
    if case.get("dataset"):
        other_dims = tuple(d for d in dims if d != "x") or ("z",)
        b = arr(tuple(reversed(dims)), "w", {"units": "s"})
        cvar = arr(other_dims, "nox", {"note": "no x dim"})
        obj = xr.Dataset({"v": da, "w": b.assign_coords(da.coords) if set(b.dims) == set(da.dims) else b, "nox": cvar}, attrs={"title": "ds"})
    if case.get("chunk"):
        import dask.array as dsa

        if isinstance(obj, xr.Dataset):
            obj = obj.copy()
            for k in list(obj.data_vars):
                obj[k] = obj[k].copy(data=dsa.from_array(obj[k].data, chunks=case["chunk"]))
        else:
            obj = obj.copy(data=dsa.from_array(obj.data, chunks=case["chunk"]))
    g = case["grouper"]
    if g == "external":
        by = [xr.DataArray(np.array(LAB), dims=("x",), name="ext")]
        byn = by
    elif g == "two":
        by = ["lab", "lab2"]
        byn = None
    else:
        by = [g]
        byn = by
    return obj, by


def check(case):
    import warnings

    import xarray as xr

    from flox.xarray import xarray_reduce

    from ..rtc.reduce_case import ALLOWED_EXC

    sig = {"func": case["func"], "grouper": case["grouper"], "chunked": bool(case.get("chunk")), "dataset": bool(case.get("dataset")), "skipna": case.get("skipna"), "part": "xarray", "dim": case.get("dim") if isinstance(case.get("dim"), (str, type(None))) else "list"}
    warnings.simplefilter("ignore")
    obj, by = build(case)
    func = case["func"]
    dim = case.get("dim")
    dim_arg = ... if dim == "..." else dim
    kw = {}
    if func not in ("count",):
        kw["skipna"] = case.get("skipna")
    # native xarray (the specification); where it does not define an answer the case is outside the domain
    try:
        with xr.set_options(use_flox=False):
            gb = obj.groupby(by[0] if len(by) == 1 else by)
            nkw = dict(kw)
            if func in ("first", "last"):
                nkw.pop("skipna", None)
                exp = getattr(gb, func)(keep_attrs=case["keep_attrs"])
            elif func == "quantile":
                exp = gb.quantile(case["q"], dim=dim_arg, keep_attrs=case["keep_attrs"], **nkw)
            else:
                exp = getattr(gb, func)(dim=dim_arg, keep_attrs=case["keep_attrs"], **nkw)
            exp = exp.compute()
    except Exception:
        return None
    try:
        if func == "quantile":
            kw = {**kw, "q": case["q"]}
        got = xarray_reduce(obj, *by, func=func, dim=dim_arg, keep_attrs=case["keep_attrs"], **kw)
        lazy_ok = True
        if case.get("chunk"):
            vars_ = [got] if isinstance(got, xr.DataArray) else [got[k] for k in got.data_vars if "x" in obj[k].dims or dim == "..."]
            lazy_ok = all(hasattr(v.data, "dask") for v in vars_)
        got = got.compute()
    except Exception as e:
        sig["exc_type"] = type(e).__name__
        if type(e).__name__ in ALLOWED_EXC:
            return None
        return {"case": case, "why": f"xarray_reduce raised {type(e).__name__}: {str(e)[:200]}", "sig": sig}
    if not lazy_ok:
        return {"case": case, "why": "chunked input but xarray_reduce returned an eager result", "sig": sig}

    def cmp_da(e, g, name):
        if tuple(e.dims) != tuple(g.dims):
            sig["dims_order"] = True
            return f"{name}: dims {g.dims} != native {e.dims}"
        if e.name != g.name:
            return f"{name}: name {g.name!r} != native {e.name!r}"
        if case["keep_attrs"] and dict(e.attrs) != dict(g.attrs):
            # the property compares attributes "with keep_attrs"; without it native xarray is not uniform itself
            # (GroupBy.quantile keeps them regardless), so nothing is demanded
            return f"{name}: attrs {dict(g.attrs)} != native {dict(e.attrs)}"
        if not case["keep_attrs"] and func != "quantile" and dict(e.attrs) != dict(g.attrs):
            return f"{name}: attrs {dict(g.attrs)} != native {dict(e.attrs)}"
        if e.shape != g.shape:
            return f"{name}: shape {g.shape} != native {e.shape}"
        ev, gv = np.asarray(e.values), np.asarray(g.values)
        if ev.dtype.kind in "fiub" and gv.dtype.kind in "fiub":
            if not np.allclose(ev.astype(float), gv.astype(float), rtol=1e-9, atol=1e-12, equal_nan=True):
                return f"{name}: values {gv.tolist()} != native {ev.tolist()}"
        elif not np.array_equal(ev, gv):
            return f"{name}: values differ"
        if set(e.coords) != set(g.coords):
            return f"{name}: coords {sorted(g.coords)} != native {sorted(e.coords)}"
        for c in e.coords:
            if tuple(e.coords[c].dims) != tuple(g.coords[c].dims) or not np.array_equal(np.asarray(e.coords[c].values), np.asarray(g.coords[c].values)):
                return f"{name}: coordinate {c!r} differs: {g.coords[c].values.tolist()} vs native {e.coords[c].values.tolist()}"
        return None

    if isinstance(exp, xr.Dataset):
        if set(exp.data_vars) != set(got.data_vars):
            return {"case": case, "why": f"data variables {sorted(got.data_vars)} != native {sorted(exp.data_vars)}", "sig": sig}
        if dict(exp.attrs) != dict(got.attrs):
            return {"case": case, "why": f"dataset attrs {dict(got.attrs)} != native {dict(exp.attrs)}", "sig": sig}
        for k in exp.data_vars:
            gdims = {"lab": {"x"}, "external": {"x"}, "lab2": {"y"}, "lab2d": {"x", "y"}, "two": {"x", "y"}}[case["grouper"]]
            rdims = gdims if dim is None else (set(obj[k].dims) if dim == "..." else set([dim] if isinstance(dim, str) else dim))
            if not (set(obj[k].dims) & rdims):
                # lacks the reduced dimension: its values pass through unchanged (expanded along the new group
                # dimension exactly as native xarray does); attrs are kept by flox, dropped by native: not compared
                # expected: the variable's own values, expanded along the new group dimension(s)
                src = obj[k].compute()
                gk = got[k]
                newdims = [d for d in gk.dims if d not in src.dims]
                if [d for d in gk.dims if d in src.dims] != list(src.dims):
                    return {"case": case, "why": f"pass-through variable {k}: dims {gk.dims} do not keep {src.dims}", "sig": sig}
                exp_b = src.expand_dims({d: gk.sizes[d] for d in newdims}).transpose(*gk.dims)
                if not np.array_equal(np.asarray(exp_b.values), np.asarray(gk.values), equal_nan=True):
                    return {"case": case, "why": f"pass-through variable {k}: values changed: {np.asarray(gk.values).tolist()} vs original {np.asarray(src.values).tolist()}", "sig": sig}
                continue
            w = cmp_da(exp[k], got[k], k)
            if w:
                # the failing variable has some but not all of the reduced dimensions (region of known finding F32)
                sig["var_lacks_some_reduced_dim"] = bool(rdims - set(obj[k].dims))
                return {"case": case, "why": w, "sig": sig}
    else:
        w = cmp_da(exp, got, "result")
        if w:
            return {"case": case, "why": w, "sig": sig}
    # values equal groupby_reduce on the underlying arrays (simple 1-D grouper, DataArray)
    if not isinstance(obj, xr.Dataset) and case["grouper"] == "lab" and dim in (None, "x") and func not in ("first", "last"):
        from flox.core import groupby_reduce

        skipna = case.get("skipna")
        f2 = func
        if func != "count" and (skipna or (skipna is None and obj.dtype.kind == "f")):
            f2 = "nan" + func
        o2 = obj.transpose(..., "x")
        try:
            r, g = groupby_reduce(np.asarray(o2.data), np.array(LAB), func=f2)
            gv = got.transpose(..., "lab").values
            if not np.allclose(np.asarray(r, dtype=float), np.asarray(gv, dtype=float), rtol=1e-9, equal_nan=True):
                return {"case": case, "why": f"values differ from groupby_reduce on the underlying arrays: {gv.tolist()} vs {np.asarray(r).tolist()}", "sig": sig}
        except Exception as e:
            if type(e).__name__ not in ALLOWED_EXC:
                return {"case": case, "why": f"groupby_reduce on underlying arrays raised {type(e).__name__}", "sig": sig}
    return None


def bounded_cases(ctx: Ctx):
    rng = gen.rng_for(ctx, 15)
    cases = []
    dimsets = [("x",), ("y", "x"), ("x", "y"), ("z", "y", "x"), ("x", "z", "y"), ("y", "z", "x")]
    funcs = ["sum", "mean", "max", "min", "count", "var", "std", "prod", "median", "first", "last", "all", "any"]
    i = 0
    for dims in dimsets:
        for func in funcs:
            for rep in range(2 if ctx.quick else 8):
                i += 1
                groupers = ["lab"] + (["lab2", "lab2d", "two"] if "y" in dims else []) + ["external"]
                g = groupers[i % len(groupers)]
                skipna = [None, True, False][i % 3]
                if func in ("first", "last") and skipna is False:
                    skipna = None
                dim_opts = [None, "...", "x"] + (["y", ["x", "y"]] if "y" in dims else [])
                dim = dim_opts[(i // 3) % len(dim_opts)]
                if g in ("lab", "external") and dim == "y":
                    dim = None
                if g == "lab2" and dim == "x":
                    dim = None
                if g in ("lab2d", "two") and dim in ("x", "y"):
                    dim = None
                if func in ("first", "last"):
                    dim = None
                c = dict(dims=list(dims), func=func, grouper=g, skipna=skipna, dim=dim, keep_attrs=bool(i % 2), data_seed=ctx.seed * 1000 + i,
                         dataset=(i % 4 == 0), int_data=(i % 7 == 0))
                if func in ("all", "any"):
                    c["int_data"] = True
                if i % 3 == 0:
                    c["chunk"] = [1, 2, 3][i % 3] + 1 if False else 2
                cases.append(c)
    # order statistics with a scalar and a vector q (an extra leading "quantile" dimension for the vector)
    for dims in dimsets:
        for rep in range(3 if ctx.quick else 10):
            i += 1
            g = ["lab", "external"][i % 2]
            c = dict(dims=list(dims), func="quantile", q=[0.5, [0.25, 0.75], 0.0][i % 3], grouper=g, skipna=[None, True, False][i % 3], dim=[None, "x"][i % 2], keep_attrs=bool(i % 2),
                     data_seed=ctx.seed * 1000 + i, dataset=(i % 5 == 0), int_data=False)
            if i % 4 == 0:
                c["chunk"] = -1  # order statistics need the grouped dimension in one chunk
            cases.append(c)
    return cases


def run(ctx: Ctx):
    note = ""
    if getattr(ctx, "only", None) != "bounded":
        from ..proofs import c15_proofs

        note = c15_proofs.run(ctx)
    if getattr(ctx, "only", None) != "proof":
        run_bounded(
            ctx, "C15.rtc.xarray_reduce_vs_native", FUNCTION, bounded_cases(ctx), "vlib.props.C15:check",
            bound="DataArrays/Datasets of 1-3 dims (sizes 6,4,2) in 6 dim orders; groupers: 1-D coordinate on either dim, 2-D coordinate, external DataArray, two groupers; dim in {None, a dim, both, ...}; skipna None/True/False; keep_attrs; float (with NaN) and int data; Datasets with a variable in reversed dim order and one lacking the grouped dim; chunked (size 2) or in memory; 13 reductions",
            rule="postcondition: same dims order, name, attrs, coords (names, dims, values) and values (rtol 1e-9) as obj.groupby(...).<func>() under set_options(use_flox=False), wherever native xarray defines an answer; values equal groupby_reduce on the underlying arrays for the 1-D grouper; chunked input stays lazy; non-trivial = >=2 dims or Dataset or chunked",
            nontrivial=lambda c: len(c["dims"]) >= 2 or c.get("dataset") or c.get("chunk"), chunksize=4,
        )
    ctx.assume("xarray's native groupby (use_flox=False) is the specification; xarray.apply_ufunc core-dim semantics assumed")
    ctx.na_subclaims.append("equivalence with another implementation behind xarray's API: no contract within reach of the VC generator expresses it; decided only by the bounded run-time contract")
    ctx.trust("xarray", "z3 / cvc5")
    return "exploration", ("xarray_reduce is 450 lines of xarray API calls; the helper obligations proved (see obligations, if any) do not carry the main claim, which is decided by the bounded run-time contract against native xarray. " + note)


def _case_of(payload):
    if "case" in payload:
        return payload["case"]
    m = payload.get("model")
    return m.get("case") if isinstance(m, dict) else None


def replay(payload):
    if _case_of(payload) is None:
        print("REPLAY: obligation", payload.get("obligation"), "-", payload.get("formula"), "| solver:", str(payload.get("solver_output"))[:500])
        return 1
    payload = {**payload, "case": _case_of(payload)}
    r = check(payload["case"])
    print("REPLAY:", "contract holds" if r is None else r["why"])
    return 0 if r is None else 1
