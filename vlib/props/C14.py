"""C14 — no side effects; results independent of call history and of co-computed results."""

from __future__ import annotations

import numpy as np

from ..core import Ctx
from ..rtc import gen
from ..rtc.driver import run_bounded
from ..rtc.reduce_case import compositions, enc, label_patterns

FUNCTION = "flox.core.groupby_reduce / groupby_scan / rechunk helpers / xarray_reduce (API level)"


def _registry_snapshot():
    from flox.aggregations import AGGREGATIONS

    from ..rtc.graphs import fingerprint

    snap = {}
    for k, v in AGGREGATIONS.items():
        d = {kk: vv for kk, vv in vars(v).items() if kk not in ("new_dims", "num_new_vector_dims")}
        snap[k] = fingerprint({kk: (vv if not callable(vv) else getattr(vv, "__name__", repr(vv))) for kk, vv in d.items()})
    return snap


def _call(spec):
    """Execute one API call description; returns (values, input objects) with values as numpy."""
    import warnings

    import dask

    from ..rtc.reduce_case import build_call, dec
    from ..rtc.scan_case import build_scan

    with warnings.catch_warnings():
        warnings.simplefilter("ignore")
        api = spec.get("api", "reduce")
        if api == "reduce":
            from flox.core import groupby_reduce

            arr, bys, kw = build_call(spec)
            eg = kw.get("expected_groups")
            res = groupby_reduce(arr, *bys, **kw)
            inputs = {"array": arr, "by": bys, "expected_groups": eg}
        elif api == "scan":
            from flox.core import groupby_scan

            arr, by, kw = build_scan(spec)
            res = (groupby_scan(arr, by, **kw),)
            inputs = {"array": arr, "by": [by]}
        elif api == "rechunk_blockwise":
            import dask.array as da

            from flox.core import rechunk_for_blockwise

            arr = da.from_array(dec(spec["array"]), chunks=tuple(tuple(c) for c in spec["chunks"]))
            lab = dec(spec["by"][0])
            res = (rechunk_for_blockwise(arr, -1, lab),)
            inputs = {"array": arr, "by": [lab]}
        elif api == "rechunk_cohorts":
            import dask.array as da

            from flox.core import rechunk_for_cohorts

            arr = da.from_array(dec(spec["array"]), chunks=tuple(tuple(c) for c in spec["chunks"]))
            lab = dec(spec["by"][0])
            force = np.array(spec["force"])
            res = (rechunk_for_cohorts(arr, -1, lab, force_new_chunk_at=force, chunksize=spec.get("chunksize")),)
            inputs = {"array": arr, "by": [lab], "force": force}
        else:
            raise KeyError(api)
        chunks_meta = [getattr(r, "chunks", None) for r in res]
        vals = dask.compute(*res, scheduler="sync")
        return [np.asarray(v) for v in vals], inputs, chunks_meta


def _fp_inputs(inputs):
    from ..rtc.graphs import fingerprint

    out = {}
    for k, v in inputs.items():
        if v is None:
            continue
        vs = v if isinstance(v, (list, tuple)) else [v]
        fps = []
        for x in vs:
            if hasattr(x, "dask"):
                fps.append(fingerprint(np.asarray(x.compute(scheduler="sync"))) + str(x.chunks))
            else:
                fps.append(fingerprint(np.asarray(x) if not hasattr(x, "to_numpy") else x.to_numpy()))
        out[k] = fps
    return out


def check_history(case):
    """case = {"history": [spec...]}: the last call's result after the history == the same call in a fresh process
    state (approximated by clearing flox's caches); no call modifies its arguments or the registry."""
    import flox.cache
    from flox import dask_array_ops

    from ..rtc.reduce_case import ALLOWED_EXC, arrays_equal

    sig = {"part": "history", "func": case["history"][-1].get("func"), "api": case["history"][-1].get("api", "reduce")}

    def clear():
        try:
            flox.cache.cache.clear()
        except Exception:
            pass
        dask_array_ops.get_parts.cache_clear()

    clear()
    reg0 = _registry_snapshot()
    try:
        fresh, _, fresh_chunks = _call(case["history"][-1])
    except Exception as e:
        return None if type(e).__name__ in ALLOWED_EXC else {"case": case, "why": f"last call raised {type(e).__name__}: {str(e)[:150]}", "sig": sig}
    clear()
    for spec in case["history"][:-1]:
        try:
            _, inputs, _ = _call(spec)
        except Exception as e:
            if type(e).__name__ in ALLOWED_EXC:
                continue
            return {"case": case, "why": f"history call raised {type(e).__name__}: {str(e)[:150]}", "sig": sig}
    # argument immutability is checked on the last call (before/after fingerprints)
    import warnings

    spec = case["history"][-1]
    # build inputs once, fingerprint, call through the same objects
    from ..rtc.reduce_case import build_call

    try:
        vals, inputs, chunks_meta = _call_with_fingerprints(spec)
    except _ArgMutated as e:
        return {"case": case, "why": str(e), "sig": sig}
    if _registry_snapshot() != reg0:
        return {"case": case, "why": "the registry of aggregations (flox.aggregations.AGGREGATIONS) was modified", "sig": sig}
    if len(vals) != len(fresh):
        return {"case": case, "why": "different number of outputs after the history", "sig": sig}
    for a, b in zip(vals, fresh):
        w = arrays_equal(a, b, exact=True)
        if w:
            return {"case": case, "why": f"result after the call history differs from the fresh result: {w}", "sig": sig}
    if chunks_meta != fresh_chunks:
        return {"case": case, "why": f"chunks after the call history {chunks_meta} differ from fresh {fresh_chunks}", "sig": sig}
    return None


class _ArgMutated(Exception):
    pass


def _call_with_fingerprints(spec):
    """Same as _call but fingerprints the argument objects before and after."""
    import warnings

    import dask

    from ..rtc.reduce_case import build_call, dec
    from ..rtc.scan_case import build_scan

    api = spec.get("api", "reduce")
    if api not in ("reduce", "scan"):
        vals, inputs, cm = _call(spec)
        return vals, inputs, cm
    with warnings.catch_warnings():
        warnings.simplefilter("ignore")
        if api == "reduce":
            from flox.core import groupby_reduce

            arr, bys, kw = build_call(spec)
            inputs = {"array": arr, "by": bys, "expected_groups": kw.get("expected_groups")}
            before = _fp_inputs(inputs)
            res = groupby_reduce(arr, *bys, **kw)
        else:
            from flox.core import groupby_scan

            arr, by, kw = build_scan(spec)
            inputs = {"array": arr, "by": [by]}
            before = _fp_inputs(inputs)
            res = (groupby_scan(arr, by, **kw),)
        cm = [getattr(r, "chunks", None) for r in res]
        vals = dask.compute(*res, scheduler="sync")
        after = _fp_inputs(inputs)
    if before != after:
        bad = [k for k in before if before[k] != after.get(k)]
        raise _ArgMutated(f"the call modified its argument(s) {bad}")
    return [np.asarray(v) for v in vals], inputs, cm


def check_cocompute(case):
    """case = {"specs": [spec1, spec2(, spec3)]}: values computed together == values computed alone, and the merged
    graph has no key bound to two different tasks."""
    import warnings

    import dask

    from ..rtc.reduce_case import ALLOWED_EXC, arrays_equal, build_call
    from ..rtc.scan_case import build_scan

    sig = {"part": "cocompute", "differs_in": case.get("differs_in"), "func": case["specs"][0].get("func")}
    lazies = []
    try:
        with warnings.catch_warnings():
            warnings.simplefilter("ignore")
            for spec in case["specs"]:
                if spec.get("api") == "scan":
                    from flox.core import groupby_scan

                    arr, by, kw = build_scan(spec)
                    lazies.append(groupby_scan(arr, by, **kw))
                else:
                    from flox.core import groupby_reduce

                    arr, bys, kw = build_call(spec)
                    lazies.append(groupby_reduce(arr, *bys, **kw)[0])
            alone = [np.asarray(l.compute(scheduler="sync")) for l in lazies]
            # key collisions: same key, different task
            seen = {}
            for li, l in enumerate(lazies):
                for k, v in dict(l.__dask_graph__()).items():
                    r = repr(v)
                    if k in seen and seen[k][1] != r:
                        return {"case": case, "why": f"key {k!r} names two different tasks in results {seen[k][0]} and {li}", "sig": sig}
                    seen.setdefault(k, (li, r))
            for order in (list(range(len(lazies))), list(range(len(lazies)))[::-1]):
                tog = dask.compute(*[lazies[i] for i in order], scheduler="sync")
                for pos, i in enumerate(order):
                    w = arrays_equal(np.asarray(tog[pos]), alone[i], exact=True)
                    if w:
                        return {"case": case, "why": f"result {i} computed together (order {order}) differs from computed alone: {w}; alone={alone[i].tolist()} together={np.asarray(tog[pos]).tolist()}", "sig": sig}
    except Exception as e:
        if type(e).__name__ in ALLOWED_EXC:
            return None
        return {"case": case, "why": f"raised {type(e).__name__}: {str(e)[:200]}", "sig": sig}
    return None


def history_cases(ctx: Ctx):
    rng = gen.rng_for(ctx, 14)
    n = 6
    pats = [p for p in label_patterns(n, 3, with_missing=False)]
    chunkings = list(compositions(n))
    def rnd_spec(i):
        api = ["reduce", "reduce", "reduce", "scan", "rechunk_blockwise", "rechunk_cohorts"][i % 6]
        pat = pats[int(rng.integers(len(pats)))]
        lab = np.array(pat) * 10 + 5
        v = np.array([[1.0, 3.0, 2.0, -1.0, np.nan][rng.integers(5)] for _ in range(n)])
        ch = [list(chunkings[int(rng.integers(len(chunkings)))])]
        if api == "reduce":
            f = ["sum", "nanmean", "nanmax", "argmax", "var", "count", "nanfirst", "median"][int(rng.integers(8))]
            s = dict(array=enc(v if f != "argmax" else np.nan_to_num(v)), by=[enc(lab)], func=f)
            if rng.integers(2):
                s["chunks"] = ch
                s["method"] = [None, "map-reduce", "cohorts"][int(rng.integers(3))]
            if rng.integers(2):
                s["expected_groups"] = [sorted(set(lab.tolist())) + [99]]
                s["fill_value"] = -1 if f == "argmax" else "nan"
            if f == "var":
                s["finalize_kwargs"] = {"ddof": int(rng.integers(2))}
            return s
        if api == "scan":
            return dict(api="scan", array=enc(v), by=[enc(lab)], func=["nancumsum", "ffill", "bfill"][int(rng.integers(3))], chunks=ch if rng.integers(2) else None)
        labs = np.sort(lab)
        if api == "rechunk_blockwise":
            return dict(api=api, array=enc(v), by=[enc(labs)], chunks=ch)
        return dict(api=api, array=enc(v), by=[enc(lab)], chunks=ch, force=[int(lab[0])], chunksize=int(rng.integers(1, 4)))
    cases = []
    for t in range(120 if ctx.quick else 800):
        L = int(rng.integers(2, 7))
        hist = [rnd_spec(int(rng.integers(6))) for _ in range(L)]
        if t % 3 == 0:
            # cache-populating prefix: same chunks, different labels (equal length) for the memoised chunk optimiser
            last = rnd_spec(4)
            other = dict(last)
            other["by"] = [enc(np.sort(np.array(pats[int(rng.integers(len(pats)))]) * 10 + 5))]
            hist = hist[:-2] + [other, last]
        cases.append({"history": hist})
    return cases


def _same_structure(a, b):
    if type(a) is not type(b):
        return False
    if isinstance(a, dict):
        return a.keys() == b.keys() and all(_same_structure(a[k], b[k]) for k in a)
    if isinstance(a, (list, tuple)):
        return len(a) == len(b) and all(_same_structure(x, y) for x, y in zip(a, b))
    if isinstance(a, np.ndarray):
        return a.dtype == b.dtype and a.shape == b.shape and bool(np.array_equal(a, b, equal_nan=True)) if a.dtype.kind in "fc" else bool(np.array_equal(a, b))
    if callable(a):
        return a is b
    try:
        if a != a and b != b:
            return True
        return bool(a == b)
    except Exception:
        return a is b


def check_user_aggregation(case):
    """A user's Aggregation object handed to two calls that differ in fill_value / min_count: the object is left exactly as
    it was, and the first lazy result, computed again after the second call was made, still has its own values."""
    import copy
    import warnings

    import dask.array as da

    from ..rtc.custom_aggs import make
    from ..rtc.reduce_case import arrays_equal, dec

    sig = {"part": "user_aggregation", "func": case["custom_agg"]}
    try:
        with warnings.catch_warnings():
            warnings.simplefilter("ignore")
            from flox.core import groupby_reduce

            agg = make(case["custom_agg"])
            before = copy.deepcopy({k: v for k, v in agg.__dict__.items()})
            arr, by = dec(case["array"]), dec(case["by"][0])
            lazy = da.from_array(arr, chunks=tuple(tuple(c) for c in case["chunks"])) if case.get("chunks") else arr
            eg = np.array(case["expected_groups"][0])

            def call(fill, mc):
                return groupby_reduce(lazy, by, func=agg, expected_groups=eg, fill_value=fill, min_count=mc, method=case.get("method"))[0]

            first = call(case["fills"][0], case["min_counts"][0])
            r1 = np.asarray(first.compute(scheduler="sync") if hasattr(first, "compute") else first)
            second = call(case["fills"][1], case["min_counts"][1])
            r2 = np.asarray(second.compute(scheduler="sync") if hasattr(second, "compute") else second)
            r1_again = np.asarray(first.compute(scheduler="sync")) if hasattr(first, "compute") else r1
            # fresh objects for the reference
            agg_f = make(case["custom_agg"])
            ref1 = groupby_reduce(arr, by, func=agg_f, expected_groups=eg, fill_value=case["fills"][0], min_count=case["min_counts"][0])[0]
            agg_g = make(case["custom_agg"])
            ref2 = groupby_reduce(arr, by, func=agg_g, expected_groups=eg, fill_value=case["fills"][1], min_count=case["min_counts"][1])[0]
    except Exception as e:
        return {"case": case, "why": f"raised {type(e).__name__}: {str(e)[:200]}", "sig": sig}
    after = {k: v for k, v in agg.__dict__.items()}
    if not _same_structure(before, after):
        changed = [k for k in before if not _same_structure(before[k], after.get(k))]
        return {"case": case, "why": f"the user's Aggregation object was modified by the calls: attributes {changed}", "sig": sig}
    for name, got, ref in (("first result", r1, ref1), ("second result", r2, ref2), ("first result computed again after the second call", r1_again, ref1)):
        w = arrays_equal(got, np.asarray(ref), exact=False)
        if w:
            return {"case": case, "why": f"{name} differs from the result with a fresh Aggregation object: {w}", "sig": sig}
    return None


def user_aggregation_cases(ctx: Ctx):
    cases = []
    lab = np.array([5, 5, 25, 25, 5, 25, 5, 25])
    v = np.array([1.0, 2.0, 3.0, 4.0, 5.0, 6.0, np.nan, 8.0])
    for name in ("range", "sumcubes", "msq"):
        for ch in (None, [[3, 3, 2]], [[8]], [[1] * 8]):
            for fills, mcs in (((-5.0, 7.0), (1, 1)), ((0.0, "nan"), (1, 2)), ((3.0, 3.0), (None, 4))):
                for method in ((None,) if ch is None else (None, "map-reduce", "cohorts")):
                    cases.append(dict(custom_agg=name, array=enc(v), by=[enc(lab)], chunks=ch, expected_groups=[[5, 15, 25, 35]], fills=[float("nan") if f == "nan" else f for f in fills], min_counts=list(mcs), method=method))
    return cases


def cocompute_cases(ctx: Ctx):
    rng = gen.rng_for(ctx, 140)
    n = 6
    cases = []
    lab = np.array([5, 15, 5, 15, 25, 25])
    lab2 = np.array([5, 5, 15, 15, 25, 5])
    v = np.array([1.0, 3.0, 2.0, -1.0, 4.0, 0.5])
    v2 = np.array([7.0, -3.0, 2.0, 9.0, 0.0, 1.5])
    chs = [[2, 2, 2], [1, 5], [3, 3], [1, 1, 1, 1, 1, 1]]
    def base(func, ch, **kw):
        return dict(array=enc(v), by=[enc(lab)], func=func, chunks=[ch], **kw)
    variants = []
    for ch in chs:
        for m in (None, "map-reduce", "cohorts"):
            variants.append(("array", base("sum", ch, method=m), {"array": enc(v2)}))
            variants.append(("labels", base("sum", ch, method=m), {"by": [enc(lab2)]}))
            variants.append(("reduction", base("nanmax", ch, method=m), {"func": "nanmin"}))
            variants.append(("ddof", base("var", ch, method=m, finalize_kwargs={"ddof": 0}), {"finalize_kwargs": {"ddof": 1}}))
            variants.append(("min_count", base("nansum", ch, method=m, min_count=1), {"min_count": 4}))
            variants.append(("fill_value", base("sum", ch, method=m, expected_groups=[[5, 15, 25, 35]], fill_value=0), {"fill_value": 7}))
            variants.append(("dtype", base("sum", ch, method=m, dtype="float32"), {"dtype": "float64"}))
            variants.append(("engine", base("nansum", ch, method=m, engine="numpy"), {"engine": "flox"}))
            variants.append(("sort", base("sum", ch, method=m, expected_groups=[[25, 5, 15]], sort=True), {"sort": False}))
            variants.append(("argarray", base("argmax", ch, method=m), {"array": enc(v2)}))
            variants.append(("method", base("nanmean", ch, method=m), {"method": "map-reduce" if m != "map-reduce" else "cohorts"}))
            variants.append(("expected_groups", base("sum", ch, method=m, expected_groups=[[5, 15, 25]], fill_value=0), {"expected_groups": [[5, 15, 35]]}))
        variants.append(("q", base("quantile", [6], method="blockwise", finalize_kwargs={"q": 0.5}), {"finalize_kwargs": {"q": 0.9}}))
        variants.append(("scan-array", dict(api="scan", array=enc(v), by=[enc(lab)], func="nancumsum", chunks=[ch]), {"array": enc(v2)}))
        # data with NaN runs: on NaN-free data a forward fill is the identity whatever the labels are (a label mix-up would not show)
        variants.append(("scan-labels", dict(api="scan", array=enc(np.where(v > 2, np.nan, v)), by=[enc(lab)], func="ffill", chunks=[ch]), {"by": [enc(lab2)]}))
        variants.append(("scan-labels-cumsum", dict(api="scan", array=enc(v), by=[enc(lab)], func="nancumsum", chunks=[ch]), {"by": [enc(lab2)]}))
        variants.append(("scan-func", dict(api="scan", array=enc(np.where(v > 2, np.nan, v)), by=[enc(lab)], func="ffill", chunks=[ch]), {"func": "bfill"}))
    for name, a, delta in variants:
        b = dict(a)
        b.update(delta)
        cases.append({"specs": [a, b], "differs_in": name})
    # triples
    for ch in chs[:2]:
        a = base("var", ch, finalize_kwargs={"ddof": 0})
        b = dict(a); b["finalize_kwargs"] = {"ddof": 1}
        c = dict(a); c["array"] = enc(v2)
        cases.append({"specs": [a, b, c], "differs_in": "triple"})
    return cases


def run(ctx: Ctx):
    note = ""
    if getattr(ctx, "only", None) != "bounded":
        from ..proofs import c14_proofs

        note = c14_proofs.run(ctx)
    if getattr(ctx, "only", None) != "proof":
        run_bounded(
            ctx, "C14.rtc.history", FUNCTION, history_cases(ctx), "vlib.props.C14:check_history",
            bound="seeded sequences of 2-6 API calls (groupby_reduce eager/chunked, groupby_scan, rechunk_for_blockwise, rechunk_for_cohorts) on length-6 inputs, including cache-populating prefixes with equal chunks and different labels",
            rule="postcondition: last call's values and chunks == the same call with flox's caches cleared; arguments (array, labels, expected_groups) bit-identical after the call; AGGREGATIONS registry unchanged; non-trivial = every case (length >= 2)",
            nontrivial=lambda c: True, chunksize=4,
        )
        run_bounded(
            ctx, "C14.rtc.cocompute", FUNCTION, cocompute_cases(ctx), "vlib.props.C14:check_cocompute",
            bound="pairs (and two triples) of lazy results differing in exactly one ingredient from {array, labels, reduction, ddof, q, min_count, fill_value, dtype, engine, sort, method, expected_groups; scans: array, labels, function} x 4 chunkings x 3 methods",
            rule="postcondition: dask.compute(r1, r2) in both orders == each alone; no key of the merged graph names two different tasks; non-trivial = every pair",
            nontrivial=lambda c: True, chunksize=4,
        )
        run_bounded(
            ctx, "C14.rtc.user_aggregation", FUNCTION, user_aggregation_cases(ctx), "vlib.props.C14:check_user_aggregation",
            bound="three user-defined Aggregation objects x eager / 3 chunkings x 3 methods x 3 pairs of (fill_value, min_count): two calls sharing one Aggregation object",
            rule="postcondition: the user's Aggregation object is structurally unchanged after both calls; both results, and the first result computed again after the second call, equal the results with fresh objects",
            nontrivial=lambda c: True, chunksize=4,
        )
    ctx.assume("dask.base.tokenize is injective on the values it is given (assumed)", "clearing flox.cache.cache and get_parts' lru_cache stands for a fresh interpreter")
    ctx.trust("dask.base.tokenize", "cachey", "functools.lru_cache", "z3 / cvc5")
    return "other", ("Mixed: frame / cache-purity / token-coverage obligations by FrameCheck on the real source; histories and co-computation pairs are bounded stand-ins. " + note)


def _case_of(payload):
    if "case" in payload:
        return payload["case"]
    m = payload.get("model")
    return m.get("case") if isinstance(m, dict) else None


def replay(payload):
    if _case_of(payload) is None:
        print("REPLAY: obligation", payload.get("obligation"), "-", payload.get("formula"), "| solver:", str(payload.get("solver_output"))[:500])
        return 1
    payload = {**payload, "case": _case_of(payload)}
    case = payload["case"]
    r = check_history(case) if "history" in case else (check_user_aggregation(case) if "custom_agg" in case and "fills" in case else check_cocompute(case))
    print("REPLAY:", "contract holds" if r is None else r["why"])
    return 0 if r is None else 1
