"""C05 — one output slot per requested label; fill_value and min_count honoured exactly."""

from __future__ import annotations

import numpy as np

from ..core import Ctx
from ..rtc import gen
from ..rtc.driver import run_bounded
from ..rtc.reduce_case import compositions, enc, label_patterns

FUNCTION = "flox.core.groupby_reduce"


def check(case):
    from ..rtc.reduce_case import check_case, check_chunked_vs_eager

    r = check_case(case, refusal_ok=True)
    if r is None and case.get("chunks") is not None:
        r = check_chunked_vs_eager(case)
    return r


def bounded_cases(ctx: Ctx):
    rng = gen.rng_for(ctx, 5)
    n = 4 if ctx.quick else 6
    pats = [p for p in label_patterns(n, 3, with_missing=True) if any(x >= 0 for x in p)]
    chunkings = list(compositions(n))
    fills = ["nan", 0, -5, 2**40, False]
    mcs = [None, 0, 1, 2, n + 1]
    cases = []
    i = 0
    funcs = [f for f in gen.REDUCTIONS if f not in ("first", "last")] + ["first", "last"]
    for func in funcs:
        for pat in gen.sample(pats, 10 if ctx.quick else 50, rng):
            lab = gen.labels_to_array(pat)
            present = sorted({x for x in lab.tolist() if x == x})
            absent = [max(present) + 10, min(present) - 10]
            variants = {
                "superset": present + absent,
                "subset": present[:1] if len(present) > 1 else present,
                "disjoint": absent,
                "permuted": (present + absent)[::-1],
                "interleaved": [absent[1]] + present[::-1] + [absent[0]],
            }
            for vname, eg in variants.items():
                i += 1
                dt = "bool" if func in ("any", "all") else ("int64" if (i % 5 == 0 and not func.startswith("nan")) else "float64")
                v = gen.values_for(func, n, rng, 8, dt)[i % (8 if dt == "float64" else 2)]
                fill = fills[i % 5]
                if func in ("any", "all"):
                    fill = [False, True][i % 2]
                mc = mcs[(i // 5) % 5]
                c = dict(array=enc(v), by=[enc(lab)], func=func, expected_groups=[eg], fill_value=fill, min_count=mc,
                         sort=[True, False][(i // 2) % 2], engine=[None, "numpy", "flox", "numbagg", "numba"][i % 5])
                if func in ("var", "nanvar") and i % 2:
                    c["finalize_kwargs"] = {"ddof": 1}
                if i % 3 == 0:
                    c["expected_kind"] = "index"  # requested labels given as a pandas.Index rather than a list / array
                if i % 2 and func not in ("first", "last"):
                    c["chunks"] = [list(chunkings[i % len(chunkings)])]
                    c["method"] = [None, "map-reduce", "cohorts"][i % 3]
                    c["reindex"] = [None, True, False][(i // 3) % 3]
                    if i % 7 == 0:
                        c["by_chunks"] = [c["chunks"]]
                        c["method"] = "map-reduce" if c["method"] == "cohorts" else c["method"]
                cases.append(c)
    # boolean data with a fill that is not a boolean (an absent label must show the user's fill, not True)
    for func in ("max", "min", "nanmax", "nanmin", "first", "last", "nanfirst", "nanlast", "any", "all"):
        for pat in gen.sample(pats, 3 if ctx.quick else 12, rng):
            for fill in ("nan", 0, -5, True):
                i += 1
                lab = gen.labels_to_array(pat)
                present = sorted({x for x in lab.tolist() if x == x})
                vb = np.array(rng.integers(0, 2, size=n), dtype=bool)
                c = dict(array=enc(vb), by=[enc(lab)], func=func, expected_groups=[present + [max(present) + 10]], fill_value=fill, engine=[None, "numpy", "flox"][i % 3])
                if i % 2 and func not in ("first", "last"):
                    c["chunks"] = [list(chunkings[i % len(chunkings)])]
                    c["method"] = [None, "map-reduce", "cohorts"][i % 3]
                cases.append(c)
    # partial-axis reductions (2-D labels reduced along the last axis): every row has its own missing / unrequested
    # labels and its own absent requested labels
    for func in ("sum", "nansum", "count", "max", "nanmin", "mean", "first", "nanlast", "prod", "any"):
        for rep in range(6 if ctx.quick else 30):
            i += 1
            m = 4
            lab = np.array([[[5.0, 15.0, 25.0, np.nan, 45.0][rng.integers(5)] for _ in range(m)] for _ in range(2)])
            dt = "bool" if func == "any" else "float64"
            v = np.stack([gen.values_for(func, m, rng, 8, dt)[rng.integers(2 if dt == "bool" else 8)] for _ in range(2)])
            fill = [-5, 0, "nan"][i % 3] if func != "any" else False
            c = dict(array=enc(v), by=[enc(lab)], func=func, expected_groups=[[5.0, 15.0, 25.0]], fill_value=fill, axis=-1,
                     engine=[None, "numpy", "flox"][i % 3], sort=True)
            if i % 2 and func not in ("first",):
                c["chunks"] = [[1, 1] if i % 4 == 1 else [2], [[2, 2], [1, 3], [4]][i % 3]]
                c["method"] = "map-reduce"
            cases.append(c)
    return cases


def run(ctx: Ctx):
    note = ""
    if getattr(ctx, "only", None) != "bounded":
        from ..proofs import c05_proofs

        note = c05_proofs.run(ctx)
    if getattr(ctx, "only", None) != "proof":
        run_bounded(
            ctx, "C05.rtc.slots_fill_mincount", FUNCTION, bounded_cases(ctx), "vlib.props.C05:check",
            bound=f"1-D arrays of length {4 if ctx.quick else 6}; expected_groups in {{superset, subset, disjoint, permuted, interleaved}} of the labels present; fill_value in {{NaN,0,-5,2**40,False}}; min_count in {{None,0,1,2,n+1}}; sort True/False; 25 reductions; 5 engines; eager and chunked (all methods/reindex modes, numpy and dask labels)",
            rule="case = (reduction, label pattern, expected_groups variant, fill, min_count, sort, engine, plan); slot-by-slot postcondition against the NumPy specification and chunked == eager; non-trivial = some requested label absent or min_count > 0",
            nontrivial=lambda c: True,
        )
    ctx.assume("slots the property leaves open are not compared: a present-but-all-missing group when min_count is None and a fill is requested (flox documents an implicit min_count=1 there)")
    ctx.trust("numpy", "pandas.Index.get_indexer", "z3 / cvc5")
    return "other", ("Mixed: codes / mask / user-fill / reindex obligations proved on the real source; the slot-by-slot contract of groupby_reduce is a bounded stand-in. " + note)


def _case_of(payload):
    if "case" in payload:
        return payload["case"]
    m = payload.get("model")
    return m.get("case") if isinstance(m, dict) else None


def replay(payload):
    if _case_of(payload) is None:
        print("REPLAY: obligation", payload.get("obligation"), "-", payload.get("formula"), "| solver:", str(payload.get("solver_output"))[:500])
        return 1
    payload = {**payload, "case": _case_of(payload)}
    r = check(payload["case"])
    print("REPLAY:", "contract holds" if r is None else r["why"])
    return 0 if r is None else 1
