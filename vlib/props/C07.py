"""C07 — multi-variable grouping follows tuple-key semantics; binning follows pandas.cut."""

from __future__ import annotations

import numpy as np

from ..core import Ctx
from ..rtc import gen
from ..rtc.driver import run_bounded
from ..rtc.reduce_case import enc

FUNCTION = "flox.core.groupby_reduce (several groupers / bins)"


def check(case):
    from ..rtc.reduce_case import check_case, check_chunked_vs_eager

    r = check_case(case, refusal_ok=True)
    if r is None and case.get("chunks") is not None:
        r = check_chunked_vs_eager(case)
    return r


EDGES = [0.0, 1.0, 2.5, 4.0]


def bin_values(n, rng):
    pool = EDGES + [0.5, 1.7, 3.0, -1.0, 5.0, float("nan"), float("inf"), float("-inf")]
    return np.array([pool[rng.integers(len(pool))] for _ in range(n)])


def bounded_cases(ctx: Ctx):
    rng = gen.rng_for(ctx, 7)
    cases = []
    funcs = ["sum", "nansum", "count", "nanmax", "min", "nanmean", "first", "nanlast", "argmax", "var"]
    nrep = 14 if ctx.quick else 60
    i = 0
    for func in funcs:
        for rep in range(nrep):
            i += 1
            nby = 1 + (i % 3)
            shape = [(4,), (2, 3), (3, 2)][i % 3]
            n = int(np.prod(shape))
            vals = np.array([[-2.0, -1.0, 0.0, 1.0, 3.0, np.nan][rng.integers(6 if func != "argmax" else 5)] for _ in range(n)]).reshape(shape)
            bys, egs, isbins = [], [], []
            for b in range(nby):
                kind = ["cat", "bin"][(i + b) % 2]
                # shapes: equal, or broadcasting through size-1 axes
                bshape = list(shape)
                if len(shape) == 2 and nby > 1 and (i + b) % 3 == 0:
                    bshape[b % 2] = 1
                m = int(np.prod(bshape))
                if kind == "cat":
                    lab = np.array([[10.0, 20.0, 30.0, np.nan][rng.integers(4)] for _ in range(m)]).reshape(bshape)
                    bys.append(lab)
                    egs.append([[10.0, 20.0], [20.0, 10.0, 40.0], [30.0, 10.0, 20.0]][(i // 2) % 3])
                    isbins.append(False)
                else:
                    lab = bin_values(m, rng).reshape(bshape)
                    bys.append(lab)
                    closed = ["right", "left"][(i // 3) % 2]
                    if (i // 5) % 2:
                        egs.append({"interval": True, "breaks": EDGES, "closed": closed})
                    else:
                        egs.append({"interval": True, "breaks": EDGES, "closed": "right"}) if (i // 7) % 2 else egs.append(list(EDGES))
                    isbins.append(True)
            c = dict(array=enc(vals), by=[enc(b) for b in bys], nby=nby, func=func, expected_groups=egs, isbin=isbins,
                     fill_value=(-1 if func == "argmax" else ("nan" if func not in ("count",) else 0)), expected_tuple=nby > 1,
                     engine=[None, "numpy", "flox"][i % 3])
            if func in ("first", "nanlast", "argmax") and len(shape) > 1:
                c["array"] = enc(vals.reshape(-1))
                c["by"] = [enc(np.broadcast_to(b, shape).reshape(-1)) for b in bys]
                shape_eff = (n,)
            else:
                shape_eff = shape
            if i % 2 and func not in ("first",):
                ch = [[1] * s if (i // 2) % 2 else [s] for s in shape_eff]
                if len(shape_eff) == 1:
                    ch = [[[2, 2], [1, 3], [1, 1, 2], [4]][(i // 4) % 4]] if shape_eff[0] == 4 else [[2, 4] if shape_eff[0] == 6 else [shape_eff[0]]]
                    if sum(ch[0]) != shape_eff[0]:
                        ch = [[shape_eff[0]]]
                c["chunks"] = ch
                c["method"] = [None, "map-reduce", "cohorts"][(i // 2) % 3]
                if i % 6 == 1:
                    # dask labels (all groupers), chunked like the array's trailing axes
                    bs = [np.asarray(b) for b in (np.broadcast_to(b, shape).reshape(-1) for b in bys)] if len(shape_eff) == 1 and len(shape) > 1 else bys
                    ok = all(tuple(np.asarray(b).shape) == tuple(shape_eff) for b in bs)
                    if ok:
                        c["by_chunks"] = [ch for _ in bs]
                        if c["method"] == "cohorts":
                            c["method"] = "map-reduce"
            cases.append(c)
    # mixed label kinds: an in-memory grouper whose groups are discovered from the data next to a dask grouper with
    # requested groups (the codes of the in-memory grouper must mean the same thing in every block)
    k = 0
    for func in ("sum", "count", "nanmax", "nanargmax", "nanfirst"):
        for lab0 in ([30, 10, 30, 10, 20, 20, 10, 30], [20.0, "nan", 10.0, 10.0, 30.0, 20.0, 30.0, 10.0], [10, 10, 20, 20, 30, 30, 10, 20]):
            for ch in ([4, 4], [3, 3, 2], [1] * 8, [8]):
                for sort in (True, False):
                    k += 1
                    if ctx.quick and k % 3:
                        continue
                    b0 = np.array([float("nan") if x == "nan" else x for x in lab0])
                    b1 = np.array([0, 0, 1, 1, 0, 0, 1, 1])
                    vals = np.array([1.0, -2.0, 3.0, 0.5, float("nan"), 4.0, -1.0, 2.0])
                    cases.append(dict(array=enc(vals), by=[enc(b0), enc(b1)], nby=2, func=func, expected_groups=[None, [0, 1]], expected_tuple=True, sort=sort,
                                      fill_value=(-1 if "arg" in func else ("nan" if func != "count" else 0)), chunks=[ch], by_chunks=[None if k % 2 else [ch], [ch]],
                                      method=[None, "map-reduce"][k % 2]))
    return cases


def run(ctx: Ctx):
    note = ""
    if getattr(ctx, "only", None) != "bounded":
        from ..proofs import c07_proofs

        note = c07_proofs.run(ctx)
    if getattr(ctx, "only", None) != "proof":
        run_bounded(
            ctx, "C07.rtc.tuple_keys_and_bins", FUNCTION, bounded_cases(ctx), "vlib.props.C07:check",
            bound="1-3 groupers mixing categorical and binned (edges 0,1,2.5,4; closed right/left; breaks list or IntervalIndex), label values on edges / inside / outside / NaN / +-Inf, shapes (4,), (2,3), (3,2) with size-1 broadcasting, eager and chunked, numpy and dask labels; 10 reductions",
            rule="case = (reduction, groupers, shapes, values, plan); oracle = pandas.cut codes + dict keyed by label tuples; non-trivial = >=2 groupers or a binned grouper",
            nontrivial=lambda c: True,
        )
    ctx.assume("pandas.cut and pandas.IntervalIndex.from_breaks define the binning specification (external oracle)")
    ctx.trust("pandas.cut", "numpy.digitize", "numpy.ravel_multi_index", "z3 / cvc5")
    return "other", ("Mixed: the cut, ravel and factorize_ obligations are proved pointwise over all reals on the real source; the end-to-end contract is a bounded stand-in. " + note)


def _case_of(payload):
    if "case" in payload:
        return payload["case"]
    m = payload.get("model")
    return m.get("case") if isinstance(m, dict) else None


def replay(payload):
    if _case_of(payload) is None:
        print("REPLAY: obligation", payload.get("obligation"), "-", payload.get("formula"), "| solver:", str(payload.get("solver_output"))[:500])
        return 1
    payload = {**payload, "case": _case_of(payload)}
    r = check(payload["case"])
    print("REPLAY:", "contract holds" if r is None else r["why"])
    return 0 if r is None else 1
