"""C08 — partial-axis reductions and leading (batch) dimensions are independent slices."""

from __future__ import annotations

import itertools

import numpy as np

from ..core import Ctx
from ..rtc import gen
from ..rtc.driver import run_bounded
from ..rtc.reduce_case import enc

FUNCTION = "flox.core.groupby_reduce (axis subsets, batch dimensions)"


def check(case):
    """Contract: the n-D call equals the stack of independent 1-D grouped reductions over the kept indices."""
    import numpy as np

    from ..rtc.reduce_case import ALLOWED_EXC, EXACT_FUNCS, arrays_equal, check_chunked_vs_eager, dec, run_case, signature

    sig = signature(case)
    got = run_case(case)
    if not got["ok"]:
        sig["exc_type"] = got["exc_type"]
        if got["exc_type"] in ("NotImplementedError", "ImportError"):
            return None  # a documented "not supported" (C19 decides whether it is legitimate)
        if got["exc_type"] in ALLOWED_EXC and case.get("chunks") is not None:
            # a ValueError is a rejection of the *input*; the same input in memory must then be rejected as well,
            # otherwise the chunked call fails to give the per-slice results the property demands
            from ..rtc.reduce_case import eager_variant

            if not run_case(eager_variant(case))["ok"]:
                return None
            return {"case": case, "why": f"chunked call raised {got['exc_type']}: {got['exc_msg']} while the same call on in-memory data succeeds", "sig": sig}
        if got["exc_type"] in ALLOWED_EXC:
            return None
        return {"case": case, "why": f"raised {got['exc_type']}: {got['exc_msg']}", "sig": sig}
    arr = dec(case["array"])
    by = dec(case["by"][0])
    bnd = by.ndim
    axis = case.get("axis")
    if axis is None:
        red = tuple(range(arr.ndim - bnd, arr.ndim))
    else:
        red = tuple(sorted(a % arr.ndim for a in (axis if isinstance(axis, list) else [axis])))
    kept = tuple(a for a in range(arr.ndim) if a not in red)
    full_by = np.broadcast_to(by, arr.shape[:-bnd] + tuple(np.broadcast_shapes(by.shape, arr.shape[-bnd:])))
    A = np.transpose(arr, kept + red)
    B = np.transpose(full_by, kept + red)
    kshape = A.shape[: len(kept)]
    A = A.reshape(kshape + (-1,))
    B = B.reshape(kshape + (-1,))
    res = np.asarray(got["result"])
    eg = case["expected_groups"][0]
    if tuple(res.shape) != tuple(kshape) + (len(eg),):
        return {"case": case, "why": f"shape {res.shape} != kept dims {kshape} + groups {len(eg)}", "sig": sig}
    exact = case["func"] in EXACT_FUNCS
    for k in np.ndindex(*kshape):
        sub = dict(array=enc(A[k]), by=[enc(B[k])], func=case["func"], expected_groups=case["expected_groups"],
                   fill_value=case.get("fill_value"), engine=case.get("engine"), min_count=1)
        one = run_case(sub)
        if not one["ok"]:
            return None if one["exc_type"] in ALLOWED_EXC else {"case": sub, "why": f"1-D slice call raised {one['exc_type']}", "sig": sig}
        w = arrays_equal(res[k], one["result"], exact)
        if w:
            return {"case": case, "why": f"slice {k}: n-D result {res[k].tolist()} != 1-D reduction of that slice {np.asarray(one['result']).tolist()} ({w})", "sig": sig}
    if case.get("chunks") is not None:
        return check_chunked_vs_eager(case)
    return None


def bounded_cases(ctx: Ctx):
    rng = gen.rng_for(ctx, 8)
    cases = []
    funcs = ["sum", "nansum", "count", "nanmax", "max", "nanmean", "nanvar", "prod", "nanmin", "any", "nanfirst", "argmax"]
    shapes = [((3,), 1), ((2, 3), 1), ((2, 3), 2), ((2, 2, 3), 2), ((2, 2, 3), 3), ((2, 2, 2, 2), 2), ((2, 2, 2, 2), 3)]
    i = 0
    for func in funcs:
        for ashape, bnd in shapes:
            bshape = ashape[-bnd:]
            axes_all = list(range(len(ashape) - bnd, len(ashape)))
            subsets = []
            for r in range(1, bnd + 1):
                for comb in itertools.combinations(axes_all, r):
                    subsets.append(list(comb))
            for sub in subsets if not ctx.quick else gen.sample(subsets, 3, rng):
                for rep in range(1 if ctx.quick else 3):
                    i += 1
                    if func in ("nanfirst", "argmax") and len(sub) not in (1,):
                        continue
                    n = int(np.prod(ashape))
                    if func == "any":
                        vals = rng.integers(0, 2, size=n).astype(bool).reshape(ashape)
                    else:
                        al = [-2.0, -1.0, 0.0, 1.0, 3.0] + ([np.nan] if func != "argmax" else [])
                        vals = np.array([al[rng.integers(len(al))] for _ in range(n)]).reshape(ashape)
                    lab = np.array([[10.0, 20.0, 30.0, np.nan][rng.integers(4)] for _ in range(int(np.prod(bshape)))]).reshape(bshape)
                    ax = list(sub)
                    if i % 2:
                        ax = [a - len(ashape) for a in ax]  # negative form
                    if (i // 2) % 2 == 1 and func not in ("nanfirst", "argmax"):
                        ax = ax[::-1]  # any order (for eager and for chunked inputs alike)
                    c = dict(array=enc(vals), by=[enc(lab)], func=func, expected_groups=[[10.0, 20.0, 30.0]], axis=ax if len(ax) > 1 else ax[0],
                             fill_value=(False if func == "any" else (-1 if func == "argmax" else (0 if func == "count" else "nan"))),
                             engine=[None, "numpy", "flox"][i % 3])
                    if i % 2 == 0:
                        ch = []
                        for d, s in enumerate(ashape):
                            ch.append([s] if i % 8 == 0 else ([1] * s if (i + d) % 3 == 0 else ([1, s - 1] if s > 1 and (i + d) % 3 == 1 else [s])))
                        c["chunks"] = ch
                        c["method"] = [None, "map-reduce"][(i // 2) % 2]
                    cases.append(c)
    # every label axis reduced at once on a single-block (or batch-split) dask array: the automatic method choice is
    # "blockwise" and the blocks are re-addressed by _collapse_blocks_along_axes (one unit axis per reduced axis)
    for func in ["nansum", "count", "max", "nanmean"]:
        for ashape, bnd in [((2, 3), 2), ((2, 2, 3), 3), ((2, 2, 2, 2), 3), ((2, 2, 2), 2)]:
            for split_batch in (False, True):
                nb = len(ashape) - bnd
                if split_batch and nb == 0:
                    continue
                i += 1
                n = int(np.prod(ashape))
                al = [-2.0, -1.0, 0.0, 1.0, 3.0, np.nan]
                vals = np.array([al[rng.integers(len(al))] for _ in range(n)]).reshape(ashape)
                bshape = ashape[-bnd:]
                lab = np.array([[10.0, 20.0, 30.0, np.nan][rng.integers(4)] for _ in range(int(np.prod(bshape)))]).reshape(bshape)
                ax = list(range(nb, len(ashape)))
                cases.append(dict(array=enc(vals), by=[enc(lab)], func=func, expected_groups=[[10.0, 20.0, 30.0]], axis=ax if i % 2 else [a - len(ashape) for a in ax],
                                  fill_value=(0 if func == "count" else "nan"), engine=[None, "numpy", "flox"][i % 3],
                                  chunks=[([1] * s if (split_batch and d < nb) else [s]) for d, s in enumerate(ashape)], method=None))
    # axes given in MIXED sign forms (the larger axis negative, the smaller positive, in either order): sorting the raw numbers
    # is not sorting the axes (added after seeded change C08-axes-sorted-before-normalizing was missed: all-positive and
    # all-negative forms only)
    for func in ["nansum", "max", "count"]:
        for ashape, bnd in [((2, 3), 2), ((2, 2, 3), 3), ((2, 2, 3), 2), ((2, 3, 2, 2), 3)]:
            nb = len(ashape) - bnd
            label_axes = list(range(nb, len(ashape)))
            for sub in [c_ for r in range(2, bnd + 1) for c_ in itertools.combinations(label_axes, r)]:
                for chunked in (False, True):
                    i += 1
                    n = int(np.prod(ashape))
                    al = [-2.0, -1.0, 0.0, 1.0, 3.0, np.nan]
                    vals = np.array([al[rng.integers(len(al))] for _ in range(n)]).reshape(ashape)
                    bshape = ashape[-bnd:]
                    lab = np.array([[10.0, 20.0, 30.0, np.nan][rng.integers(4)] for _ in range(int(np.prod(bshape)))]).reshape(bshape)
                    ax = [a for a in sub[:-1]] + [sub[-1] - len(ashape)]  # e.g. (0, -1)
                    if i % 2:
                        ax = ax[::-1]
                    c = dict(array=enc(vals), by=[enc(lab)], func=func, expected_groups=[[10.0, 20.0, 30.0]], axis=ax, fill_value=(0 if func == "count" else "nan"), engine=[None, "numpy", "flox"][i % 3])
                    if chunked:
                        c["chunks"] = [([1] * s_ if (i + d) % 2 == 0 else [s_]) for d, s_ in enumerate(ashape)]
                        c["method"] = [None, "map-reduce"][(i // 2) % 2]
                    cases.append(c)
    return cases


def run(ctx: Ctx):
    note = ""
    if getattr(ctx, "only", None) != "bounded":
        from ..proofs import c08_proofs

        note = c08_proofs.run(ctx)
    if getattr(ctx, "only", None) != "proof":
        run_bounded(
            ctx, "C08.rtc.slices", FUNCTION, bounded_cases(ctx), "vlib.props.C08:check",
            bound="value arrays of rank 1-4 (sizes 2-3), label arrays of rank 1-3, non-empty subsets of the label axes as axis (negative, permuted and mixed-sign forms), NaN labels distributed unevenly, eager and chunked along every axis; 12 reductions",
            rule="case = (reduction, shapes, axis subset, values, labels, plan); oracle = for every index of the kept dims, the 1-D grouped reduction of that slice by the same function (itself covered by C01); then chunked == eager; non-trivial = at least one kept dim",
            nontrivial=lambda c: len(c["array"]["shape"]) >= 2,
        )
    ctx.trust("numpy transpose/reshape row-major semantics", "numpy.lib.array_utils.normalize_axis_tuple", "z3 / cvc5")
    return "other", ("Mixed: label-offset obligations (offset_labels, ravel), the axis helpers (_move_reduce_dims_to_end, _collapse_axis, _squeeze_results) and the block-collapsing graph layer proved on the real source; how groupby_reduce / chunk_reduce compose them (which axes they hand over) and slice independence of the whole call are bounded stand-ins. " + note)


def _case_of(payload):
    if "case" in payload:
        return payload["case"]
    m = payload.get("model")
    return m.get("case") if isinstance(m, dict) else None


def replay(payload):
    if _case_of(payload) is None:
        print("REPLAY: obligation", payload.get("obligation"), "-", payload.get("formula"), "| solver:", str(payload.get("solver_output"))[:500])
        return 1
    payload = {**payload, "case": _case_of(payload)}
    r = check(payload["case"])
    print("REPLAY:", "contract holds" if r is None else r["why"])
    return 0 if r is None else 1
