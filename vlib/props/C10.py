"""C10 — grouped scans equal per-group sequential scans for every chunking."""

from __future__ import annotations

import numpy as np

from ..core import Ctx
from ..rtc import gen
from ..rtc.driver import run_bounded
from ..rtc.reduce_case import compositions, enc, label_patterns

FUNCTION = "flox.core.groupby_scan"


def check(case):
    from ..rtc.scan_case import check_scan

    r = check_scan(case)
    if r is not None or case["func"] != "bfill" or case.get("axis") not in (None, -1):
        return r
    # bfill is the mirror image of ffill
    from ..rtc.reduce_case import dec
    from ..rtc.scan_case import run_scan

    arr = dec(case["array"])
    by = dec(case["by"][0])
    if by.ndim != 1:
        return None
    m = dict(case)
    m["func"] = "ffill"
    m["array"] = enc(arr[..., ::-1])
    m["by"] = [enc(by[::-1])]
    if case.get("chunks") is not None:
        m["chunks"] = [list(c) for c in case["chunks"][:-1]] + [list(case["chunks"][-1])[::-1]]
    a = run_scan(case)
    b = run_scan(m)
    if a["ok"] and b["ok"]:
        if not np.array_equal(np.asarray(a["result"]), np.asarray(b["result"])[..., ::-1], equal_nan=True):
            return {"case": case, "why": "bfill(x) != reverse(ffill(reverse(x)))", "sig": {"func": "bfill"}}
    return None


def bounded_cases(ctx: Ctx):
    rng = gen.rng_for(ctx, 10)
    n = 6 if ctx.quick else 8
    pats_all = list(label_patterns(n, 3, with_missing=True))
    pats_nomiss = [p for p in pats_all if all(x >= 0 for x in p)]
    chunkings = list(compositions(n))
    cases = []
    i = 0
    dts = ["float64", "float32", "int64", "int8", "bool", "datetime"]
    for func in ("nancumsum", "ffill", "bfill"):
        for dt in dts:
            pats = pats_nomiss if func == "nancumsum" else pats_all
            for pat in gen.sample(pats, (10 if ctx.quick else 40) if dt == "float64" else (3 if ctx.quick else 10), rng):
                i += 1
                lab = gen.labels_to_array(pat)
                if dt.startswith("float"):
                    alpha = [-2.0, 1.0, 3.0, np.nan, np.nan, 0.0] + ([np.inf, -np.inf] if i % 5 == 0 else [])
                    v = np.array([alpha[rng.integers(len(alpha))] for _ in range(n)], dtype=dt)
                elif dt == "bool":
                    v = rng.integers(0, 2, size=n).astype(bool)
                elif dt == "datetime":
                    v = np.array(["2001-01-01", "NaT", "2001-01-03", "NaT", "2001-01-02", "2001-01-07", "NaT", "2001-01-04"][:n], dtype="M8[ns]")
                    v = v[rng.permutation(n)]
                    if func == "nancumsum":
                        continue
                else:
                    v = rng.integers(-3, 4, size=n).astype(dt)
                chs = [None] + (gen.sample(chunkings, 6, rng) if ctx.quick else chunkings)
                for ch in chs:
                    c = dict(array=enc(v), by=[enc(lab)], func=func)
                    if ch is not None:
                        c["chunks"] = [list(ch)]
                    cases.append(c)
                # a leading batch dimension
                v2 = np.stack([v, v[::-1]])
                c = dict(array=enc(v2), by=[enc(lab)], func=func, chunks=[[1, 1], list(chunkings[i % len(chunkings)])])
                cases.append(c)
    # every element its own group / a single element along the scanned axis (the shortcuts in groupby_scan)
    for func in ("nancumsum", "ffill", "bfill"):
        for m in (1, 2, 3):
            for pat in label_patterns(m, m, with_missing=False):
                for vals in ([np.nan, 2.0, np.nan], [1.0, np.nan, 3.0], [np.nan, np.nan, np.nan]):
                    v = np.array(vals[:m])
                    for ch in [None] + [list(c) for c in compositions(m)]:
                        c = dict(array=enc(v), by=[enc(np.array(pat) * 10 + 5)], func=func)
                        if ch is not None:
                            c["chunks"] = [ch]
                        cases.append(c)
        c = dict(array=enc(np.array([[np.nan], [2.0]])), by=[enc(np.array([5]))], func=func)
        cases.append(c)
    return cases


def run(ctx: Ctx):
    note = ""
    if getattr(ctx, "only", None) != "bounded":
        from ..proofs import c10_proofs

        note = c10_proofs.run(ctx)
    if getattr(ctx, "only", None) != "proof":
        run_bounded(
            ctx, "C10.rtc.groupby_scan", FUNCTION, bounded_cases(ctx), "vlib.props.C10:check",
            bound=f"arrays of length {6 if ctx.quick else 8} (+ a size-2 batch axis); float64/float32/int64/int8/bool/datetime64; NaN runs; <=3 interleaved groups, missing labels for ffill/bfill; eager and {'6 sampled' if ctx.quick else 'all'} chunkings of the scanned axis",
            rule="case = (scan, dtype, label pattern, values, chunking); oracle = per-group np.nancumsum / sequential fill; bfill additionally compared with reversed ffill; non-trivial = chunked with >=2 blocks and >=2 groups",
            nontrivial=lambda c: c.get("chunks") is not None and len(c["chunks"][-1]) >= 2 and len(set(c["by"][0]["data"])) >= 2,
        )
    ctx.assume("dask.array.reductions.cumreduction(method='blelloch') is external (assumed), exercised by the bounded part")
    ctx.trust("numpy_groupies cumsum kernel", "dask cumreduction", "z3 / cvc5")
    return "other", ("Mixed: obligations on the scan operator / shortcuts over the real source; the end-to-end contract of groupby_scan is a bounded stand-in. " + note)


def _case_of(payload):
    if "case" in payload:
        return payload["case"]
    m = payload.get("model")
    return m.get("case") if isinstance(m, dict) else None


def replay(payload):
    if _case_of(payload) is None:
        print("REPLAY: obligation", payload.get("obligation"), "-", payload.get("formula"), "| solver:", str(payload.get("solver_output"))[:500])
        return 1
    payload = {**payload, "case": _case_of(payload)}
    r = check(payload["case"])
    print("REPLAY:", "contract holds" if r is None else r["why"])
    return 0 if r is None else 1
