"""C17 — rechunking helpers keep the data and establish their alignment postconditions."""

from __future__ import annotations

import itertools

import numpy as np

from ..core import Ctx
from ..rtc import gen
from ..rtc.driver import run_bounded
from ..rtc.reduce_case import compositions, enc

FUNCTION = "flox.core.rechunk_for_blockwise / rechunk_for_cohorts / _get_optimal_chunks_for_groups"


def check(case):
    import warnings

    import dask.array as da

    from flox.core import rechunk_for_blockwise, rechunk_for_cohorts

    labels = np.array(case["labels"])
    n = len(labels)
    chunks = tuple(case["chunks"])
    sig = {"api": case["api"], "part": "rechunk"}
    rng = np.random.default_rng(0)
    base = np.arange(2 * n, dtype="float64").reshape(2, n) * 1.5
    arr = da.from_array(base, chunks=((1, 1), chunks))
    try:
        with warnings.catch_warnings():
            warnings.simplefilter("ignore")
            if case["api"] == "blockwise":
                out = rechunk_for_blockwise(arr, 1, labels)
            elif case["api"] == "blockwise-xarray":
                import xarray as xr

                from flox.xarray import rechunk_for_blockwise as xrb

                obj = xr.DataArray(arr, dims=("y", "x"), coords={"lab": ("x", labels)})
                before = obj.copy(deep=True)
                res = xrb(obj, "x", obj["lab"])
                if obj.chunks != before.chunks:
                    return {"case": case, "why": "xarray rechunk_for_blockwise modified its argument's chunks", "sig": sig}
                out = res.data
            else:
                out = rechunk_for_cohorts(arr, 1, labels, force_new_chunk_at=case["force"], chunksize=case.get("chunksize"), ignore_old_chunks=case.get("ignore_old", False))
    except ValueError:
        return None  # documented refusal (e.g. forced label not present)
    except Exception as e:
        sig["exc_type"] = type(e).__name__
        return {"case": case, "why": f"raised {type(e).__name__}: {str(e)[:200]}", "sig": sig}
    new = tuple(int(c) for c in out.chunks[1])
    if out.shape != arr.shape or out.dtype != arr.dtype:
        return {"case": case, "why": f"shape/dtype changed: {out.shape} {out.dtype}", "sig": sig}
    if out.chunks[0] != arr.chunks[0]:
        return {"case": case, "why": f"chunks of an untouched axis changed: {out.chunks[0]}", "sig": sig}
    if any(c <= 0 for c in new) or sum(new) != n:
        return {"case": case, "why": f"new chunks {new} are not positive or do not sum to {n}", "sig": sig}
    if not np.array_equal(np.asarray(out.compute(scheduler="sync")), base):
        return {"case": case, "why": "values changed by rechunking", "sig": sig}
    breaks = set(np.cumsum(new)[:-1].tolist())
    if case["api"].startswith("blockwise"):
        # sequential labels: no group straddles a chunk boundary
        runs_ok = all(labels[b - 1] != labels[b] for b in breaks)
        if case.get("sequential") and not runs_ok:
            return {"case": case, "why": f"labels {labels.tolist()} chunks {chunks} -> {new}: a group straddles a chunk boundary", "sig": sig}
    else:
        force = set(case["force"])
        starts = {0} | breaks
        for i, lab in enumerate(labels.tolist()):
            if lab in force and i not in starts:
                return {"case": case, "why": f"forced label {lab} at position {i} does not start a chunk: {new}", "sig": sig}
        if not case.get("ignore_old", False):
            old = set(np.cumsum(chunks)[:-1].tolist())
            if not old <= breaks:
                return {"case": case, "why": f"old boundaries {sorted(old)} not kept in {sorted(breaks)}", "sig": sig}
    return None


def check_blockwise_use(case):
    """method='blockwise' on 1-D sequential labels relies on the rechunk: result must equal eager."""
    from ..rtc.reduce_case import check_chunked_vs_eager

    return check_chunked_vs_eager(case)


def run_lengths(n):
    return list(compositions(n))


def bounded_cases(ctx: Ctx):
    rng = gen.rng_for(ctx, 17)
    nmax = 6 if ctx.quick else 8
    cases = []
    for n in range(1, nmax + 1):
        for runs in compositions(n):
            labels = np.repeat(np.arange(len(runs)) * 3 + 1, runs)
            for ch in compositions(n):
                cases.append(dict(api="blockwise", labels=labels.tolist(), chunks=list(ch), sequential=True))
    ex = len(cases)
    # xarray flavour on a sample
    for c in gen.sample(cases, 60 if ctx.quick else 300, rng):
        cases.append({**c, "api": "blockwise-xarray"})
    # periodic / irregular patterns for cohorts
    for n in range(2, nmax + 1):
        pats = [tuple((i % p) for i in range(n)) for p in (2, 3, 4)] + [tuple(rng.integers(0, 3, size=n).tolist()) for _ in range(4 if ctx.quick else 12)]
        for pat in pats:
            for ch in (compositions(n) if n <= 5 else gen.sample(list(compositions(n)), 12, rng)):
                for force in ([0], [1], [0, 2], [7]):
                    for chunksize in (None, 1, 2, 3):
                        cases.append(dict(api="cohorts", labels=list(pat), chunks=list(ch), force=force, chunksize=chunksize, ignore_old=bool((len(cases)) % 2)))
    return cases, ex


def use_cases(ctx: Ctx):
    rng = gen.rng_for(ctx, 170)
    n = 6
    cases = []
    i = 0
    for runs in compositions(n):
        labels = np.repeat(np.arange(len(runs)) * 10 + 5, runs)
        for ch in gen.sample(list(compositions(n)), 6 if ctx.quick else 32, rng):
            i += 1
            func = ["sum", "nanmax", "median", "first", "nanmean", "argmax", "nanquantile"][i % 7]
            v = np.array([[1.0, 3.0, 2.0, -1.0, 0.0][rng.integers(5)] for _ in range(n)])
            c = dict(array=enc(v), by=[enc(labels)], func=func, chunks=[list(ch)], method="blockwise")
            if func == "nanquantile":
                c["finalize_kwargs"] = {"q": 0.3}
            cases.append(c)
    return cases


def run(ctx: Ctx):
    note = ""
    if getattr(ctx, "only", None) != "bounded":
        from ..proofs import c17_proofs

        note = c17_proofs.run(ctx)
    if getattr(ctx, "only", None) != "proof":
        cases, ex = bounded_cases(ctx)
        run_bounded(
            ctx, "C17.rtc.rechunk_helpers", FUNCTION, cases, "vlib.props.C17:check",
            bound=f"EXHAUSTIVE for rechunk_for_blockwise: all run-length sequences x all chunkings for n <= {6 if ctx.quick else 8} ({ex} cases) + xarray flavour on a sample; rechunk_for_cohorts: periodic (period 2,3,4) and random patterns x chunkings x forced-label sets x chunksize hints {{None,1,2,3}} x ignore_old_chunks",
            rule="postcondition: same shape/dtype/values, other axis untouched, chunks positive and summing to n; blockwise: no run straddles a boundary; cohorts: every forced label starts a chunk, old boundaries kept unless ignored; refusals are ValueError; non-trivial = >=2 chunks or >=2 runs",
            nontrivial=lambda c: len(c["chunks"]) >= 2 or len(set(c["labels"])) >= 2, chunksize=32,
        )
        run_bounded(
            ctx, "C17.rtc.blockwise_use", "flox.core.groupby_reduce(method='blockwise')", use_cases(ctx), "vlib.props.C17:check_blockwise_use",
            bound="all run-length label sequences of length 6 x sampled chunkings, method='blockwise' (automatic rechunk), 7 reductions incl. order statistics",
            rule="postcondition: chunked (after the automatic rechunk) == eager", nontrivial=lambda c: len(c["chunks"][0]) >= 2,
        )
    ctx.assume("dask.array.rechunk preserves values (assumed; checked by computing)")
    ctx.trust("dask.array.rechunk", "numpy_groupies first/last (inside _get_optimal_chunks_for_groups)", "z3 / cvc5")
    return "other", ("Mixed: loop-invariant obligations on the real chunk-planning loops; the helpers' end-to-end postconditions are bounded (exhaustive up to the stated size). " + note)


def _case_of(payload):
    if "case" in payload:
        return payload["case"]
    m = payload.get("model")
    return m.get("case") if isinstance(m, dict) else None


def replay(payload):
    if _case_of(payload) is None:
        print("REPLAY: obligation", payload.get("obligation"), "-", payload.get("formula"), "| solver:", str(payload.get("solver_output"))[:500])
        return 1
    payload = {**payload, "case": _case_of(payload)}
    case = payload["case"]
    r = check(case) if "api" in case else check_blockwise_use(case)
    print("REPLAY:", "contract holds" if r is None else r["why"])
    return 0 if r is None else 1
