"""C16 — group order follows the sort contract; the label-to-value mapping never changes."""

from __future__ import annotations

import numpy as np

from ..core import Ctx
from ..rtc import gen
from ..rtc.driver import run_bounded
from ..rtc.reduce_case import blockwise_precondition, compositions, enc, label_patterns

FUNCTION = "flox.core.groupby_reduce (sort contract)"


def check(case):
    from ..rtc.reduce_case import ALLOWED_EXC, EXACT_FUNCS, _isnull_scalar, _num_equal, check_case, run_case, signature

    r = check_case(case, refusal_ok=True)
    if r is not None:
        return r
    got = run_case(case)
    if not got["ok"]:
        return None
    sig = signature(case)
    g = np.asarray(got["groups"][0]).tolist()
    if len(set(map(repr, g))) != len(g):
        return {"case": case, "why": f"returned labels contain duplicates: {g}", "sig": sig}
    sort = case.get("sort", True)
    if sort is None or sort:
        gs = [x for x in g if not _isnull_scalar(x)]
        if any(not (a < b) for a, b in zip(gs, gs[1:])):
            return {"case": case, "why": f"sort=True but returned labels are not strictly ascending: {g}", "sig": sig}
    # pairing identical to the sorted run
    sc = dict(case)
    sc["sort"] = True
    ref = run_case(sc)
    if not ref["ok"]:
        return None
    rg = np.asarray(ref["groups"][0]).tolist()
    if sorted(map(repr, rg)) != sorted(map(repr, g)):
        return {"case": case, "why": f"label set {g} differs from the sorted run's {rg}", "sig": sig}
    rv = np.asarray(ref["result"])
    gv = np.asarray(got["result"])
    exact = case["func"] in EXACT_FUNCS
    for i, lab in enumerate(g):
        j = [repr(x) for x in rg].index(repr(lab))
        for idx in np.ndindex(*gv[..., i].shape):
            if not _num_equal(gv[..., i][idx], rv[..., j][idx], exact):
                return {"case": case, "why": f"label {lab!r}: value {gv[..., i].tolist()} != value in the sorted run {rv[..., j].tolist()}", "sig": sig}
    return None


def bounded_cases(ctx: Ctx):
    rng = gen.rng_for(ctx, 16)
    n = 4 if ctx.quick else 6
    pats = [p for p in label_patterns(n, 3, with_missing=True) if any(x >= 0 for x in p)]
    chunkings = list(compositions(n))
    cases = []
    i = 0
    funcs = ["sum", "nansum", "count", "nanmax", "min", "nanmean", "nanfirst", "argmax", "nanvar", "prod"]
    kinds = ["int", "float", "str"]
    for func in funcs:
        for pat in gen.sample(pats, 14 if ctx.quick else 60, rng):
            for kind in kinds:
                p = np.array(pat)
                names = {"int": [30, 10, 20], "float": [2.5, -1.0, 0.5], "str": ["b", "c", "a"]}[kind]
                if kind == "int" and (p < 0).any():
                    continue
                if kind == "str":
                    if (p < 0).any():
                        continue
                    lab = np.array([names[x] for x in pat])
                elif kind == "float":
                    lab = np.array([np.nan if x < 0 else names[x] for x in pat])
                else:
                    lab = np.array([names[x] for x in pat])
                present = [x for x in dict.fromkeys(lab.tolist()) if x == x]
                v = gen.values_for(func, n, rng, 8, "float64")[int(rng.integers(8))]
                for sort in (True, False):
                    for egkind in ("absent", "sorted", "unsorted"):
                        i += 1
                        c = dict(array=enc(v), by=[enc(lab)], func=func, sort=sort, engine=[None, "numpy", "flox"][i % 3])
                        if egkind != "absent":
                            extra = {"int": 40, "float": 9.5, "str": "zz"}[kind]
                            eg = sorted(present) + [extra]
                            if egkind == "unsorted":
                                eg = eg[::-1] if len(eg) > 1 else eg
                                if len(eg) > 2:
                                    eg = [eg[1], eg[0]] + eg[2:]
                            c["expected_groups"] = [eg]
                            c["fill_value"] = -1 if func == "argmax" else (0 if func == "count" else "nan")
                        if i % 2:
                            ch = list(chunkings[i % len(chunkings)])
                            c["chunks"] = [ch]
                            c["method"] = [None, "map-reduce", "cohorts", "blockwise"][i % 4]
                            if c["method"] == "blockwise" and not blockwise_precondition(c):
                                c["method"] = None
                            if kind == "str" and egkind == "absent":
                                pass
                        cases.append(c)
    return cases


def run(ctx: Ctx):
    note = ""
    if getattr(ctx, "only", None) != "bounded":
        from ..proofs import c16_proofs

        note = c16_proofs.run(ctx)
    if getattr(ctx, "only", None) != "proof":
        run_bounded(
            ctx, "C16.rtc.sort_contract", FUNCTION, bounded_cases(ctx), "vlib.props.C16:check",
            bound=f"length-{4 if ctx.quick else 6} label arrays of int / float-with-NaN / str dtype (label order != first-appearance order), sort True/False, expected_groups absent/sorted/unsorted (with an absent label), eager and all strategies and chunkings; 10 reductions",
            rule="postcondition: labels strictly ascending and duplicate-free (sort), requested order / first appearance (no sort), one slot per label, and the label->value pairing identical to the sorted run; non-trivial = >=2 labels",
            nontrivial=lambda c: len(set(map(str, c["by"][0]["data"]))) >= 2,
        )
    ctx.assume("pandas.factorize(sort=...) order and pandas.Index.sort_values are external (assumed)")
    ctx.trust("pandas.factorize", "numpy.argsort", "z3 / cvc5")
    return "other", ("Mixed: sort / permutation obligations on the real source; the end-to-end sort contract is a bounded stand-in. " + note)


def _case_of(payload):
    if "case" in payload:
        return payload["case"]
    m = payload.get("model")
    return m.get("case") if isinstance(m, dict) else None


def replay(payload):
    if _case_of(payload) is None:
        print("REPLAY: obligation", payload.get("obligation"), "-", payload.get("formula"), "| solver:", str(payload.get("solver_output"))[:500])
        return 1
    payload = {**payload, "case": _case_of(payload)}
    r = check(payload["case"])
    print("REPLAY:", "contract holds" if r is None else r["why"])
    return 0 if r is None else 1
