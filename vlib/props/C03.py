"""C03 — result independent of reduction-tree shape, task order and scheduler."""

from __future__ import annotations

import numpy as np

from ..core import Ctx
from ..rtc import gen
from ..rtc.driver import run_bounded
from ..rtc.reduce_case import enc, label_patterns

FUNCTION = "flox.core.groupby_reduce / flox.core.groupby_scan (graphs)"


def check(case):
    import warnings

    import dask

    from ..rtc import graphs
    from ..rtc.reduce_case import ALLOWED_EXC, ARG_FUNCS, EXACT_FUNCS, arrays_equal, eager_variant, oracle, run_case, signature
    from ..rtc.scan_case import run_scan, scan_sig

    is_scan = case["func"] in ("nancumsum", "ffill", "bfill")
    sig = scan_sig(case) if is_scan else signature(case)
    rng = np.random.default_rng(case.get("order_seed", 0))
    nblocks = len(case["chunks"][-1])
    if is_scan:
        ec = dict(case)
        ec.pop("chunks")
        e = run_scan(ec)
    else:
        ec = eager_variant(case)
        e = run_case(ec)
    if not e["ok"]:
        return None if e["exc_type"] in ALLOWED_EXC else {"case": case, "why": f"eager raised {e['exc_type']}: {e['exc_msg']}", "sig": sig}
    ref = np.asarray(e["result"])
    exact = case["func"] in EXACT_FUNCS or ref.dtype.kind in "iub"
    skip = None
    if case["func"] in ARG_FUNCS:
        skip = oracle(ec)["dontcare"]
    split_list = [None] if is_scan else list(range(2, max(3, nblocks + 1)))
    for se in split_list:
        c = dict(case)
        if se:
            c["split_every"] = se
        with warnings.catch_warnings():
            warnings.simplefilter("ignore")
            d = run_scan(c, compute=False) if is_scan else run_case(c, compute=False)
        if not d["ok"]:
            if d["exc_type"] in ALLOWED_EXC:
                return None
            return {"case": c, "why": f"graph construction raised {d['exc_type']}: {d['exc_msg']}", "sig": sig}
        lazy = d["lazy_obj"]
        outs = {}
        try:
            with warnings.catch_warnings():
                warnings.simplefilter("ignore")
                with dask.config.set(split_every=se) if se else dask.config.set():
                    outs["sync"] = np.asarray(lazy.compute(scheduler="sync"))
                    outs["threads"] = np.asarray(lazy.compute(scheduler="threads", num_workers=4))
                    g, keys = graphs.materialize(lazy)
                    for order in ("fifo", "lifo", "random"):
                        vals = graphs.execute(g, keys, order=order, rng=rng)
                        outs[order] = np.asarray(graphs.assemble(lazy, vals))
                    g2, keys2 = graphs.materialize(lazy, optimize=True)
                    outs["optimized-random"] = np.asarray(graphs.assemble(lazy, graphs.execute(g2, keys2, order="random", rng=rng)))
        except Exception as ex:
            sig["exc_type"] = type(ex).__name__
            if type(ex).__name__ in ALLOWED_EXC and False:
                return None
            return {"case": c, "why": f"compute raised {type(ex).__name__}: {str(ex)[:200]}", "sig": sig}
        for how, val in outs.items():
            w = arrays_equal(val, ref, exact, skip=skip)
            if w:
                return {"case": c, "why": f"split_every={se} order/scheduler={how}: {w} (eager={ref.tolist()} got={val.tolist()})", "sig": sig}
    return None


def bounded_cases(ctx: Ctx):
    rng = gen.rng_for(ctx, 3)
    n = 6 if ctx.quick else 8
    pats = [p for p in label_patterns(n, 3, with_missing=True) if len({x for x in p if x >= 0}) >= 2]
    cases = []
    i = 0
    funcs = gen.CHUNKABLE + ["nancumsum", "ffill", "bfill"]
    for func in funcs:
        for pat in gen.sample(pats, 4 if ctx.quick else 16, rng):
            i += 1
            lab = gen.labels_to_array(pat)
            dt = "bool" if func in ("any", "all") else "float64"
            v = gen.values_for(func, n, rng, 8, dt)[i % (8 if dt == "float64" else 2)]
            chunking = [1] * n if i % 2 else [2] * (n // 2)
            c = dict(array=enc(v), by=[enc(lab)], func=func, chunks=[chunking], order_seed=ctx.seed * 7919 + i)
            if func in ("nancumsum", "ffill", "bfill"):
                if func == "nancumsum":
                    # +-inf under nancumsum is known finding F17 (numpy_groupies' cumsum), decided in C10
                    v = np.where(np.isinf(v), 7.0, v)
                    c["array"] = enc(v)
                if func == "nancumsum" and (lab != lab).any():
                    lab = np.where(lab != lab, 5.0, lab)
                    c["by"] = [enc(lab)]
            else:
                c["method"] = ["map-reduce", "cohorts", None][i % 3]
                c["engine"] = [None, "numpy", "flox"][i % 3]
            cases.append(c)
    return cases


def run(ctx: Ctx):
    note = ""
    if getattr(ctx, "only", None) != "bounded":
        from ..proofs import c03_proofs

        note = c03_proofs.run(ctx)
    if getattr(ctx, "only", None) != "proof":
        run_bounded(
            ctx, "C03.rtc.orders_and_trees", FUNCTION, bounded_cases(ctx), "vlib.props.C03:check",
            bound=f"1-D arrays of length {6 if ctx.quick else 8} cut into size-1 or size-2 chunks; split_every from 2 to #blocks; schedulers sync, threads(4); in-check evaluator in fifo, lifo and seeded-random topological orders on the raw and on the optimized graph; 23 reductions + 3 scans",
            rule="case = (reduction/scan, label pattern, values, chunking, method); every case is evaluated under all split_every values and 6 orders; non-trivial = >=3 blocks",
            nontrivial=lambda c: len(c["chunks"][0]) >= 3, chunksize=2,
        )
    if getattr(ctx, "only", None) != "proof":
        from ..rtc.tree_case import tree_cases

        run_bounded(
            ctx, "C03.rtc.tree_builder", "flox.dask_array_ops._tree_reduce / partial_reduce / get_parts", tree_cases(24 if ctx.quick else 64, 8 if ctx.quick else 12), "vlib.rtc.tree_case:check_tree",
            bound="EXHAUSTIVE over #blocks 1..%d x split_every 2..%d and the config default x 1-2 batch blocks x two block_index values" % ((24, 8) if ctx.quick else (64, 12)),
            rule="postcondition on the graph dict: one root per batch index at (.., block_index); the leaves under each root are exactly its batch's blocks 0..n-1, once each, in increasing order; every task combines 1..split_every consecutive blocks of its own batch index; intermediate keys used exactly once; non-trivial = depth >= 2",
            nontrivial=lambda c: c["nblocks"] > (c["split_every"] or 4), exhaustive=True, chunksize=16,
        )
    ctx.assume("dask execution model: a task runs on the values of its dependency keys; interleavings of the threaded scheduler are sampled, not explored (schedule exploration is a different family)")
    ctx.na_subclaims.append("exploration of all interleavings of the multi-threaded scheduler: not decidable by per-function contracts; covered only through the purity obligations of C13")
    ctx.trust("dask schedulers", "dask.array.reductions._tree_reduce", "dask cumreduction(method='blelloch')", "z3 / cvc5")
    return "other", ("Mixed: the scan operator's obligations are proved on the real source; the tree builder's contract is bounded (exhaustive up to the stated size), and order/scheduler independence of whole graphs is a bounded stand-in. " + note)


def _case_of(payload):
    if "case" in payload:
        return payload["case"]
    m = payload.get("model")
    return m.get("case") if isinstance(m, dict) else None


def replay(payload):
    if _case_of(payload) is None:
        print("REPLAY: obligation", payload.get("obligation"), "-", payload.get("formula"), "| solver:", str(payload.get("solver_output"))[:500])
        return 1
    payload = {**payload, "case": _case_of(payload)}
    r = check(payload["case"])
    print("REPLAY:", "contract holds" if r is None else r["why"])
    return 0 if r is None else 1
