"""C12 — graph construction is lazy; labels found at compute time give the same mapping."""

from __future__ import annotations

import numpy as np

from ..core import Ctx
from ..rtc import gen
from ..rtc.driver import run_bounded
from ..rtc.reduce_case import blockwise_precondition, compositions, enc, label_patterns

FUNCTION = "flox.core.groupby_reduce / groupby_scan / flox.xarray.xarray_reduce (graph construction)"

COUNTER = {"n": 0}


def _tick(block):
    if getattr(block, "size", 1):  # dask's meta inference calls the function on zero-size arrays
        COUNTER["n"] += 1
    return block


def _lazy_input(np_arr, chunks):
    import dask.array as da

    return da.from_array(np_arr, chunks=chunks).map_blocks(_tick, dtype=np_arr.dtype)


def check(case):
    """Contract: building the graph evaluates no chunk (value or label) and returns a lazy object;
    computing it gives the same label->value mapping as the eager call."""
    import warnings

    import dask

    from ..rtc.reduce_case import ALLOWED_EXC, ARG_FUNCS, EXACT_FUNCS, _num_equal, build_call, dec, eager_variant, oracle, run_case, signature

    sig = signature(case)
    sig["api"] = case.get("api", "reduce")
    arr = dec(case["array"])
    by = dec(case["by"][0])
    chunks = tuple(tuple(c) for c in case["chunks"])
    COUNTER["n"] = 0
    larr = _lazy_input(arr, chunks)
    lby = _lazy_input(by, tuple(tuple(c) for c in case["by_chunks"][0])) if case.get("by_chunks") else by
    api = case.get("api", "reduce")
    try:
        with warnings.catch_warnings():
            warnings.simplefilter("ignore")
            if api == "reduce":
                from flox.core import groupby_reduce

                _, _, kw = build_call({**case, "chunks": None, "by_chunks": None})
                res, *groups = groupby_reduce(larr, lby, **kw)
                lazy_ok = hasattr(res, "dask")
            elif api == "scan":
                from flox.core import groupby_scan

                res = groupby_scan(larr, lby, func=case["func"])
                groups = []
                lazy_ok = hasattr(res, "dask")
            else:
                import xarray as xr

                from flox.xarray import xarray_reduce

                da_ = xr.DataArray(larr, dims=("x",), name="v")
                lab = xr.DataArray(lby, dims=("x",), name="lab")
                kw = {}
                if case.get("expected_groups") is not None:
                    kw["expected_groups"] = np.array(case["expected_groups"][0])
                if case.get("method"):
                    kw["method"] = case["method"]
                out = xarray_reduce(da_, lab, func=case["func"], **kw)
                res = out.data
                groups = []
                lazy_ok = hasattr(res, "dask")
    except Exception as e:
        sig["exc_type"] = type(e).__name__
        if type(e).__name__ in ALLOWED_EXC:
            return None
        return {"case": case, "why": f"raised {type(e).__name__}: {str(e)[:200]}", "sig": sig}
    if COUNTER["n"] != 0:
        return {"case": case, "why": f"graph construction evaluated {COUNTER['n']} chunk(s) of the inputs", "sig": sig}
    if not lazy_ok:
        return {"case": case, "why": f"result is not lazy: {type(res).__name__}", "sig": sig}
    if api != "reduce":
        return None
    # second sentence: same mapping as eager
    try:
        with warnings.catch_warnings():
            warnings.simplefilter("ignore")
            got = dask.compute(res, *groups, scheduler="sync")
    except Exception as e:
        sig["exc_type"] = type(e).__name__
        if type(e).__name__ in ALLOWED_EXC:
            return None  # refused at compute time with an allowed exception type (C19 decides legitimacy)
        return {"case": case, "why": f"compute raised {type(e).__name__}: {str(e)[:200]}", "sig": sig}
    e = run_case(eager_variant(case))
    if not e["ok"]:
        return None
    ev = np.asarray(e["result"])
    eg = np.asarray(e["groups"][0])
    gv = np.asarray(got[0])
    gg = np.asarray(got[1])
    exact = case["func"] in EXACT_FUNCS
    skip = oracle(eager_variant(case))["dontcare"] if case["func"] in ARG_FUNCS else None
    emap = {(None if (isinstance(k, float) and k != k) else k): i for i, k in enumerate(eg.tolist())}
    gmap = {(None if (isinstance(k, float) and k != k) else k): i for i, k in enumerate(gg.tolist())}
    if gg.dtype.kind != eg.dtype.kind:
        return {"case": case, "why": f"labels found at compute time have dtype {gg.dtype}, the eager call returns {eg.dtype} (not the same labels)", "sig": sig}
    if set(emap) != set(gmap):
        return {"case": case, "why": f"labels at compute time {sorted(map(str, gmap))} != eager labels {sorted(map(str, emap))}", "sig": sig}
    for k, i in emap.items():
        if skip is not None and skip[..., i].all():
            continue
        a = gv[..., gmap[k]]
        b = ev[..., i]
        for idx in np.ndindex(*np.shape(b)):
            if not _num_equal(np.asarray(a)[idx], np.asarray(b)[idx], exact):
                return {"case": case, "why": f"label {k}: lazy {np.asarray(a).tolist()} != eager {np.asarray(b).tolist()}", "sig": sig}
    return None


def bounded_cases(ctx: Ctx):
    rng = gen.rng_for(ctx, 12)
    n = 6
    pats = [p for p in label_patterns(n, 3, with_missing=True) if any(x >= 0 for x in p)]
    chunkings = list(compositions(n))
    cases = []
    i = 0
    for func in gen.REDUCTIONS + gen.ORDER_STATS:
        for pat in gen.sample(pats, 6 if ctx.quick else 20, rng):
            for rep in range(2):
                i += 1
                lab = gen.labels_to_array(pat)
                dt = "bool" if func in ("any", "all") else "float64"
                v = gen.values_for(func if func not in gen.ORDER_STATS else "sum", n, rng, 8, dt)[i % (8 if dt == "float64" else 2)]
                if func in gen.ORDER_STATS:
                    v = np.where(np.isinf(v), 2.0, v)
                ch = [list(chunkings[int(rng.integers(len(chunkings)))])]
                by_dask = rep == 1
                present = sorted({x for x in lab.tolist() if x == x})
                c = dict(array=enc(v), by=[enc(lab)], func=func, chunks=ch, method=[None, "map-reduce", "cohorts", "blockwise"][i % 4],
                         reindex=[None, True, False][(i // 4) % 3], engine=[None, "numpy", "flox", "numbagg"][(i // 2) % 4])
                if by_dask:
                    c["by_chunks"] = [ch]
                    if c["method"] == "cohorts":
                        c["method"] = None
                    if i % 3 != 0:
                        c["expected_groups"] = [present]
                elif i % 2:
                    c["expected_groups"] = [present + [max(present) + 10]]
                    c["fill_value"] = -1 if func in ("argmax", "argmin", "nanargmax", "nanargmin") else (False if func in ("any", "all") else "nan")
                if c["method"] == "blockwise" and not blockwise_precondition(c):
                    c["method"] = None
                if func in ("quantile", "nanquantile"):
                    c["finalize_kwargs"] = {"q": [0.5, [0.25, 0.75]][i % 2]}
                cases.append(c)
    # none of the requested labels is present: the all-fill result of a chunked input must still be lazy
    for func in ("sum", "nanmax", "count", "nanmean", "argmax", "median"):
        for method in (None, "blockwise", "map-reduce", "cohorts"):
            for ch in ([[6]], [[2, 2, 2]], [[3, 3]]):
                i += 1
                lab = np.array([5, 5, 15, 15, 25, 25])
                v = np.array([1.0, 3.0, 2.0, -1.0, 0.5, 4.0])
                c = dict(array=enc(v), by=[enc(lab)], func=func, chunks=ch, method=method, expected_groups=[[105, 115]],
                         fill_value=-1 if func == "argmax" else (0 if func == "count" else "nan"))
                if method == "blockwise" and not blockwise_precondition(c):
                    continue
                if func == "median" and method in ("map-reduce", "cohorts"):
                    continue
                cases.append(c)
    # labels of other kinds (datetime64, timedelta64, strings are refused lazily) discovered at compute time
    for func in ("sum", "nanmax", "count", "nanmean", "first"):
        for pat in gen.sample([p for p in pats if all(x >= 0 for x in p)], 3 if ctx.quick else 10, rng):
            for kind in ("datetime64[ns]", "datetime64[D]", "timedelta64[ns]"):
                i += 1
                p_ = np.array(pat)
                lab = (np.datetime64("2001-01-01") + p_.astype("timedelta64[D]")).astype(kind) if kind.startswith("datetime") else (p_ * 3600).astype("timedelta64[s]").astype(kind)
                v = np.array([[1.0, 3.0, 2.0, -1.0][rng.integers(4)] for _ in range(n)])
                ch = [list(chunkings[int(rng.integers(len(chunkings)))])]
                c = dict(array=enc(v), by=[enc(lab)], func=func, chunks=ch, by_chunks=[ch], method=[None, "map-reduce"][i % 2], reindex=[None, False][(i // 2) % 2])
                cases.append(c)
    # 2-D labels reduced over both axes, discovered at compute time (nested block lists in the combine step)
    for func in ("sum", "nanmax", "count", "nanmean"):
        for kind in ("int64", "float64", "datetime64[ns]", "timedelta64[ns]"):
            for ch2 in ([[1, 1], [2, 1]], [[2], [1, 1, 1]], [[1, 1], [1, 1, 1]], [[2], [3]]):
                i += 1
                if ctx.quick and i % 2:
                    continue
                codes = np.array([[0, 1, 0], [2, 2, 1]]) if i % 3 else np.array([[1, 1, 0], [0, 2, 0]])
                if kind == "int64":
                    lab = codes * 10 + 5
                elif kind == "float64":
                    lab = (codes * 10 + 5).astype(float)
                    lab[0, 1] = np.nan
                elif kind.startswith("datetime"):
                    lab = (np.datetime64("2001-01-01") + codes.astype("timedelta64[D]")).astype(kind)
                else:
                    lab = (codes * 3600).astype("timedelta64[s]").astype(kind)
                v = np.array([[1.0, 3.0, 2.0], [-1.0, 0.5, 4.0]])
                cases.append(dict(array=enc(v), by=[enc(lab)], func=func, chunks=ch2, by_chunks=[ch2], method=[None, "map-reduce"][i % 2]))
    for func in ("nancumsum", "ffill", "bfill"):
        for pat in gen.sample([p for p in pats if all(x >= 0 for x in p)], 6 if ctx.quick else 20, rng):
            for by_dask in (False, True):
                lab = gen.labels_to_array(pat)
                v = np.array([[1.0, np.nan, 2.0, -1.0][rng.integers(4)] for _ in range(n)])
                ch = [list(chunkings[int(rng.integers(len(chunkings)))])]
                c = dict(array=enc(v), by=[enc(lab)], func=func, chunks=ch, api="scan")
                if by_dask:
                    c["by_chunks"] = [ch]
                cases.append(c)
    for func in ("sum", "nanmean", "count", "nanmax", "argmax", "nanfirst", "var", "median"):
        for pat in gen.sample(pats, 4 if ctx.quick else 12, rng):
            for by_dask in (False, True):
                lab = gen.labels_to_array(pat)
                v = np.array([[1.0, 3.0, 2.0, -1.0][rng.integers(4)] for _ in range(n)])
                ch = [list(chunkings[int(rng.integers(len(chunkings)))])]
                present = sorted({x for x in lab.tolist() if x == x})
                c = dict(array=enc(v), by=[enc(lab)], func=func, chunks=ch, api="xarray", expected_groups=[present])
                if by_dask:
                    c["by_chunks"] = [ch]
                cases.append(c)
    return cases


def run(ctx: Ctx):
    note = ""
    if getattr(ctx, "only", None) != "bounded":
        from ..proofs import c12_proofs

        note = c12_proofs.run(ctx)
    if getattr(ctx, "only", None) != "proof":
        run_bounded(
            ctx, "C12.rtc.lazy_construction", FUNCTION, bounded_cases(ctx), "vlib.props.C12:check",
            bound="length-6 inputs whose every block passes through a counting task; 29 reductions x methods x reindex x engines, numpy and dask labels with and without expected_groups; 3 scans; 8 reductions through xarray_reduce",
            rule="postcondition: chunk evaluations during the API call == 0, the result is a dask collection, and (reductions) the computed label->value mapping equals the eager one; non-trivial = dask labels or >=2 blocks",
            nontrivial=lambda c: c.get("by_chunks") is not None or len(c["chunks"][0]) >= 2,
        )
    ctx.assume("a forcing use of a dask value is observable as the execution of one of its tasks (counting task inserted on every input block)")
    ctx.trust("dask.array lazy API (blockwise, map_blocks, unify_chunks, rechunk, indexing)", "xarray.apply_ufunc", "z3 / cvc5")
    return "other", ("Mixed: laziness use-site obligations (configuration-level execution of the real groupby_reduce) on the real source; evaluation counting on enumerated calls is a bounded stand-in. " + note)


def _case_of(payload):
    if "case" in payload:
        return payload["case"]
    m = payload.get("model")
    return m.get("case") if isinstance(m, dict) else None


def replay(payload):
    if _case_of(payload) is None:
        print("REPLAY: obligation", payload.get("obligation"), "-", payload.get("formula"), "| solver:", str(payload.get("solver_output"))[:500])
        return 1
    payload = {**payload, "case": _case_of(payload)}
    r = check(payload["case"])
    print("REPLAY:", "contract holds" if r is None else r["why"])
    return 0 if r is None else 1
