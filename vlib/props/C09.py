"""C09 — cohort planner sound: labels partitioned, blocks covered, members counted once."""

from __future__ import annotations

import itertools

import numpy as np

from ..core import Ctx
from ..rtc import gen
from ..rtc.driver import run_bounded
from ..rtc.reduce_case import compositions, enc, label_patterns

FUNCTION = "flox.core.find_group_cohorts"


def check_planner(case):
    """Run-time contract of find_group_cohorts."""
    import math

    import pandas as pd

    from flox.core import find_group_cohorts

    labels = np.array(case["labels"], dtype=np.int64).reshape(case["shape"])
    chunks = tuple(tuple(c) for c in case["chunks"])
    merge = case["merge"]
    eg = pd.RangeIndex(case["nexpected"]) if case.get("nexpected") else None
    sig = {"merge": merge, "ndim": labels.ndim, "has_expected": eg is not None, "part": "planner"}
    if eg is None and (labels < 0).all():
        return None  # outside the documented input contract: no label at all and no expected_groups
    try:
        method, cohorts = find_group_cohorts(labels, chunks, expected_groups=eg, merge=merge)
    except Exception as e:
        sig["exc_type"] = type(e).__name__
        return {"case": case, "why": f"find_group_cohorts raised {type(e).__name__}: {str(e)[:200]}", "sig": sig}
    # specification, computed independently
    nblocks = [len(c) for c in chunks]
    bounds = [np.cumsum([0] + list(c)) for c in chunks]
    full = np.broadcast_to(labels, tuple(sum(c) for c in chunks)[-labels.ndim :]) if labels.ndim <= len(chunks) else labels
    blocks_of = {}
    for bidx in itertools.product(*[range(k) for k in nblocks]):
        sl = tuple(slice(bounds[d][b], bounds[d][b + 1]) for d, b in enumerate(bidx))
        flat = int(np.ravel_multi_index(bidx, nblocks))
        for lab in np.unique(full[sl]).tolist():
            if lab >= 0:
                blocks_of.setdefault(lab, set()).add(flat)
    present = set(blocks_of)
    nchunks = math.prod(nblocks)
    if method not in ("blockwise", "cohorts", "map-reduce"):
        return {"case": case, "why": f"unknown method {method!r}", "sig": sig}
    if method == "blockwise" and any(len(b) > 1 for b in blocks_of.values()):
        return {"case": case, "why": f"'blockwise' proposed although a label spans several blocks: {blocks_of}", "sig": sig}
    cohorts = dict(cohorts)
    if nchunks == 1:
        # single block: every label (requested or present) in the one cohort
        allv = [v for vs in cohorts.values() for v in vs]
        if not present <= set(allv):
            return {"case": case, "why": f"single block: labels {present - set(allv)} in no cohort", "sig": sig}
        return None
    if not cohorts:
        if method == "cohorts" or (merge and present):
            return {"case": case, "why": f"empty cohorts returned with method={method} merge={merge} although labels {sorted(present)} are present", "sig": sig}
        return None
    seen = []
    for key, labs in cohorts.items():
        key = tuple(int(k) for k in key)
        labs = [int(x) for x in labs]
        seen.extend(labs)
        need = set()
        for lab in labs:
            need |= blocks_of.get(lab, set())
        if not need <= set(key):
            return {"case": case, "why": f"cohort {labs} has blocks {sorted(key)} but its labels occur in {sorted(need)}", "sig": sig}
        if any(k < 0 or k >= nchunks for k in key):
            return {"case": case, "why": f"cohort key {key} names a block outside 0..{nchunks - 1}", "sig": sig}
    if sorted(seen) != sorted(set(seen)):
        return {"case": case, "why": f"a label is in two cohorts: {sorted(seen)}", "sig": sig}
    if set(seen) != present:
        return {"case": case, "why": f"cohort labels {sorted(set(seen))} != labels present {sorted(present)}", "sig": sig}
    return None


def check_closure(case):
    """Contract on the unexecuted graph: the dependency closure of every output chunk contains every input block
    (of the same batch index) holding one of its labels, none of another batch index; provenance data (2**i) shows
    every member counted exactly once."""
    import dask

    from ..rtc import graphs
    from ..rtc.reduce_case import ALLOWED_EXC, dec, run_case, signature

    sig = signature(case)
    sig["part"] = "closure"
    c = dict(case)
    c["array_name"] = "verif-input"
    d = run_case(c, compute=False)
    if not d["ok"]:
        sig["exc_type"] = d["exc_type"]
        return None if d["exc_type"] in ALLOWED_EXC else {"case": case, "why": f"raised {d['exc_type']}: {d['exc_msg']}", "sig": sig}
    lazy = d["lazy_obj"]
    groups = np.asarray(d["lazy_groups"][0])
    arr = dec(case["array"])
    by = dec(case["by"][0])
    nb = arr.ndim - by.ndim  # batch dims
    g, keys = graphs.materialize(lazy)
    chunks = [list(ch) for ch in case["chunks"]]
    bounds = [np.cumsum([0] + ch) for ch in chunks]
    inblocks = {}
    for bidx in itertools.product(*[range(len(ch)) for ch in chunks]):
        sl = tuple(slice(bounds[dd][b], bounds[dd][b + 1]) for dd, b in enumerate(bidx))
        labs = set(np.broadcast_to(by, arr.shape[nb:])[sl[nb:]].ravel().tolist())
        inblocks[("verif-input",) + bidx] = labs
    out_chunks = lazy.chunks
    goff = np.cumsum([0] + [int(x) for x in out_chunks[-1]])
    for key in keys:
        idx = key[1:]
        batch = idx[:nb]
        j = idx[-1]
        mylabels = set(groups[goff[j] : goff[j + 1]].tolist())
        clo = graphs.closure(g, key)
        used = {k for k in clo if isinstance(k, tuple) and k and k[0] == "verif-input"}
        for ik, labs in inblocks.items():
            same_batch = tuple(ik[1 : 1 + nb]) == tuple(batch)
            if same_batch and (labs & mylabels) and ik not in used:
                return {"case": case, "why": f"output chunk {key[1:]} (labels {sorted(mylabels)}) does not depend on input block {ik[1:]} holding {sorted(labs & mylabels)}", "sig": sig}
        for ik in used:
            # batch axes that are chunked one-to-one must not mix
            if any(len(chunks[dd]) == len(out_chunks[dd]) and ik[1 + dd] != batch[dd] for dd in range(nb)):
                return {"case": case, "why": f"output chunk {key[1:]} depends on input block {ik[1:]} of another batch slice", "sig": sig}
    # provenance: every member exactly once
    res = np.asarray(lazy.compute(scheduler="sync"))
    flatby = np.broadcast_to(by, arr.shape[nb:]).reshape(-1)
    A = arr.reshape(arr.shape[:nb] + (-1,))
    for gi, lab in enumerate(groups.tolist()):
        want = A[..., flatby == lab].sum(axis=-1)
        if not np.array_equal(np.asarray(res[..., gi], dtype="float64"), want.astype("float64")):
            return {"case": case, "why": f"provenance sum for label {lab}: got {res[..., gi].tolist()} want {want.tolist()} (a member dropped or double-counted)", "sig": sig}
    return None


def planner_cases(ctx: Ctx):
    rng = gen.rng_for(ctx, 9)
    nmax = 5 if ctx.quick else 7
    cases = []
    for n in range(2, nmax + 1):
        pats = list(label_patterns(n, 4, with_missing=True))
        chs = list(compositions(n))
        for pat in pats:
            nlab = max(pat) + 1
            for ch in chs:
                for merge in (False, True):
                    cases.append(dict(labels=list(pat), shape=[n], chunks=[list(ch)], merge=merge, nexpected=None))
                if nlab >= 1 and (len(cases) % 3 == 0):
                    cases.append(dict(labels=list(pat), shape=[n], chunks=[list(ch)], merge=bool(len(cases) % 2), nexpected=nlab + 1))
    exhaustive_1d = len(cases)
    # 2-D, all chunkings of a small grid
    shapes2 = [(2, 2), (2, 3)] if ctx.quick else [(2, 2), (2, 3), (3, 2), (3, 3)]
    for sh in shapes2:
        m = sh[0] * sh[1]
        pats = list(label_patterns(m, 3, with_missing=True))
        pats = gen.sample(pats, 60 if ctx.quick else 600, rng)
        for pat in pats:
            for c0 in compositions(sh[0]):
                for c1 in compositions(sh[1]):
                    cases.append(dict(labels=list(pat), shape=list(sh), chunks=[list(c0), list(c1)], merge=bool(len(cases) % 2), nexpected=None))
    # sampled beyond the bound: incidence matrices at all densities (this is where forced merging matters)
    nrand = 8000 if ctx.quick else 40000  # the forced-merge defect F7 needed about 500 random merge=True patterns per hit
    for t in range(nrand):
        nbk = int(rng.integers(3, 11))
        nl = int(rng.integers(2, 14))
        p = rng.uniform(0.1, 0.7)
        inc = rng.random((nbk, nl)) < p
        blocks = [np.nonzero(inc[b])[0] for b in range(nbk)]
        blocks = [b if len(b) else np.array([-1]) for b in blocks]
        labels = np.concatenate(blocks)
        cases.append(dict(labels=labels.tolist(), shape=[len(labels)], chunks=[[len(b) for b in blocks]], merge=bool(t % 4), nexpected=(nl if t % 3 == 0 else None)))
    return cases, exhaustive_1d


def closure_cases(ctx: Ctx):
    rng = gen.rng_for(ctx, 90)
    cases = []
    n = 6
    pats = [p for p in label_patterns(n, 3, with_missing=True) if any(x >= 0 for x in p)]
    i = 0
    for pat in gen.sample(pats, 40 if ctx.quick else 200, rng):
        lab = np.array(pat) * 10 + 5
        lab = np.where(np.array(pat) < 0, -7, lab)  # a label that occurs but is not requested
        present = sorted({x for x in lab.tolist() if x != -7})
        for ch in gen.sample(list(compositions(n)), 4, rng):
            i += 1
            batch = i % 3 == 0
            vals = (2.0 ** np.arange(n)).astype("float64")
            arr = np.stack([vals, vals * 64]) if batch else vals
            c = dict(array=enc(arr), by=[enc(lab)], func="sum", expected_groups=[present], fill_value=0,
                     chunks=([[1, 1]] if batch else []) + [list(ch)], method=[None, "map-reduce", "cohorts", "blockwise"][i % 4],
                     sort=[True, False][(i // 4) % 2], split_every=2 + i % 2)
            from ..rtc.reduce_case import blockwise_precondition

            if c["method"] == "blockwise" and not blockwise_precondition(c):
                c["method"] = "cohorts"
            cases.append(c)
    return cases


def run(ctx: Ctx):
    note = ""
    if getattr(ctx, "only", None) != "bounded":
        from ..proofs import c09_proofs

        note = c09_proofs.run(ctx)
    if getattr(ctx, "only", None) != "proof":
        cases, ex1d = planner_cases(ctx)
        run_bounded(
            ctx, "C09.rtc.find_group_cohorts", FUNCTION, cases, "vlib.props.C09:check_planner",
            bound=f"EXHAUSTIVE: all 1-D label arrays of length 2..{5 if ctx.quick else 7} with <=4 labels plus missing (restricted-growth form), all chunkings, merge False/True ({ex1d} cases); 2-D grids up to {'2x3' if ctx.quick else '3x3'} with all 2-D chunkings (sampled label patterns); plus {8000 if ctx.quick else 40000} random label-by-block incidence matrices (3-10 blocks, 2-13 labels, density 0.1-0.7)",
            rule="postcondition: cohorts partition the labels present; each key contains every block holding a member; 'blockwise' only if every label sits in one block; non-empty under merge=True; no exception; non-trivial = >=2 blocks",
            nontrivial=lambda c: sum(len(x) for x in c["chunks"]) > len(c["chunks"]), chunksize=64,
        )
        run_bounded(
            ctx, "C09.rtc.graph_closure", "flox.core.dask_groupby_agg (graph)", closure_cases(ctx), "vlib.props.C09:check_closure",
            bound="length-6 label patterns (<=3 requested labels + an unrequested one), sampled chunkings, all four methods, optional batch axis, provenance data element i = 2**i",
            rule="postcondition on the unexecuted graph: dependency closure of each output chunk vs blocks holding its labels; provenance sums name each member once",
            nontrivial=lambda c: len(c["chunks"][-1]) >= 2,
        )
    if getattr(ctx, "only", None) != "proof":
        from ..rtc.tree_case import tree_cases

        run_bounded(
            ctx, "C09.rtc.tree_builder", "flox.dask_array_ops._tree_reduce / partial_reduce / get_parts", tree_cases(24 if ctx.quick else 64, 8 if ctx.quick else 12), "vlib.rtc.tree_case:check_tree",
            bound="EXHAUSTIVE over #blocks 1..%d x split_every 2..%d and the config default x 1-2 batch blocks x two block_index values" % ((24, 8) if ctx.quick else (64, 12)),
            rule="postcondition on the graph dict: one root per batch index at (.., block_index); the leaves under each root are exactly its batch's blocks 0..n-1, once each, in increasing order; every task combines 1..split_every consecutive blocks of its own batch index; intermediate keys used exactly once; non-trivial = depth >= 2",
            nontrivial=lambda c: c["nblocks"] > (c["split_every"] or 4), exhaustive=True, chunksize=16,
        )
    ctx.assume("scipy.sparse incidence/containment algebra inside find_group_cohorts is external; the planner as a whole is decided by the bounded (exhaustive up to the stated size) contract, not by proof")
    ctx.trust("scipy.sparse", "toolz.groupby", "dask graph materialisation", "z3 / cvc5")
    return "other", ("Mixed: only the method-choice clauses are proved on the real source; find_group_cohorts and the tree builder are checked exhaustively up to a size bound (bounded, not proof). " + note)


def _case_of(payload):
    if "case" in payload:
        return payload["case"]
    m = payload.get("model")
    return m.get("case") if isinstance(m, dict) else None


def replay(payload):
    if _case_of(payload) is None:
        print("REPLAY: obligation", payload.get("obligation"), "-", payload.get("formula"), "| solver:", str(payload.get("solver_output"))[:500])
        return 1
    payload = {**payload, "case": _case_of(payload)}
    case = payload["case"]
    r = check_planner(case) if "labels" in case else check_closure(case)
    print("REPLAY:", "contract holds" if r is None else r["why"])
    return 0 if r is None else 1
