"""C01 — eager grouped reduction equals the per-group NumPy reduction, on every engine."""

from __future__ import annotations

from ..core import Ctx
from ..rtc import gen
from ..rtc.driver import run_bounded
from ..rtc.reduce_case import enc, label_patterns

FUNCTION = "flox.core.groupby_reduce"


def check(case):
    from ..rtc.reduce_case import check_case

    return check_case(case, refusal_ok=True)


def bounded_cases(ctx: Ctx):
    rng = gen.rng_for(ctx, 1)
    n = 4 if ctx.quick else 6
    pats = list(label_patterns(n, 3, with_missing=True))
    pats = [p for p in pats if any(x >= 0 for x in p)]
    if not ctx.quick:
        pats = gen.sample(pats, 250, rng)
    kvals = 6 if ctx.quick else 10
    cases = []
    for func in gen.REDUCTIONS:
        dtypes = ["float64"]
        if func in ("any", "all"):
            dtypes = ["bool"]
        elif not func.startswith("nan"):
            dtypes = ["float64", "int64", "int8", "bool", "float32"] if not ctx.quick else ["float64", "int64", "bool"]
        for dt in dtypes:
            for pi, pat in enumerate(pats):
                # unsorted as well as sorted labels come out of the restricted-growth enumeration;
                # relabel half of them in reverse order so that label order != first-appearance order
                lab = gen.labels_to_array(pat)
                if pi % 2:
                    lab = -lab
                vals = gen.values_for(func, n, rng, kvals if dt == "float64" else 2, dt)
                for vi, v in enumerate(vals):
                    eng = gen.ENGINES[(pi + vi) % len(gen.ENGINES)] if ctx.quick else None
                    engines = [eng] if ctx.quick else gen.ENGINES
                    for e in engines:
                        c = dict(array=enc(v), by=[enc(lab)], func=func, engine=e)
                        if func in ("var", "nanvar", "std", "nanstd") and (pi + vi) % 3 == 0:
                            c["finalize_kwargs"] = {"ddof": 1}
                        cases.append(c)
    return cases


def nontrivial(c):
    by = c["by"][0]["data"]
    return len(set(by)) >= 2 and len(c["array"]["data"]) >= 3


def run(ctx: Ctx):
    proof_note = ""
    if getattr(ctx, "only", None) != "bounded":
        from ..proofs import c01_proofs

        proof_note = c01_proofs.run(ctx)
    if getattr(ctx, "only", None) != "proof":
        cases = bounded_cases(ctx)
        run_bounded(
            ctx, "C01.rtc.groupby_reduce", FUNCTION, cases, "vlib.props.C01:check",
            bound=f"1-D arrays of length {4 if ctx.quick else 6}, <=3 groups + missing labels (all restricted-growth label patterns), value alphabet {{-2,-1,0,1,3,NaN,+Inf,-Inf}} by covering sample, 25 reductions, engines None/numpy/flox/numbagg/numba",
            rule="case = (reduction, engine, dtype, label pattern, value vector); non-trivial = >=2 distinct labels and >=3 elements; distinct by content hash",
            nontrivial=nontrivial,
        )
    ctx.assume(
        "floating point treated as extended reals in proofs (no rounding, no signed zero); bounded part compares exactly for order/count reductions and with rtol 1e-9 otherwise",
        "numpy_groupies / numbagg kernels are external: assumed contract G(SPEC), conformance-tested by the bounded part per engine",
    )
    ctx.trust("numpy", "pandas.factorize", "numpy_groupies.aggregate", "numbagg.grouped", "z3 / cvc5")
    return "other", (
        "Mixed: proof obligations over the real source (see obligations) for the functions listed as proved; "
        "the end-to-end contract result == G(SPEC) of groupby_reduce is a bounded stand-in (run-time contract over an enumerated domain) and is not counted as proved. "
        + proof_note
    )


def _case_of(payload):
    if "case" in payload:
        return payload["case"]
    m = payload.get("model")
    return m.get("case") if isinstance(m, dict) else None


def replay(payload):
    if _case_of(payload) is None:
        print("REPLAY: obligation", payload.get("obligation"), "-", payload.get("formula"), "| solver:", str(payload.get("solver_output"))[:500])
        return 1
    payload = {**payload, "case": _case_of(payload)}
    from ..rtc.reduce_case import check_case

    r = check_case(payload["case"], refusal_ok=True)
    print("REPLAY:", "contract holds" if r is None else r["why"])
    return 0 if r is None else 1
