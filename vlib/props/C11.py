"""C11 — result dtype, shape and chunk metadata are plan-independent and truthful."""

from __future__ import annotations

import itertools
import time

import numpy as np

from ..core import DISCHARGED, VIOLATED, Ctx, Obligation
from ..rtc import gen
from ..rtc.driver import run_bounded
from ..rtc.reduce_case import compositions, enc

FUNCTION = "flox.aggregations._initialize_aggregation"

NUMERIC_DTYPES = ["int8", "int16", "int32", "int64", "uint8", "uint16", "uint32", "uint64", "float32", "float64"]
TABLE_FUNCS = [
    "sum", "nansum", "prod", "nanprod", "mean", "nanmean", "var", "nanvar", "std", "nanstd",
    "min", "nanmin", "max", "nanmax", "first", "nanfirst", "last", "nanlast", "count",
    "argmax", "argmin", "nanargmax", "nanargmin",
]  # fmt: skip


def dtype_table(ctx: Ctx):
    """Complete enumeration of the finite configuration space of the real _initialize_aggregation (numeric inputs)."""
    from flox.aggregations import _initialize_aggregation

    from ..rtc.reduce_case import expected_dtype

    req = [None, "float32", "float64", "int32", "int64", "uint8", "int8"]
    fills = [None, 0, -5, 7, float("nan")]
    ncells = 0
    for func in TABLE_FUNCS:
        t0 = time.time()
        bad = None
        n = 0
        for dt, rq, fv, mc in itertools.product(NUMERIC_DTYPES, req, fills, (0, 1)):
            if isinstance(fv, int) and fv < 0 and (dt.startswith("uint") or (rq or "").startswith("uint")):
                continue  # a negative Python int is not representable: outside "fill_value in {None, int, NaN}" for unsigned
            n += 1
            try:
                agg = _initialize_aggregation(func, rq, np.dtype(dt), fv, mc, {"ddof": 0} if "var" in func or "std" in func else None)
                got = agg.dtype["final"]
            except Exception as e:
                got = f"{type(e).__name__}: {e}"
            want = expected_dtype(func, dt, rq, None if fv is None else ("nan" if fv != fv else fv))
            if not (isinstance(got, np.dtype) and got == want):
                bad = dict(func=func, dtype_in=dt, dtype_req=rq, fill_value=("nan" if fv != fv else fv), min_count=mc, got=str(got), want=str(want))
                break
        ncells += n
        ctx.add_obligations([
            Obligation(
                name=f"C11.table.{func}", function=FUNCTION, status=DISCHARGED if bad is None else VIOLATED, backend="enumeration",
                seconds=time.time() - t0, kind="table",
                formula=f"forall in_dtype in {len(NUMERIC_DTYPES)} numeric dtypes, dtype= in {req}, fill in {{None,0,-5,7,NaN}}, min_count in {{0,1}}: _initialize_aggregation({func!r},...).dtype['final'] == TABLE (from the property text); {n} cells, complete",
                detail="" if bad is None else f"cell {bad}", model=bad,
            )
        ])
    ctx.under_contract(FUNCTION, "proved")
    ctx.under_contract("flox.xrdtypes._normalize_dtype", "proved")
    ctx.under_contract("flox.xrdtypes._maybe_promote_int", "proved")
    return ncells


def check(case):
    from ..rtc.reduce_case import check_case, check_chunked_vs_eager

    r = check_case(case, refusal_ok=True, check_dtype=True)
    if r is None and case.get("chunks") is not None:
        r = check_chunked_vs_eager(case, check_meta=True)
        if r is None:
            r = check_blocks(case)
    return r


def check_blocks(case):
    """Announced chunk sizes == sizes of the computed blocks; announced meta type == block type."""
    import warnings

    from ..rtc import graphs
    from ..rtc.reduce_case import ALLOWED_EXC, run_case, signature

    with warnings.catch_warnings():
        warnings.simplefilter("ignore")
        d = run_case(case, compute=False)
    if not d["ok"]:
        return None
    lazy = d["lazy_obj"]
    g, keys = graphs.materialize(lazy)
    sig = signature(case)
    try:
        vals = graphs.execute(g, keys)
    except Exception as e:
        if type(e).__name__ in ALLOWED_EXC:
            return None  # refused at compute time (C19 decides whether the refusal is legitimate)
        sig["exc_type"] = type(e).__name__
        return {"case": case, "why": f"executing the graph raised {type(e).__name__}: {str(e)[:200]}", "sig": sig}
    for k, v in zip(keys, vals):
        idx = k[1:]
        want = tuple(lazy.chunks[d_][i] for d_, i in enumerate(idx))
        if any(isinstance(w, float) and w != w for w in want):
            continue
        if tuple(np.asarray(v).shape) != tuple(int(w) for w in want):
            return {"case": case, "why": f"block {idx}: announced chunk shape {want} != computed {np.asarray(v).shape}", "sig": sig}
        if np.asarray(v).dtype != lazy.dtype:
            return {"case": case, "why": f"block {idx}: announced dtype {lazy.dtype} != computed {np.asarray(v).dtype}", "sig": sig}
        if type(v) is not type(lazy._meta):
            return {"case": case, "why": f"block {idx}: announced array type {type(lazy._meta).__name__} != computed {type(v).__name__}", "sig": sig}
    return None


def bounded_cases(ctx: Ctx):
    rng = gen.rng_for(ctx, 11)
    n = 4
    cases = []
    dts = ["bool", "int8", "int16", "int32", "int64", "uint8", "uint16", "uint32", "uint64", "float32", "float64", "datetime64[ns]", "timedelta64[ns]"]
    chunkings = list(compositions(n))
    i = 0
    funcs = TABLE_FUNCS + ["any", "all"]
    for func in funcs:
        for dt in dts:
            if dt.startswith(("datetime", "timedelta")) and func not in ("min", "max", "nanmin", "nanmax", "first", "last", "nanfirst", "nanlast", "count", "mean", "nanmean"):
                continue
            if func in ("any", "all") and dt != "bool":
                continue
            # quick: dtype= None / float32, and int64 for the mean family (an integer dtype= of a floating statistic truncates like NumPy)
            for rq in [None, "float32", "float64", "int64"] if (not ctx.quick or func in ("mean", "nanmean")) else [None, "float32"]:
                if rq is not None and (dt.startswith(("datetime", "timedelta")) or func in ("any", "all", "count") or "arg" in func or dt == "bool"):
                    continue
                for fv in [None, 0, "nan"]:
                    i += 1
                    if dt.startswith(("datetime", "timedelta")):
                        if fv is not None:
                            continue
                        v = np.array([3, 1, 2, 5], dtype="int64").view(dt)
                    elif dt == "bool":
                        v = np.array([True, False, True, True])
                    else:
                        v = np.array([3, 1, 2, 5], dtype=dt)
                    if fv == "nan" and func in ("any", "all"):
                        continue
                    lab = np.array([5, 15, 5, 15])
                    c = dict(array=enc(v), by=[enc(lab)], func=func, dtype=rq, engine=[None, "numpy", "flox", "numbagg", "numba"][i % 5])
                    if fv is not None:
                        c["fill_value"] = fv
                        c["expected_groups"] = [[5, 15, 25]]
                    if i % 2 and func not in ("first", "last"):
                        c["chunks"] = [list(chunkings[i % len(chunkings)])]
                        c["method"] = [None, "map-reduce", "cohorts", "blockwise"][i % 4]
                        if c["method"] == "blockwise":
                            c["by"] = [enc(np.array([5, 5, 15, 15]))]
                    if rq is not None and c["engine"] == "numbagg":
                        c["engine"] = "numpy"
                    cases.append(c)
    # a requested integer dtype WIDER than integer data, for the reductions that substitute a neutral element (engine='flox'
    # writes it next to the data: F43) - every engine, eager and chunked
    for func in ("nanmin", "nanmax", "min", "max"):
        for dt in ("int8", "int16", "uint8", "uint32"):
            for eng in (None, "numpy", "flox"):
                for chunked in (False, True):
                    c = dict(array=enc(np.array([3, 1, 2, 5], dtype=dt)), by=[enc(np.array([5, 15, 5, 15]))], func=func, dtype="int64", engine=eng)
                    if chunked:
                        c["chunks"] = [[2, 2]]
                        c["method"] = "map-reduce"
                    cases.append(c)
    return cases


def run(ctx: Ctx):
    ncells = 0
    note = ""
    if getattr(ctx, "only", None) != "bounded":
        ncells = dtype_table(ctx)
        from ..proofs import c11_proofs

        note = c11_proofs.run(ctx)
    if getattr(ctx, "only", None) != "proof":
        run_bounded(
            ctx, "C11.rtc.dtype_and_meta", "flox.core.groupby_reduce", bounded_cases(ctx), "vlib.props.C11:check",
            bound="25 reductions x 13 input dtypes (bool, all int widths, float32/64, datetime64/timedelta64 where defined) x dtype= {None, float32[, float64, int64]} x fill {None,0,NaN} on a 4-element input; engines rotated; eager and chunked under all four methods",
            rule="postcondition: eager result dtype == TABLE(func, in_dtype, dtype=, fill) written from the property text; chunked dtype/shape/chunks/array type announced before compute == those of every computed block == eager; non-trivial = chunked or dtype=/fill given",
            nontrivial=lambda c: c.get("chunks") is not None or c.get("dtype") is not None or c.get("fill_value") is not None,
        )
    ctx.assume("numpy.result_type defines 'widened to hold a requested fill_value' (as the property says NumPy's conventions)")
    ctx.trust("numpy.result_type / numpy.dtype", "z3 / cvc5")
    return "other", (
        f"dtype table: complete enumeration of the real _initialize_aggregation over {ncells} configuration cells (a loop-free harness over the full finite domain of numeric dtypes; counted as discharged obligations, backend 'enumeration'); "
        "bool/datetime round trips and announced-vs-computed metadata are a bounded run-time contract. " + note
    )


def _case_of(payload):
    if "case" in payload:
        return payload["case"]
    m = payload.get("model")
    return m.get("case") if isinstance(m, dict) else None


def replay(payload):
    if _case_of(payload) is None:
        print("REPLAY: obligation", payload.get("obligation"), "-", payload.get("formula"), "| solver:", str(payload.get("solver_output"))[:500])
        return 1
    payload = {**payload, "case": _case_of(payload)}
    if "case" in payload:
        r = check(payload["case"])
        print("REPLAY:", "contract holds" if r is None else r["why"])
        return 0 if r is None else 1
    from flox.aggregations import _initialize_aggregation

    m = payload["model"]
    fv = float("nan") if m["fill_value"] == "nan" else m["fill_value"]
    agg = _initialize_aggregation(m["func"], m["dtype_req"], np.dtype(m["dtype_in"]), fv, m["min_count"], None)
    print("REPLAY:", m, "->", agg.dtype["final"], "want", m["want"])
    return 0 if str(agg.dtype["final"]) == m["want"] else 1
