"""C18 — grouped order statistics match NumPy's linear-interpolation quantiles."""

from __future__ import annotations

import numpy as np

from ..core import Ctx
from ..rtc import gen
from ..rtc.driver import run_bounded
from ..rtc.reduce_case import blockwise_precondition, compositions, enc, label_patterns

FUNCTION = "flox.core.groupby_reduce (median/quantile family)"
FUNCS = ["median", "nanmedian", "quantile", "nanquantile"]
QS = [0.0, 0.25, 0.5, 0.9, 1.0, [0.25, 0.75], [1.0, 0.0, 0.5], [0.5]]


def check(case):
    from ..rtc.reduce_case import ALLOWED_EXC, check_case, run_case, signature

    r = check_case(case, refusal_ok=True)
    if r is not None:
        return r
    if case.get("chunks") is not None and case.get("expect_refusal"):
        got = run_case(case)
        if got["ok"]:
            # computing is fine only if the answer is right (already compared above); nothing more to demand
            return None
    return None


def bounded_cases(ctx: Ctx):
    rng = gen.rng_for(ctx, 18)
    cases = []
    i = 0
    ns = [1, 2, 3, 5] if ctx.quick else [1, 2, 3, 4, 5, 7]
    for func in FUNCS:
        for n in ns:
            pats = [p for p in label_patterns(n, 3, with_missing=True) if any(x >= 0 for x in p)]
            for pat in gen.sample(pats, 10 if ctx.quick else 40, rng):
                for rep in range(2):
                    i += 1
                    lab = gen.labels_to_array(pat)
                    if i % 2:
                        lab = -lab  # unsorted label values
                    al = [-2.0, -1.0, 0.0, 1.0, 3.0, 0.5] + ([np.nan, np.nan] if rep else [np.nan])
                    v = np.array([al[rng.integers(len(al))] for _ in range(n)])
                    if i % 7 == 0:
                        v = np.where(np.array(pat) == 0, np.nan, v)  # an all-NaN group
                    c = dict(array=enc(v), by=[enc(lab)], func=func, engine=[None, "flox", "numpy"][i % 3])
                    if "quantile" in func:
                        q = QS[i % len(QS)]
                        if isinstance(q, list) and c["engine"] == "numpy":
                            c["engine"] = "flox"
                        c["finalize_kwargs"] = {"q": q}
                    if i % 5 == 0 and n > 1:
                        c["array"] = enc(np.stack([v, v[::-1], np.roll(v, 1)]))  # leading batch dim
                    if i % 3 == 0 and n > 1:
                        chs = list(compositions(n))
                        ch = list(chs[int(rng.integers(len(chs)))])
                        c["chunks"] = ([[1, 2]] if i % 5 == 0 else []) + [ch]
                        c["method"] = [None, "blockwise", "map-reduce", "cohorts"][(i // 3) % 4]
                        if c["method"] == "blockwise" and not blockwise_precondition(c):
                            c["method"] = None
                    cases.append(c)
    # no element has a valid label but labels are requested: every slot is the fill, with the leading quantile axis kept
    for func in FUNCS:
        for n in (1, 3):
            for q in QS:
                i += 1
                c = dict(array=enc(np.arange(float(n))), by=[enc(np.array([np.nan] * n))], func=func, expected_groups=[[5.0, 15.0]], fill_value="nan", engine=[None, "flox"][i % 2])
                if "quantile" in func:
                    c["finalize_kwargs"] = {"q": q}
                if i % 2 and n > 1:
                    c["chunks"] = [[n]]
                    c["method"] = "blockwise"
                cases.append(c)
    return cases


def run(ctx: Ctx):
    note = ""
    if getattr(ctx, "only", None) != "bounded":
        from ..proofs import c18_proofs

        note = c18_proofs.run(ctx)
    if getattr(ctx, "only", None) != "proof":
        run_bounded(
            ctx, "C18.rtc.order_statistics", FUNCTION, bounded_cases(ctx), "vlib.props.C18:check",
            bound="finite values + NaN (one or two NaN classes, all-NaN groups forced), group sizes 1-5(7), unsorted labels with missing ones, q in {0,.25,.5,.9,1} scalar and vectors (also unsorted q, length-1 vector), engines None/flox/numpy, a leading batch dimension, chunked under every method",
            rule="postcondition: per group and q, numpy.quantile / nanquantile (method='linear') or median / nanmedian of the members; vector q adds a leading axis in the given order; chunked: right answer or a clean refusal; non-trivial = a group with >=2 members or NaN",
            nontrivial=lambda c: len(c["array"]["data"]) >= 2,
        )
    ctx.assume("ordering contract of ndarray.partition on complex arrays (lexicographic, NaN last) is external (assumed)")
    ctx.trust("numpy.quantile(method='linear') as the specification", "ndarray.partition (complex)", "z3 / cvc5")
    return "other", ("Mixed: the planning clause (order statistics run blockwise or are refused) and the interpolation step _lerp are proved; the rest of the quantile kernel is outside the VC generator's reach and its contract against numpy.quantile is a bounded stand-in. " + note)


def _case_of(payload):
    if "case" in payload:
        return payload["case"]
    m = payload.get("model")
    return m.get("case") if isinstance(m, dict) else None


def replay(payload):
    if _case_of(payload) is None:
        print("REPLAY: obligation", payload.get("obligation"), "-", payload.get("formula"), "| solver:", str(payload.get("solver_output"))[:500])
        return 1
    payload = {**payload, "case": _case_of(payload)}
    r = check(payload["case"])
    print("REPLAY:", "contract holds" if r is None else r["why"])
    return 0 if r is None else 1
