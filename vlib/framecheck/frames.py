"""FrameCheck / W-sites: every in-place write in flox targets an object allocated in the same activation,
or an object named in the function's ``modifies`` clause (DESIGN.md §2.4).

Abstract interpretation over the AST of the real source (re-read on every run).  An abstract value records
which *roots* (parameters of the current function, module globals) an object may share memory with:

    self     roots the object itself may alias (empty = allocated in this activation: "fresh")
    content  roots that objects stored inside it may alias (containers)
    fields   per-key abstract values for dicts built with constant keys (field sensitivity)
    ikind    'basic' | 'array' | 'unknown' : whether, used as an index, it triggers advanced indexing (copy)

Function summaries (what the result may alias, which parameters may be written) are computed bottom-up to a
fixpoint, so a write through a callee is attributed to the caller's argument.  Library calls are classified by
a reviewed table (an ASSUMED contract: view-returning vs copy-returning numpy operations), listed in the evidence.
"""

from __future__ import annotations

import ast
import dataclasses
import os

E = frozenset()


@dataclasses.dataclass(frozen=True)
class AV:
    self_: frozenset = E
    content: frozenset = E
    fields: tuple | None = None  # tuple of (key, AV) for dict displays with constant keys
    ikind: str = "unknown"
    partial_of: str | None = None  # name of a repo function when the value is functools.partial(f, ...)
    elem: "AV | None" = None  # abstract value of the elements of a homogeneous container (comprehension results)

    def roots(self):
        out = self.self_ | self.content
        if self.fields is not None:
            for _, v in self.fields:
                out = out | v.roots()
        if self.elem is not None:
            out = out | self.elem.roots()
        return out

    def fdict(self):
        return dict(self.fields) if self.fields is not None else None


FRESH = AV()
FRESH_ARRAY = AV(ikind="array")
BASIC = AV(ikind="basic")


def join(a: AV, b: AV) -> AV:
    # a completely fresh side (no roots, no structure) contributes no aliases: keep the other side's structure
    if not a.roots() and a.fields is None and a.elem is None:
        return AV(b.self_, b.content, b.fields, b.ikind if a.ikind == b.ikind else ("array" if "array" in (a.ikind, b.ikind) else "unknown"), b.partial_of, b.elem)
    if not b.roots() and b.fields is None and b.elem is None:
        return AV(a.self_, a.content, a.fields, a.ikind if a.ikind == b.ikind else ("array" if "array" in (a.ikind, b.ikind) else "unknown"), a.partial_of, a.elem)
    fa, fb = a.fdict(), b.fdict()
    fields = None
    if fa is not None and fb is not None:
        fields = tuple(sorted(((k, join(fa.get(k, FRESH), fb.get(k, FRESH))) for k in set(fa) | set(fb)), key=lambda kv: repr(kv[0])))
    ik = a.ikind if a.ikind == b.ikind else ("array" if "array" in (a.ikind, b.ikind) else "unknown")
    if (fa is None) != (fb is None):
        # one side has no field information: fold the other side's fields into the content
        extra = E
        for d in (fa, fb):
            if d is not None:
                for v in d.values():
                    extra = extra | v.roots()
        return AV(a.self_ | b.self_, a.content | b.content | extra, None, ik, a.partial_of if a.partial_of == b.partial_of else None, None)
    el = join(a.elem, b.elem) if (a.elem is not None and b.elem is not None) else None
    extra = E
    if el is None:
        for x in (a.elem, b.elem):
            if x is not None:
                extra = extra | x.roots()
    return AV(a.self_ | b.self_, a.content | b.content | extra, fields, ik, a.partial_of if a.partial_of == b.partial_of else None, el)


def view_of(a: AV) -> AV:
    return AV(a.roots(), a.roots(), None, "array")


# ---------------------------------------------------------------------------------------------------
# the reviewed table of library operations (ASSUMED; validated by the read-only executor of C13's bounded part)
# ---------------------------------------------------------------------------------------------------

NP_VIEW = {"asarray", "asanyarray", "broadcast_to", "reshape", "squeeze", "expand_dims", "atleast_1d", "atleast_2d", "transpose", "moveaxis", "swapaxes", "ravel", "ascontiguousarray", "broadcast_arrays", "real", "imag", "diagonal"}
NP_FRESH = {
    "where", "full", "empty", "zeros", "ones", "zeros_like", "ones_like", "empty_like", "full_like", "arange", "concatenate", "stack", "unique", "sort", "argsort", "diff", "cumsum", "isin", "digitize",
    "searchsorted", "ravel_multi_index", "unravel_index", "take_along_axis", "floor", "ceil", "add", "subtract", "multiply", "sqrt", "isnan", "isnat", "array", "repeat", "insert", "nonzero", "median",
    "bincount", "argmax", "argmin", "sum", "prod", "max", "min", "nanmax", "nanmin", "any", "all", "result_type", "dtype", "iinfo", "issubdtype", "array_equal", "logical_or", "logical_and", "ix_",
    "timedelta64", "datetime64", "isscalar", "errstate", "vectorize", "frompyfunc", "lexsort", "count_nonzero", "quantile", "nanquantile", "nanmedian", "nansum", "int64", "intp", "float64", "maximum", "minimum",
}
METHOD_VIEW = {"reshape", "squeeze", "transpose", "view", "swapaxes", "ravel", "to_numpy", "__getitem__", "get"}
METHOD_FRESH = {
    "copy", "sum", "max", "min", "argsort", "cumsum", "nonzero", "tolist", "all", "any", "item", "mean", "flatten", "get_indexer", "sort_values", "astype_fresh", "equals", "is_same_type", "items", "keys",
    "values", "compute", "rechunk", "map_blocks", "format", "startswith", "join", "split", "is_integer", "isnull", "notnull", "searchsorted", "unique", "argmax", "argmin", "accumulate", "reduceat", "reduce",
    "from_breaks", "from_collections", "to_array", "index", "count", "total_seconds", "std", "var", "prod", "round", "clip", "dot", "cumprod", "take", "repeat", "union", "difference", "intersection", "isin",
}
METHOD_MUTATING = {"sort", "partition", "append", "extend", "update", "pop", "fill", "setflags", "insert", "remove", "clear", "add", "eliminate_zeros", "setdefault", "put", "resize", "itemset", "popitem"}


class WriteSite:
    def __init__(self, func, lineno, text, roots, how):
        self.func = func
        self.lineno = lineno
        self.text = text
        self.roots = frozenset(roots)
        self.how = how


class Summary:
    def __init__(self, params):
        self.params = params
        self.ret = FRESH
        self.has_ret = False
        self.writes = frozenset()  # parameter names that may be written (transitively)

    def key(self):
        return (self.ret, self.writes)


class ModuleInfo:
    def __init__(self, name, path):
        self.name = name
        self.path = path
        src = open(path).read()
        self.tree = ast.parse(src)
        self.lines = src.splitlines()
        self.funcs = {}
        self.partials = {}  # module-level  name = partial(f, ...)
        self.globals_mutable = set()
        self.imports = {}
        self.collect()

    def collect(self):
        def add_funcs(body, prefix=""):
            for n in body:
                if isinstance(n, ast.FunctionDef):
                    self.funcs[prefix + n.name] = n
                elif isinstance(n, ast.ClassDef):
                    add_funcs(n.body, prefix + n.name + ".")
                elif isinstance(n, ast.If):
                    add_funcs(n.body, prefix)
                    add_funcs(n.orelse, prefix)

        add_funcs(self.tree.body)
        for n in self.tree.body:
            if isinstance(n, ast.Assign) and len(n.targets) == 1 and isinstance(n.targets[0], ast.Name):
                v = n.value
                if isinstance(v, ast.Call) and isinstance(v.func, ast.Name) and v.func.id == "partial" and v.args:
                    inner = v.args[0]
                    while isinstance(inner, ast.Call) and isinstance(inner.func, ast.Name) and inner.func.id == "partial":
                        inner = inner.args[0]
                    if isinstance(inner, ast.Name):
                        self.partials[n.targets[0].id] = inner.id
                if isinstance(v, (ast.Dict, ast.List, ast.Set)) or (isinstance(v, ast.Call) and isinstance(v.func, ast.Attribute) and v.func.attr == "Cache"):
                    self.globals_mutable.add(n.targets[0].id)
            elif isinstance(n, ast.AnnAssign) and isinstance(n.target, ast.Name) and isinstance(n.value, (ast.Dict, ast.List, ast.Set)):
                self.globals_mutable.add(n.target.id)
            elif isinstance(n, (ast.Import, ast.ImportFrom)):
                for a in n.names:
                    if isinstance(n, ast.ImportFrom) and n.level >= 1:
                        self.imports[a.asname or a.name] = ((n.module or ""), a.name)


class Analyzer:
    def __init__(self, repo, modules=("core", "aggregations", "aggregate_flox", "aggregate_npg", "aggregate_numbagg", "xrutils", "xrdtypes", "dask_array_ops", "xarray", "cache", "lib")):
        self.repo = repo
        self.mods = {m: ModuleInfo(m, os.path.join(repo, "flox", m + ".py")) for m in modules if os.path.exists(os.path.join(repo, "flox", m + ".py"))}
        self.summaries = {}
        self.sites = {}
        self.unknown_calls = set()
        self.overrides = {}

    # -- resolution of a called name to (module, funcname)
    def resolve(self, mod: ModuleInfo, name):
        if name in mod.funcs:
            return mod.name, name
        if name in mod.partials:
            return self.resolve(mod, mod.partials[name])
        if name in mod.imports:
            m, orig = mod.imports[name]
            m = m.split(".")[-1]
            if m in self.mods:
                return self.resolve(self.mods[m], orig)
        return None

    def run(self):
        # bottom-up fixpoint over all functions
        for _ in range(6):
            changed = False
            for mname, mod in self.mods.items():
                for fname, fn in mod.funcs.items():
                    key = (mname, fname)
                    old = self.summaries[key].key() if key in self.summaries else None
                    fa = FuncAnalysis(self, mod, fname, fn)
                    fa.analyze()
                    ov = self.overrides.get(key)
                    if ov is not None and "ret" in ov:
                        fa.summary.ret = ov["ret"]
                    self.summaries[key] = fa.summary
                    self.sites[key] = fa.sites
                    if old != fa.summary.key():
                        changed = True
            if not changed:
                break
        return self.sites


class FuncAnalysis:
    def __init__(self, an: Analyzer, mod: ModuleInfo, fname, fn):
        self.an = an
        self.mod = mod
        self.fname = fname
        self.fn = fn
        a = fn.args
        self.params = [x.arg for x in a.posonlyargs + a.args + a.kwonlyargs]
        if a.vararg:
            self.params.append(a.vararg.arg)
        self.kwarg = a.kwarg.arg if a.kwarg else None
        self.summary = Summary(self.params)
        self.sites = []
        self.env = {}
        self.locals_defs = {}

    def root(self, p):
        return frozenset({"param:" + p})

    def analyze(self):
        for p in self.params:
            self.env[p] = AV(self.root(p), self.root(p), None, "unknown")
        if self.kwarg:
            self.env[self.kwarg] = AV(E, self.root(self.kwarg), None, "unknown")  # **kwargs is a fresh dict; its values are the caller's
        self.block(self.fn.body)

    # ------------------------------------------------------------------ statements
    def block(self, stmts):
        for s in stmts:
            self.stmt(s)

    def stmt(self, s):
        if isinstance(s, ast.Assign):
            v = self.expr(s.value)
            for t in s.targets:
                self.assign(t, v, s)
        elif isinstance(s, ast.AnnAssign):
            if s.value is not None:
                self.assign(s.target, self.expr(s.value), s)
        elif isinstance(s, ast.AugAssign):
            v = self.expr(s.value)
            if isinstance(s.target, ast.Name):
                cur = self.env.get(s.target.id, FRESH)
                # numpy arrays are updated in place by  x op= v ; immutable scalars are re-bound (their alias set is empty)
                if cur.self_:
                    self.write(cur.self_, s, f"{ast.unparse(s.target)} {type(s.op).__name__}= ...", "augmented assignment (in place for arrays)")
            else:
                base = self.expr(s.target.value) if isinstance(s.target, (ast.Subscript, ast.Attribute)) else FRESH
                if isinstance(s.target, ast.Subscript):
                    self.write(base.self_, s, ast.unparse(s.target), "augmented subscript store")
                elif isinstance(s.target, ast.Attribute):
                    self.write(base.self_, s, ast.unparse(s.target), "augmented attribute store")
        elif isinstance(s, ast.Expr):
            self.expr(s.value)
        elif isinstance(s, ast.Return):
            if s.value is not None:
                v = self.expr(s.value)
                self.summary.ret = join(self.summary.ret, v) if self.summary.has_ret else v
                self.summary.has_ret = True
        elif isinstance(s, ast.If):
            self.expr(s.test)
            e0 = dict(self.env)
            self.block(s.body)
            e1 = self.env
            self.env = dict(e0)
            self.block(s.orelse)
            self.env = self.join_env(e1, self.env)
        elif isinstance(s, (ast.For, ast.While)):
            if isinstance(s, ast.For):
                it = self.expr(s.iter)
                self.assign(s.target, self.element_of(it), s)
            else:
                self.expr(s.test)
            for _ in range(2):
                e0 = dict(self.env)
                self.block(s.body)
                self.env = self.join_env(e0, self.env)
            self.block(s.orelse)
        elif isinstance(s, ast.With):
            for it in s.items:
                v = self.expr(it.context_expr)
                if it.optional_vars is not None:
                    self.assign(it.optional_vars, v, s)
            self.block(s.body)
        elif isinstance(s, ast.Try):
            self.block(s.body)
            for h in s.handlers:
                self.block(h.body)
            self.block(s.orelse)
            self.block(s.finalbody)
        elif isinstance(s, ast.FunctionDef):
            self.locals_defs[s.name] = s
            self.env[s.name] = FRESH
        elif isinstance(s, ast.Delete):
            for t in s.targets:
                if isinstance(t, ast.Subscript):
                    self.write(self.expr(t.value).self_, s, ast.unparse(t), "del item")
        elif isinstance(s, ast.Match):
            self.expr(s.subject)
            envs = []
            e0 = dict(self.env)
            for c in s.cases:
                self.env = dict(e0)
                self.block(c.body)
                envs.append(self.env)
            out = envs[0] if envs else e0
            for e in envs[1:]:
                out = self.join_env(out, e)
            self.env = out
        elif isinstance(s, (ast.Raise, ast.Assert, ast.Pass, ast.Import, ast.ImportFrom, ast.Global, ast.Nonlocal, ast.Continue, ast.Break, ast.ClassDef)):
            if isinstance(s, ast.Assert):
                self.expr(s.test)

    def element_of(self, it: AV) -> AV:
        if it.elem is not None:
            return it.elem
        fd = it.fdict()
        if fd:
            out = None
            for v in fd.values():
                out = v if out is None else join(out, v)
            return out
        r = it.roots()
        return AV(r, r, None, "unknown")

    def join_env(self, a, b):
        out = {}
        for k in set(a) | set(b):
            if k in a and k in b:
                out[k] = join(a[k], b[k])
            else:
                out[k] = a.get(k) or b.get(k)
        return out

    def assign(self, target, v: AV, node):
        if isinstance(target, ast.Name):
            self.env[target.id] = v
        elif isinstance(target, (ast.Tuple, ast.List)):
            fd = v.fdict()
            for i, t in enumerate(target.elts):
                if isinstance(t, ast.Starred):
                    self.assign(t.value, AV(E, v.roots()), node)
                    continue
                if fd is not None and f"#{i}" in fd and not any(isinstance(x, ast.Starred) for x in target.elts):
                    self.assign(t, fd[f"#{i}"], node)
                else:
                    self.assign(t, self.element_of(v), node)
        elif isinstance(target, ast.Subscript):
            base = self.expr(target.value)
            self.write(base.self_, node, ast.unparse(target), "subscript store")
            self.store_into(target.value, ("k", target.slice.value) if isinstance(target.slice, ast.Constant) else None, v)
        elif isinstance(target, ast.Attribute):
            base = self.expr(target.value)
            self.write(base.self_, node, ast.unparse(target), "attribute store")
            self.store_into(target.value, ("a", target.attr), v)

    def store_into(self, base_expr, key, v: AV):
        """Record that the object denoted by base_expr now holds v (under `key` when it is a constant key / attribute)."""
        if isinstance(base_expr, ast.Name) and base_expr.id in self.env:
            cur = self.env[base_expr.id]
            fd = cur.fdict()
            if key is not None and key[0] == "k" and isinstance(key[1], int):
                key = ("k", f"#{key[1]}")
            kname = None if key is None else (key[1] if key[0] == "k" else "." + key[1])
            if kname is not None and isinstance(kname, str) and (fd is not None or key[0] == "a" or not cur.content):
                fd = fd or {}
                fd[kname] = v
                self.env[base_expr.id] = AV(cur.self_, cur.content, tuple(sorted(fd.items(), key=lambda kv: repr(kv[0]))), cur.ikind, cur.partial_of, cur.elem)
            else:
                ik = "array" if (v.ikind == "array" or cur.ikind == "array") else cur.ikind
                extra = E
                if fd is not None:
                    for x in fd.values():
                        extra = extra | x.roots()
                self.env[base_expr.id] = AV(cur.self_, cur.content | v.roots() | extra, None, ik, cur.partial_of, cur.elem)
        elif isinstance(base_expr, (ast.Subscript, ast.Attribute)):
            # nested store  a.b[k] = v  /  d["x"][1] = v : fold v into the outermost variable's content
            inner = base_expr
            while isinstance(inner, (ast.Subscript, ast.Attribute)):
                inner = inner.value
            if isinstance(inner, ast.Name) and inner.id in self.env:
                cur = self.env[inner.id]
                fd = cur.fdict()
                # keep field precision when the path starts with a known constant key
                first = base_expr
                path = []
                while isinstance(first, (ast.Subscript, ast.Attribute)):
                    path.append(first)
                    first = first.value
                top = path[-1]
                tk = None
                if isinstance(top, ast.Subscript) and isinstance(top.slice, ast.Constant) and isinstance(top.slice.value, str):
                    tk = top.slice.value
                elif isinstance(top, ast.Attribute):
                    tk = "." + top.attr
                if fd is None and tk is not None and not cur.self_ and not cur.content:
                    fd = {}
                if fd is not None and tk is not None and tk not in fd and not cur.self_:
                    fd[tk] = AV(E, E)
                if fd is not None and tk is not None and tk in fd:
                    sub = fd[tk]
                    fd[tk] = AV(sub.self_, sub.content | v.roots(), None if sub.fields is None else sub.fields, sub.ikind, sub.partial_of, None if sub.elem is None else join(sub.elem, v))
                    self.env[inner.id] = AV(cur.self_, cur.content, tuple(sorted(fd.items(), key=lambda kv: repr(kv[0]))), cur.ikind, cur.partial_of, cur.elem)
                else:
                    self.env[inner.id] = AV(cur.self_, cur.content | v.roots(), cur.fields, cur.ikind, cur.partial_of, cur.elem)

    def write(self, roots, node, text, how):
        roots = frozenset(roots)
        self.sites.append(WriteSite(self.fname, getattr(node, "lineno", 0), text, roots, how))
        if roots:
            self.summary.writes = self.summary.writes | frozenset(r[6:] for r in roots if r.startswith("param:"))

    # ------------------------------------------------------------------ expressions
    def expr(self, e) -> AV:
        if e is None:
            return FRESH
        m = getattr(self, "x_" + type(e).__name__, None)
        if m is None:
            out = FRESH
            for ch in ast.iter_child_nodes(e):
                if isinstance(ch, ast.expr):
                    out = join(out, self.expr(ch))
            return AV(out.roots(), out.roots())
        return m(e)

    def x_Constant(self, e):
        return BASIC if isinstance(e.value, (int, type(None), type(Ellipsis))) and not isinstance(e.value, bool) else FRESH

    def x_Name(self, e):
        if e.id in self.env:
            return self.env[e.id]
        if e.id in self.mod.globals_mutable:
            return AV(frozenset({"global:" + e.id}), frozenset({"global:" + e.id}))
        if e.id in self.mod.partials:
            r = self.an.resolve(self.mod, e.id)
            return AV(partial_of=f"{r[0]}.{r[1]}" if r else None)
        if e.id in self.mod.funcs or e.id in self.mod.imports:
            r = self.an.resolve(self.mod, e.id)
            return AV(partial_of=f"{r[0]}.{r[1]}" if r else None)
        return FRESH

    def x_Tuple(self, e):
        vals = [self.expr(x.value if isinstance(x, ast.Starred) else x) for x in e.elts]
        ik = "basic"
        for v in vals:
            if v.ikind == "array":
                ik = "array"
            elif v.ikind == "unknown" and ik != "array":
                ik = "unknown"
        if any(isinstance(x, ast.Starred) for x in e.elts):
            c = E
            for v in vals:
                c = c | v.roots()
            return AV(E, c, None, ik)
        return AV(E, E, tuple((f"#{i}", v) for i, v in enumerate(vals)), ik)

    x_List = x_Tuple
    x_Set = x_Tuple

    def x_Dict(self, e):
        fields = {}
        c = E
        ok = True
        for k, v in zip(e.keys, e.values):
            av = self.expr(v)
            c = c | av.roots()
            if isinstance(k, ast.Constant) and isinstance(k.value, str):
                fields[k.value] = av
            else:
                ok = False
        return AV(E, c, tuple(sorted(fields.items())) if ok else None)

    def x_BinOp(self, e):
        a, b = self.expr(e.left), self.expr(e.right)
        # list * int / list + list build new containers holding the same elements
        if isinstance(e.op, (ast.Mult, ast.Add)) and (isinstance(e.left, (ast.List, ast.Tuple)) or isinstance(e.right, (ast.List, ast.Tuple))):
            return AV(E, a.content | b.content, None, "array" if "array" in (a.ikind, b.ikind) else ("basic" if a.ikind == b.ikind == "basic" else a.ikind if isinstance(e.op, ast.Mult) else "unknown"))
        return FRESH_ARRAY

    def x_UnaryOp(self, e):
        self.expr(e.operand)
        return FRESH_ARRAY

    def x_Compare(self, e):
        self.expr(e.left)
        for c in e.comparators:
            self.expr(c)
        return FRESH_ARRAY

    def x_BoolOp(self, e):
        out = FRESH
        for v in e.values:
            out = join(out, self.expr(v))
        return out

    def x_IfExp(self, e):
        self.expr(e.test)
        return join(self.expr(e.body), self.expr(e.orelse))

    def x_JoinedStr(self, e):
        return FRESH

    def x_Lambda(self, e):
        return FRESH

    def x_Starred(self, e):
        return self.expr(e.value)

    def x_NamedExpr(self, e):
        v = self.expr(e.value)
        self.assign(e.target, v, e)
        return v

    def x_ListComp(self, e):
        saved = dict(self.env)
        for g in e.generators:
            it = self.expr(g.iter)
            self.assign(g.target, self.element_of(it), e)
            for c in g.ifs:
                self.expr(c)
        v = self.expr(e.elt) if not isinstance(e, ast.DictComp) else join(self.expr(e.key), self.expr(e.value))
        self.env = saved
        return AV(E, E, None, "array" if v.ikind == "array" else "unknown", None, v)

    x_GeneratorExp = x_ListComp
    x_SetComp = x_ListComp
    x_DictComp = x_ListComp

    def x_Attribute(self, e):
        base = self.expr(e.value)
        if isinstance(e.value, ast.Name) and e.value.id in ("np", "pd", "npg", "math", "itertools", "dtypes", "xrdtypes", "utils", "xrutils", "tlz", "operator", "dask", "xr", "aggregate_flox", "aggregate_npg", "aggregate_numbagg", "numbagg", "warnings", "copy", "datetime", "sys") and e.value.id not in self.env:
            return FRESH
        if e.attr in ("shape", "ndim", "size", "dtype", "chunks", "numblocks", "name", "kind", "itemsize", "blockwise", "array_type", "min_count", "dims", "sizes", "names"):
            return BASIC if e.attr in ("ndim", "size") else FRESH
        fd = base.fdict()
        if fd is not None and ("." + e.attr) in fd:
            return fd["." + e.attr]
        c = base.self_ | base.content
        return AV(c, c, None, "array" if e.attr in ("real", "imag", "T", "values", "data", "left", "right") else "unknown")

    def index_is_advanced(self, sl):
        """True / False / None(unknown): does this index expression select a copy (advanced indexing)?"""
        v = self.expr(sl)
        if isinstance(sl, ast.Slice):
            return False
        if isinstance(sl, ast.Tuple):
            kinds = []
            for x in sl.elts:
                kinds.append(self.index_is_advanced(x))
            if any(k is True for k in kinds):
                return True
            if all(k is False for k in kinds):
                return False
            return None
        if isinstance(sl, ast.Constant):
            return False
        if isinstance(sl, ast.Attribute) and sl.attr == "newaxis":
            return False
        if isinstance(sl, (ast.Compare, ast.BinOp, ast.UnaryOp, ast.List)):
            return True if not isinstance(sl, ast.List) or sl.elts else False
        if v.ikind == "array":
            return True
        if v.ikind == "basic":
            return False
        if isinstance(sl, ast.Call):
            f = sl.func
            if isinstance(f, ast.Name) and f.id == "slice":
                return False
            if isinstance(f, ast.Name) and f.id == "tuple" and sl.args:
                a = self.expr(sl.args[0])
                return True if a.ikind == "array" else (False if a.ikind == "basic" else None)
            return True if v.ikind == "array" else None
        return None

    def x_Subscript(self, e):
        base = self.expr(e.value)
        fd = base.fdict()
        if fd is not None and isinstance(e.slice, ast.Constant):
            k = e.slice.value if isinstance(e.slice.value, str) else (f"#{e.slice.value}" if isinstance(e.slice.value, int) and e.slice.value >= 0 else None)
            if k is not None and k in fd:
                return fd[k]
            if isinstance(e.slice.value, int) and e.slice.value < 0:
                pos = sorted(kk for kk in fd if kk.startswith("#"))
                if pos and len(pos) + e.slice.value >= 0:
                    return fd[f"#{len(pos) + e.slice.value}"]
        if base.elem is not None and not base.self_:
            return base.elem if not isinstance(e.slice, ast.Slice) else base
        if fd is not None or (not base.self_ and base.content):
            # a locally built container: loading an element gives one of its contents
            r = base.roots()
            return AV(r, r, None, "unknown")
        adv = self.index_is_advanced(e.slice)
        if adv is True:
            return FRESH_ARRAY
        return AV(base.roots(), base.roots(), None, "array")  # basic (or unknown) indexing: a view

    def x_Slice(self, e):
        return BASIC

    def x_Call(self, e):
        args = [self.expr(a.value if isinstance(a, ast.Starred) else a) for a in e.args]
        kws = {k.arg: self.expr(k.value) for k in e.keywords}
        f = e.func
        # writes through out=
        if "out" in kws and kws["out"].self_:
            self.write(kws["out"].self_, e, ast.unparse(e)[:80], "ufunc(..., out=...)")
        if isinstance(f, ast.Name):
            name = f.id
            if name in self.locals_defs:
                return AV(frozenset().union(*[a.roots() for a in args]) if args else E, E)
            if name in self.env and self.env[name].partial_of:
                return self.call_repo(self.env[name].partial_of, args, kws, e)
            if name == "partial" and e.args:
                inner = self.expr(e.args[0])
                tgt = inner.partial_of
                if tgt is None and isinstance(e.args[0], ast.Name):
                    r = self.an.resolve(self.mod, e.args[0].id)
                    tgt = f"{r[0]}.{r[1]}" if r else None
                c = E
                for a in args[1:]:
                    c |= a.roots()
                for a in kws.values():
                    c |= a.roots()
                return AV(E, c, None, "unknown", tgt)
            r = self.an.resolve(self.mod, name)
            if r is not None:
                return self.call_repo(f"{r[0]}.{r[1]}", args, kws, e)
            if name in ("tuple", "list") and len(args) == 1:
                a = args[0]
                return AV(E, a.content, a.fields, a.ikind, None, a.elem) if not a.self_ else AV(E, a.roots(), None, a.ikind)
            if name == "zip":
                return AV(E, E, None, "unknown", None, AV(E, E, tuple((f"#{i}", self.element_of(a)) for i, a in enumerate(args))))
            if name == "enumerate" and args:
                return AV(E, E, None, "unknown", None, AV(E, E, (("#0", BASIC), ("#1", self.element_of(args[0])))))
            if name in ("tuple", "list", "set", "frozenset", "sorted", "reversed", "dict", "zip", "enumerate", "map", "filter", "iter", "next"):
                c = E
                for a in args:
                    c |= a.roots()
                return AV(E, c, None, "unknown")
            if name == "slice":
                return BASIC
            if name in ("len", "int", "float", "bool", "str", "abs", "min", "max", "sum", "any", "all", "isinstance", "range", "getattr", "hasattr", "callable", "type", "repr", "print", "round", "id", "hash", "divmod"):
                if name == "getattr" and args:
                    return AV(args[0].roots(), args[0].roots())
                return BASIC if name in ("len", "int") else FRESH
            if name == "cast" and len(args) == 2:
                return args[1]
            if name in self.env:
                # a callable held in a variable / parameter: assumed to return a fresh value and not to write its arguments
                self.an.unknown_calls.add(f"{self.mod.name}.{self.fname}: call through variable {name!r}")
                return FRESH_ARRAY
            return FRESH_ARRAY
        if isinstance(f, ast.Attribute):
            recv = f.value
            attr = f.attr
            # module functions
            if isinstance(recv, ast.Name) and recv.id in ("np", "numpy") and recv.id not in self.env:
                if attr in NP_VIEW:
                    out = FRESH
                    for a in args[:1]:
                        out = view_of(a)
                    return out
                return FRESH_ARRAY
            if isinstance(recv, ast.Attribute) and isinstance(recv.value, ast.Name) and recv.value.id == "np" and recv.value.id not in self.env:
                return FRESH_ARRAY  # np.add.reduceat, np.maximum.accumulate, np.random...
            if isinstance(recv, ast.Name) and recv.id == "copy" and attr == "deepcopy":
                return FRESH
            if isinstance(recv, ast.Name) and recv.id == "copy" and attr == "copy":
                # a shallow copy is a new object whose parts are the original's parts
                out = FRESH
                for a in args[:1]:
                    out = AV(E, a.roots(), None, a.ikind)
                return out
            if isinstance(recv, ast.Name) and recv.id in ("aggregate_flox", "aggregate_npg", "aggregate_numbagg", "xrutils", "dtypes", "xrdtypes", "utils") and recv.id not in self.env:
                m = {"dtypes": "xrdtypes", "utils": "xrutils"}.get(recv.id, recv.id)
                if m in self.an.mods:
                    r = self.an.resolve(self.an.mods[m], attr)
                    if r:
                        return self.call_repo(f"{r[0]}.{r[1]}", args, kws, e)
                return FRESH_ARRAY
            if isinstance(recv, ast.Name) and recv.id in ("pd", "npg", "math", "itertools", "tlz", "operator", "dask", "xr", "warnings", "numbagg", "logger", "datetime", "functools") and recv.id not in self.env:
                return FRESH_ARRAY
            base = self.expr(recv)
            if attr in METHOD_MUTATING:
                self.write(base.self_, e, ast.unparse(e)[:80], f".{attr}() mutates its receiver")
                if isinstance(recv, ast.Name) and recv.id in self.env and args:
                    cur = self.env[recv.id]
                    add = E
                    ik = cur.ikind
                    for a in args:
                        add |= a.roots()
                        if a.ikind == "array":
                            ik = "array"
                    if attr == "append" and cur.fields is None and not cur.content and len(args) == 1:
                        self.env[recv.id] = AV(cur.self_, cur.content, None, ik, cur.partial_of, args[0] if cur.elem is None else join(cur.elem, args[0]))
                    else:
                        self.env[recv.id] = AV(cur.self_, cur.content | add | (cur.elem.roots() if cur.elem else E), None, ik)
                return FRESH
            if attr == "astype":
                cp = None
                for k in e.keywords:
                    if k.arg == "copy" and isinstance(k.value, ast.Constant):
                        cp = k.value.value
                return view_of(base) if cp is False else FRESH_ARRAY
            if attr in METHOD_VIEW:
                return view_of(base)
            if attr in METHOD_FRESH:
                return FRESH_ARRAY
            # methods of repo classes (self.method / obj.method)
            for mname, mod in self.an.mods.items():
                for fname in mod.funcs:
                    if fname.endswith("." + attr):
                        return self.call_repo(f"{mname}.{fname}", [base] + args, kws, e)
            return FRESH_ARRAY
        # call of a call result etc.
        self.expr(f)
        return FRESH_ARRAY

    def call_repo(self, target, args, kws, node):
        mname, fname = target.split(".", 1)
        s = self.an.summaries.get((mname, fname))
        if s is None:
            return FRESH_ARRAY
        # bind arguments to callee parameters
        bind = {}
        for p, a in zip(s.params, args):
            bind[p] = a
        for k, a in kws.items():
            bind[k] = a
        # writes through the callee
        for p in s.writes:
            if p in bind and bind[p].self_:
                self.write(bind[p].self_, node, ast.unparse(node)[:80], f"callee {target} writes its parameter {p!r}")

        def subst(roots, self_only=False):
            out = set()
            for r in roots:
                if r.startswith("param:"):
                    b = bind.get(r[6:])
                    if b is not None:
                        out |= b.self_ if self_only else b.roots()
                else:
                    out.add(r)
            return frozenset(out)

        def sub_av(av: AV) -> AV:
            fd = av.fdict()
            return AV(subst(av.self_, True), subst(av.content), None if fd is None else tuple(sorted(((k, sub_av(v)) for k, v in fd.items()), key=lambda kv: repr(kv[0]))), av.ikind, None, None if av.elem is None else sub_av(av.elem))

        return sub_av(s.ret)
