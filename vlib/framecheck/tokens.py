"""FrameCheck / T-sites: the name of every graph layer flox names itself determines the layer's content
(DESIGN.md §2.4).  Three kinds of obligations, all read from the AST of the working tree:

T1  every attribute ever assigned on an Aggregation object is an ingredient of Aggregation.__dask_tokenize__
    (or is listed as derived from ingredients that are)
T2  every layer-construction site passes a name that is content-derived (mentions a tokenize(...) result or the
    name of a dependency), never a constant
T3  every parameter the payload of such a layer depends on (def-use closure inside the function) is covered by the
    arguments of the tokenize call that names it, or is listed as value-irrelevant with the property that says so

`dask.base.tokenize` is assumed injective and deterministic; dask's own layers (blockwise, tree-reduce, cumreduction,
getitem) tokenize their callables and arguments themselves (assumed).
"""

from __future__ import annotations

import ast
import os

LAYER_CALLS = {"blockwise", "map_blocks", "from_collections", "ArrayLayer", "Array", "tree_reduce", "_tree_reduce", "scan", "cumreduction", "from_array"}


def names_in(node):
    return {n.id for n in ast.walk(node) if isinstance(n, ast.Name)}


def func_def(tree, qual):
    node = tree
    for p in qual.split("."):
        nxt = None
        for ch in ast.walk(node) if node is tree else ast.iter_child_nodes(node):
            if isinstance(ch, (ast.FunctionDef, ast.ClassDef)) and ch.name == p:
                nxt = ch
                if node is not tree:
                    break
        node = nxt
        if node is None:
            return None
    return node


class DefUse:
    """Flow-insensitive def-use closure of local names down to parameters."""

    def __init__(self, fn):
        self.fn = fn
        a = fn.args
        self.params = {x.arg for x in a.posonlyargs + a.args + a.kwonlyargs}
        self.deps = {}
        for node in ast.walk(fn):
            if isinstance(node, ast.Assign):
                for t in node.targets:
                    self.add(t, node.value)
            elif isinstance(node, (ast.AnnAssign, ast.AugAssign)) and node.value is not None:
                self.add(node.target, node.value)
            elif isinstance(node, ast.For):
                self.add(node.target, node.iter)
            elif isinstance(node, ast.With):
                for it in node.items:
                    if it.optional_vars is not None:
                        self.add(it.optional_vars, it.context_expr)
            elif isinstance(node, ast.NamedExpr):
                self.add(node.target, node.value)
            elif isinstance(node, ast.comprehension):
                self.add(node.target, node.iter)
            elif isinstance(node, ast.FunctionDef) and node is not fn:
                self.deps.setdefault(node.name, set()).update(names_in(node) - {a.arg for a in node.args.args})

    def add(self, target, value):
        srcs = names_in(value)
        for n in ast.walk(target):
            if isinstance(n, ast.Name):
                self.deps.setdefault(n.id, set()).update(srcs)
            elif isinstance(n, (ast.Subscript, ast.Attribute)):
                inner = n
                while isinstance(inner, (ast.Subscript, ast.Attribute)):
                    inner = inner.value
                if isinstance(inner, ast.Name):
                    self.deps.setdefault(inner.id, set()).update(srcs)

    def must_cover(self, names):
        """Parameters whose content is certainly an ingredient of a token built from `names` (an UNDER-approximation, as
        coverage must be): a parameter named directly, or a local all of whose definitions mention only covered names.
        A name that is both a parameter and re-assigned (array, by = _unify_chunks(array, by)) covers itself only: the
        re-assigned value keeps that parameter's content but need not carry the others it was computed with."""
        out = {n for n in names if n in self.params}
        work = [n for n in names if n not in self.params]
        seen = set()
        while work:
            n = work.pop()
            if n in seen:
                continue
            seen.add(n)
            for s_ in self.deps.get(n, ()):
                if s_ in self.params:
                    out.add(s_)
                elif s_ not in seen:
                    work.append(s_)
        return out

    def param_closure(self, names):
        seen, out = set(), set()
        stack = list(names)
        while stack:
            n = stack.pop()
            if n in seen:
                continue
            seen.add(n)
            if n in self.params:
                out.add(n)
            # a parameter may also be re-assigned from other names (array, by = _unify_chunks(array, by))
            stack.extend(self.deps.get(n, ()))
        return out


def analyse(repo, contracts):
    """contracts: list of dicts(file, func, irrelevant: {param: why}, covered_by_dependency: [names]) -> obligations as dicts"""
    out = []
    cache = {}
    for c in contracts:
        path = os.path.join(repo, c["file"])
        if path not in cache:
            cache[path] = ast.parse(open(path).read())
        tree = cache[path]
        fn = func_def(tree, c["func"])
        if fn is None:
            out.append(dict(name=f"T.{c['func']}.extract", ok=None, text=f"function {c['func']} not found in {c['file']}", detail="extraction failed", model=None, function=c["func"]))
            continue
        du = DefUse(fn)
        # tokenize calls: variable -> argument names
        tokens = {}
        for node in ast.walk(fn):
            if isinstance(node, ast.Call) and ((isinstance(node.func, ast.Attribute) and node.func.attr == "tokenize") or (isinstance(node.func, ast.Name) and node.func.id == "tokenize")):
                args = set()
                for a in node.args:
                    args |= names_in(a)
                tokens[id(node)] = args
        token_vars = {}
        for node in ast.walk(fn):
            if isinstance(node, ast.Assign) and len(node.targets) == 1 and isinstance(node.targets[0], ast.Name):
                for sub in ast.walk(node.value):
                    if id(sub) in tokens:
                        token_vars.setdefault(node.targets[0].id, set()).update(tokens[id(sub)])
        # propagate: a name built from a token variable carries its coverage (out_name = f"{name}-reduce-{method}-{token}")
        changed = True
        while changed:
            changed = False
            for v, srcs in du.deps.items():
                for s_ in list(srcs):
                    if s_ in token_vars and v not in token_vars and v not in du.params:
                        # only string-building assignments
                        token_vars[v] = set(token_vars[s_])
                        changed = True
        dep_names = set(c.get("dependency_names", ()))
        nsite = 0
        for node in ast.walk(fn):
            if not isinstance(node, ast.Call):
                continue
            fname = node.func.attr if isinstance(node.func, ast.Attribute) else (node.func.id if isinstance(node.func, ast.Name) else None)
            name_kw = None
            for k in node.keywords:
                if k.arg == "name":
                    name_kw = k.value
            if fname not in LAYER_CALLS or name_kw is None:
                continue
            nsite += 1
            site = f"{c['func']}.{fname}#{nsite}"
            text = ast.unparse(name_kw)
            used = names_in(name_kw)
            covering = set()
            inline_tok = False
            for sub in ast.walk(name_kw):
                if id(sub) in tokens:
                    covering |= tokens[id(sub)]
                    inline_tok = True
                if isinstance(sub, ast.Attribute) and sub.attr == "name" and isinstance(sub.value, ast.Name):
                    covering |= {sub.value.id}
                    inline_tok = True
            for u in used:
                if u in token_vars:
                    covering |= token_vars[u]
                    inline_tok = True
            delegated = c.get("delegated_to_dask", {}).get(text)
            ok2 = inline_tok or delegated is not None
            out.append(dict(name=f"T2.{site}", ok=ok2, function=c["func"], text=f"line {node.lineno}: layer name `{text}` is content-derived (built from a tokenize(...) result or a dependency's name)",
                            detail=(f"dask appends its own token: {delegated}" if delegated else "") if ok2 else "the layer name is a constant / carries no content token", model=None if ok2 else {"function": c["func"], "line": node.lineno, "name_expr": text}))
            if not inline_tok:
                continue
            # T3: payload ingredients
            payload = set()
            for a in node.args:
                payload |= names_in(a)
            for k in node.keywords:
                if k.arg != "name":
                    payload |= names_in(k.value)
            need = du.param_closure(payload)
            have = du.must_cover(covering) | set(c.get("irrelevant", {}))
            missing = sorted(need - have)
            out.append(dict(name=f"T3.{site}", ok=not missing, function=c["func"], text=f"line {node.lineno}: every parameter the payload of layer `{text}` depends on is covered by its token ({sorted(covering)}) or listed as value-irrelevant",
                            detail="" if not missing else f"payload depends on parameter(s) {missing} that the token does not cover", model=None if not missing else {"function": c["func"], "line": node.lineno, "uncovered": missing}))
        # dict-literal layers:  {(name, ...): task}
        for node in ast.walk(fn):
            if isinstance(node, (ast.Assign, ast.AnnAssign)) and isinstance(node.value, (ast.Dict, ast.DictComp)):
                keynode = node.value.key if isinstance(node.value, ast.DictComp) else (node.value.keys[0] if node.value.keys else None)
                if keynode is None or not isinstance(keynode, (ast.Tuple, ast.BinOp)):
                    continue
                first = keynode.elts[0] if isinstance(keynode, ast.Tuple) else (keynode.left.elts[0] if isinstance(keynode.left, ast.Tuple) and keynode.left.elts else None)
                if not isinstance(first, ast.Name):
                    continue
                nm = first.id
                if nm not in token_vars and nm not in du.deps:
                    continue
                nsite += 1
                covering = set(token_vars.get(nm, set()))
                for s_ in du.deps.get(nm, ()):  # name = f"reshape-{reduced.name}"
                    if s_ in du.params or s_ in du.deps:
                        pass
                name_assign = None
                for n2 in ast.walk(fn):
                    if isinstance(n2, ast.Assign) and len(n2.targets) == 1 and isinstance(n2.targets[0], ast.Name) and n2.targets[0].id == nm:
                        name_assign = n2.value
                dep_cover = set()
                if name_assign is not None:
                    for sub in ast.walk(name_assign):
                        if isinstance(sub, ast.Attribute) and sub.attr == "name" and isinstance(sub.value, ast.Name):
                            dep_cover.add(sub.value.id)
                ok2 = bool(covering or dep_cover)
                site = f"{c['func']}.dict#{nsite}"
                out.append(dict(name=f"T2.{site}", ok=ok2, function=c["func"], text=f"line {node.lineno}: hand-built layer keyed by `{nm}` has a content-derived name", detail="" if ok2 else "name carries no token", model=None if ok2 else {"function": c["func"], "line": node.lineno}))
                payload = names_in(node.value) - {nm}
                need = du.param_closure(payload)
                have = du.must_cover(covering | dep_cover) | set(c.get("irrelevant", {}))
                missing = sorted(need - have)
                out.append(dict(name=f"T3.{site}", ok=not missing, function=c["func"], text=f"line {node.lineno}: payload of the hand-built layer `{nm}` depends only on what its name covers ({sorted(covering | dep_cover)})",
                                detail="" if not missing else f"payload depends on parameter(s) {missing} not covered by the name", model=None if not missing else {"function": c["func"], "line": node.lineno, "uncovered": missing}))
        # layers filled by subscript stores:  layer[(name, *idx)] = task
        for node in ast.walk(fn):
            if isinstance(node, ast.Assign) and len(node.targets) == 1 and isinstance(node.targets[0], ast.Subscript) and isinstance(node.targets[0].slice, ast.Tuple) and node.targets[0].slice.elts and isinstance(node.targets[0].slice.elts[0], ast.Name):
                nm = node.targets[0].slice.elts[0].id
                name_assign = None
                for n2 in ast.walk(fn):
                    if isinstance(n2, ast.Assign) and len(n2.targets) == 1 and isinstance(n2.targets[0], ast.Name) and n2.targets[0].id == nm:
                        name_assign = n2.value
                if name_assign is None:
                    continue
                nsite += 1
                dep_cover = set(token_vars.get(nm, set()))
                for sub in ast.walk(name_assign):
                    if isinstance(sub, ast.Attribute) and sub.attr == "name" and isinstance(sub.value, ast.Name):
                        dep_cover.add(sub.value.id)
                    if id(sub) in tokens:
                        dep_cover |= tokens[id(sub)]
                ok2 = bool(dep_cover)
                site = f"{c['func']}.store#{nsite}"
                out.append(dict(name=f"T2.{site}", ok=ok2, function=c["func"], text=f"line {node.lineno}: hand-built layer keyed by `{nm}` = `{ast.unparse(name_assign)}` has a content-derived name", detail="" if ok2 else "name carries no token", model=None if ok2 else {"function": c["func"], "line": node.lineno}))
                payload = names_in(node.value) | (names_in(node.targets[0].slice) - {nm})
                need = du.param_closure(payload)
                have = du.param_closure(dep_cover) | set(c.get("irrelevant", {}))
                missing = sorted(need - have)
                out.append(dict(name=f"T3.{site}", ok=not missing, function=c["func"], text=f"line {node.lineno}: payload of the hand-built layer `{nm}` depends only on what its name covers ({sorted(dep_cover)})",
                                detail="" if not missing else f"payload depends on parameter(s) {missing} not covered by the name", model=None if not missing else {"function": c["func"], "line": node.lineno, "uncovered": missing}))
    return out


def tokenize_fields(repo):
    """T1: attributes assigned on Aggregation objects vs the tuple returned by __dask_tokenize__."""
    tree = ast.parse(open(os.path.join(repo, "flox/aggregations.py")).read())
    cls = None
    for n in tree.body:
        if isinstance(n, ast.ClassDef) and n.name == "Aggregation":
            cls = n
    tok = None
    assigned = {}
    if cls is not None:
        for f in cls.body:
            if isinstance(f, ast.FunctionDef) and f.name == "__dask_tokenize__":
                for r in ast.walk(f):
                    if isinstance(r, ast.Return) and isinstance(r.value, ast.Tuple):
                        tok = {x.attr for x in r.value.elts if isinstance(x, ast.Attribute) and isinstance(x.value, ast.Name) and x.value.id == "self"}
            if isinstance(f, ast.FunctionDef) and f.name == "__init__":
                for a in ast.walk(f):
                    if isinstance(a, (ast.Assign, ast.AnnAssign)):
                        for t in (a.targets if isinstance(a, ast.Assign) else [a.target]):
                            if isinstance(t, ast.Attribute) and isinstance(t.value, ast.Name) and t.value.id == "self":
                                assigned[t.attr] = a.lineno
    for n in tree.body:
        if isinstance(n, ast.FunctionDef) and n.name == "_initialize_aggregation":
            for a in ast.walk(n):
                if isinstance(a, (ast.Assign, ast.AugAssign)):
                    for t in (a.targets if isinstance(a, ast.Assign) else [a.target]):
                        inner = t
                        while isinstance(inner, ast.Subscript):
                            inner = inner.value
                        if isinstance(inner, ast.Attribute) and isinstance(inner.value, ast.Name) and inner.value.id == "agg":
                            assigned.setdefault(inner.attr, a.lineno)
    return tok, assigned
