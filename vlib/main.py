"""CLI: ./check <PID> [--tier quick|thorough] [--replay file]"""

from __future__ import annotations

import argparse
import importlib
import json
import os
import sys
import traceback

if os.environ.get("VERIF_REPO"):
    # run the checks against another tree (scratch worktrees with a seeded change)
    sys.path.insert(0, os.environ["VERIF_REPO"])
    os.environ["PYTHONPATH"] = os.environ["VERIF_REPO"] + os.pathsep + os.environ.get("PYTHONPATH", "")

from . import core


def main(argv=None) -> int:
    ap = argparse.ArgumentParser()
    ap.add_argument("pid")
    ap.add_argument("--tier", default=os.environ.get("VERIF_TIER", "quick"))
    ap.add_argument("--replay", default=None)
    ap.add_argument("--only", default=None, help="proof|bounded (development aid; evidence is still written)")
    args = ap.parse_args(argv)
    tier = "thorough" if args.tier == "thorough" else "quick"
    pid = args.pid
    try:
        mod = importlib.import_module(f"vlib.props.{pid}")
    except ModuleNotFoundError:
        print(f"no check for property {pid}", file=sys.stderr)
        return 3
    if args.replay:
        with open(args.replay) as f:
            payload = json.load(f)
        return mod.replay(payload)
    ctx = core.Ctx(pid, tier)
    ctx.only = args.only
    try:
        level, explanation = mod.run(ctx)
    except Exception as e:  # the checker itself crashed: exit 3, never a violation
        traceback.print_exc()
        ctx.fail_checker(f"checker crashed: {type(e).__name__}: {e}")
        level, explanation = "other", "checker crashed"
    cmd = f"./check {pid} --tier {tier}"
    return core.finish(ctx, level, explanation, cmd)


if __name__ == "__main__":
    sys.exit(main())
