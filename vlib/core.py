"""Run-time core of the verification machinery: context, verdict protocol, evidence, known findings.

Verdict protocol (DESIGN.md §2.8):
  exit 0  property held on everything decided (known findings printed as KNOWN-FINDING lines)
  exit 1  violation (a VIOLATION line per violated property)
  exit 2  undecided (solver unknown / timeout on a proof obligation that has no bounded stand-in)
  exit 3  checker failure (extraction failed, obligation lock mismatch, canary not refuted, ...)
Only 0 and 1 are verdicts.
"""

from __future__ import annotations

import dataclasses
import hashlib
import json
import os
import sys
import time
import traceback
from typing import Any, Callable, Iterable

ROOT = os.path.dirname(os.path.dirname(os.path.abspath(__file__)))
REPO = os.environ.get("VERIF_REPO", "/repo")
# development aid: VERIF_OUT redirects run outputs (used when a check is pointed at a scratch tree with VERIF_REPO)
OUT = os.path.join(os.environ["VERIF_OUT"], "out") if os.environ.get("VERIF_OUT") else os.path.join(ROOT, "out")
EVIDENCE_DIR = os.path.join(os.environ["VERIF_OUT"], "evidence") if os.environ.get("VERIF_OUT") else os.path.join(ROOT, "evidence")
KNOWN_FINDINGS = os.path.join(ROOT, "known_findings.json")
LOCK = os.path.join(ROOT, "obligations.lock.json")

NCPU = max(1, min(16, os.cpu_count() or 1))


def seed() -> int:
    try:
        return int(os.environ.get("VERIF_SEED", "0"))
    except ValueError:
        return 0


# ----------------------------------------------------------------------------------------------
# obligations (proof side)
# ----------------------------------------------------------------------------------------------

DISCHARGED = "discharged"
VIOLATED = "violated"  # solver produced a counter-model (sat)
UNDECIDED = "undecided"  # unknown / timeout
ERROR = "error"  # the engine itself failed on this obligation


@dataclasses.dataclass
class Obligation:
    name: str  # e.g. C17.opt.sum  (property-prefixed, stable id)
    function: str  # qualified name of the in-repo function the obligation is generated from
    status: str
    backend: str = ""  # z3 | cvc5 | framecheck-syntactic | enumeration
    seconds: float = 0.0
    formula: str = ""  # short human-readable statement
    detail: str = ""  # solver output / counter-model / reason
    model: Any = None  # concretised counter-model (JSON-able) when there is one
    kind: str = "vc"  # vc | canary | cover | consistency | frame | table


# ----------------------------------------------------------------------------------------------
# bounded stand-ins (RTC side)
# ----------------------------------------------------------------------------------------------


@dataclasses.dataclass
class BoundedPart:
    name: str
    function: str
    bound: str  # the stated bound
    evaluations: int = 0
    distinct_nontrivial: int = 0
    failures: list = dataclasses.field(default_factory=list)  # list of dict(case=..., why=...)
    samples: list = dataclasses.field(default_factory=list)
    seconds: float = 0.0
    exhaustive: bool = False
    rule: str = ""
    extra: dict = dataclasses.field(default_factory=dict)


class CheckerFailure(Exception):
    pass


def jsonable(x):
    import numpy as np

    if isinstance(x, dict):
        return {str(k): jsonable(v) for k, v in x.items()}
    if isinstance(x, (list, tuple, set, frozenset)):
        return [jsonable(v) for v in x]
    if isinstance(x, np.ndarray):
        return jsonable(x.tolist())
    if isinstance(x, (np.integer,)):
        return int(x)
    if isinstance(x, (np.floating,)):
        x = float(x)
    if isinstance(x, float):
        if x != x:
            return "nan"
        if x == float("inf"):
            return "inf"
        if x == float("-inf"):
            return "-inf"
        return x
    if isinstance(x, (np.bool_,)):
        return bool(x)
    if isinstance(x, (str, int, bool)) or x is None:
        return x
    return repr(x)


class Ctx:
    def __init__(self, pid: str, tier: str):
        self.pid = pid
        self.tier = tier
        self.seed = seed()
        self.t0 = time.time()
        self.obligations: list[Obligation] = []
        self.bounded: list[BoundedPart] = []
        self.functions_under_contract: dict[str, str] = {}  # qualified name -> level (proved|bounded|assumed)
        self.assumptions: list[str] = []
        self.trusted: list[str] = []
        self.notes: list[str] = []
        self.checker_failures: list[str] = []
        self.na_subclaims: list[str] = []

    # -- registration helpers
    def assume(self, *texts: str):
        for t in texts:
            if t not in self.assumptions:
                self.assumptions.append(t)

    def trust(self, *texts: str):
        for t in texts:
            if t not in self.trusted:
                self.trusted.append(t)

    def under_contract(self, fn: str, level: str):
        order = {"assumed": 0, "bounded": 1, "proved": 2}
        cur = self.functions_under_contract.get(fn)
        if cur is None or order[level] > order[cur]:
            self.functions_under_contract[fn] = level

    def add_obligations(self, obs: Iterable[Obligation]):
        for o in obs:
            self.obligations.append(o)

    def add_bounded(self, part: BoundedPart):
        self.bounded.append(part)

    def fail_checker(self, msg: str):
        self.checker_failures.append(msg)

    @property
    def quick(self) -> bool:
        return self.tier != "thorough"


# ----------------------------------------------------------------------------------------------
# known findings
# ----------------------------------------------------------------------------------------------


def load_known_findings() -> list[dict]:
    if not os.path.exists(KNOWN_FINDINGS):
        return []
    with open(KNOWN_FINDINGS) as f:
        return json.load(f).get("findings", [])


def _match_region(region: dict, sig: dict) -> bool:
    """A region is a dict field -> value | list of allowed values | {"not": ...}; every field must match."""
    for k, want in region.items():
        have = sig.get(k, None)
        if isinstance(want, dict) and "not" in want:
            w = want["not"]
            if (have in w) if isinstance(w, list) else (have == w):
                return False
        elif isinstance(want, list):
            if have not in want:
                return False
        else:
            if have != want:
                return False
    return True


def classify_failure(pid: str, sig: dict, findings: list[dict]):
    """Return the known finding (status == 'known') whose region contains this failure signature, or None."""
    for f in findings:
        if f.get("status") != "known":
            continue
        if pid not in f.get("properties", []) and "*" not in f.get("properties", []):
            continue
        for region in f.get("regions", []):
            if _match_region(region, sig):
                return f
    return None


# ----------------------------------------------------------------------------------------------
# finishing: evidence + verdict
# ----------------------------------------------------------------------------------------------


def _write_replay(pid: str, idx: int, payload: dict) -> str:
    os.makedirs(os.path.join(OUT, "replay"), exist_ok=True)
    h = hashlib.sha1(json.dumps(jsonable(payload), sort_keys=True).encode()).hexdigest()[:10]
    path = os.path.join(OUT, "replay", f"{pid}-{idx}-{h}.json")
    with open(path, "w") as f:
        json.dump(jsonable(payload), f, indent=1, sort_keys=True)
    return path


def finish(ctx: Ctx, level: str, explanation: str, checker_cmd: str) -> int:
    findings = load_known_findings()
    violations: list[dict] = []
    known_hits: dict[str, dict] = {}
    undecided: list[str] = []

    locked = set()
    if os.path.exists(LOCK):
        try:
            with open(LOCK) as f:
                locked = set(json.load(f).get(ctx.pid, []))
        except Exception:
            locked = set()
    # proof side
    extract_lost: set = set()
    n_ob = 0
    n_dis = 0
    per_backend: dict[str, dict] = {}
    for o in ctx.obligations:
        if o.kind in ("canary", "cover", "consistency"):
            # meta-obligations: they must come back as expected, else checker failure
            if o.status != DISCHARGED:
                ctx.fail_checker(f"meta-obligation {o.name} ({o.kind}) failed: {o.status} {o.detail[:200]}")
            continue
        n_ob += 1
        b = per_backend.setdefault(o.backend or "?", {"obligations": 0, "discharged": 0, "seconds": 0.0})
        b["obligations"] += 1
        b["seconds"] += o.seconds
        if o.status == DISCHARGED:
            n_dis += 1
            b["discharged"] += 1
        elif o.status == VIOLATED:
            sig = {"obligation": o.name, "function": o.function}
            if isinstance(o.model, dict):
                sig.update({k: v for k, v in o.model.items() if isinstance(v, (str, int, bool, float)) or v is None})
            kf = classify_failure(ctx.pid, sig, findings)
            if kf is not None:
                known_hits.setdefault(kf["id"], kf)
                # relativised: counts as discharged-under-known-finding, not as discharged
            else:
                violations.append(
                    {
                        "kind": "obligation",
                        "obligation": o.name,
                        "function": o.function,
                        "formula": o.formula,
                        "solver_output": o.detail,
                        "model": o.model,
                        "replayed_input": o.model is not None and bool(getattr(o, "replayed", False)),
                    }
                )
        elif o.status == UNDECIDED:
            if o.name in locked:
                # proved on the unchanged tree (obligations.lock.json), not provable now: reported as a violation of the
                # named obligation with the solver's output; no failing input was found
                violations.append({"kind": "obligation", "obligation": o.name, "function": o.function, "formula": o.formula,
                                   "solver_output": o.detail or "solver: unknown / timeout", "model": None, "replayed_input": False,
                                   "note": "obligation recorded as discharged in obligations.lock.json is no longer discharged"})
            else:
                undecided.append(o.name)
        else:
            prefix = o.name[: -len(".extract")] if o.name.endswith(".extract") else None
            lost = sorted(n for n in locked if prefix and n.startswith(prefix + ".")) if prefix else []
            if lost:
                # the function was under contract on the unchanged tree (its obligations are in obligations.lock.json) and can
                # no longer be brought under it: the named obligations are not discharged any more -> reported as a violation
                # of the first of them, with the engine's reason; no failing input was found
                extract_lost.update(lost)
                violations.append({"kind": "obligation", "obligation": lost[0], "function": o.function, "formula": o.formula,
                                   "solver_output": f"the function left the verified subset: {o.detail[:500]}", "model": None, "replayed_input": False,
                                   "note": f"{len(lost)} obligations of this contract recorded as discharged in obligations.lock.json could not be generated"})
            else:
                ctx.fail_checker(f"obligation {o.name}: engine error: {o.detail[:300]}")

    # bounded side
    evaluations = 0
    distinct = 0
    bounded_summ = []
    samples: list = []
    for p in ctx.bounded:
        evaluations += p.evaluations
        distinct += p.distinct_nontrivial
        fails_unknown = []
        for fl in p.failures:
            sig = dict(fl.get("sig", {}))
            sig.setdefault("part", p.name)
            kf = classify_failure(ctx.pid, sig, findings)
            if kf is not None:
                known_hits.setdefault(kf["id"], kf)
            else:
                fails_unknown.append(fl)
        for fl in fails_unknown[:5]:
            violations.append({"kind": "bounded", "part": p.name, "function": p.function, **fl})
        bounded_summ.append(
            {
                "part": p.name,
                "function": p.function,
                "bound": p.bound,
                "evaluations": p.evaluations,
                "distinct_nontrivial": p.distinct_nontrivial,
                "failures_not_known": len(fails_unknown),
                "failures_known": len(p.failures) - len(fails_unknown),
                "seconds": round(p.seconds, 2),
                "exhaustive_within_bound": p.exhaustive,
                "rule": p.rule,
                **p.extra,
            }
        )
        samples.extend(p.samples[:2])

    ob_samples = [
        {"obligation": o.name, "function": o.function, "status": o.status, "backend": o.backend, "statement": o.formula[:400]}
        for o in ctx.obligations
        if o.kind not in ("canary", "cover", "consistency")
    ][:6]
    meta_counts = {}
    for o in ctx.obligations:
        if o.kind in ("canary", "cover", "consistency"):
            meta_counts[o.kind] = meta_counts.get(o.kind, 0) + 1

    # vacuity guard: a property check with neither obligations nor evaluations is a checker failure
    if n_ob == 0 and evaluations == 0:
        ctx.fail_checker("no obligations generated and no bounded evaluations run")

    # lock: obligations that were recorded as proved must still exist
    lock_note = ""
    if os.path.exists(LOCK):
        with open(LOCK) as f:
            lock = json.load(f).get(ctx.pid, None)
        if lock is not None and not getattr(ctx, "only", None):
            have = {o.name for o in ctx.obligations if o.kind not in ("canary", "cover", "consistency")}
            missing = sorted(set(lock) - have - extract_lost)
            if missing:
                ctx.fail_checker(f"obligations recorded in obligations.lock.json were not generated: {missing[:8]}")
            lock_note = f"{len(lock)} locked obligation ids, all generated"

    wall = time.time() - ctx.t0
    rc = 0
    lines = []
    for kid, kf in known_hits.items():
        lines.append(f"KNOWN-FINDING: property={ctx.pid} {kid}: {kf['summary']}")
    replay_paths = []
    if violations:
        rc = 1
        for i, v in enumerate(violations[:10]):
            path = _write_replay(ctx.pid, i, {"property": ctx.pid, **v})
            replay_paths.append(path)
            tail = ""
            if v["kind"] == "obligation" and not v.get("replayed_input"):
                tail = " no-failing-input-found"
            lines.append(f"VIOLATION property={ctx.pid} replay={path}{tail}")
    elif ctx.checker_failures:
        rc = 3
    elif undecided:
        rc = 2

    coverage = {
        "obligations": n_ob,
        "discharged": n_dis,
        "checker_cmd": checker_cmd,
        "trusted_base": ctx.trusted,
        "evaluations": evaluations,
        "distinct_nontrivial": distinct,
        "rule": "; ".join(sorted({p.rule for p in ctx.bounded if p.rule}))[:2000],
        "samples": jsonable((ob_samples + samples)[:10]) or [{"note": "no samples"}],
        "explanation": explanation,
        "exhaustive": False,
        "functions_under_contract": ctx.functions_under_contract,
        "obligations_by_backend": {k: {**v, "seconds": round(v["seconds"], 3)} for k, v in per_backend.items()},
        "meta_obligations": meta_counts,
        "undecided": undecided,
        "bounded_parts": bounded_summ,
        "known_findings_hit": sorted(known_hits),
        "not_decided_by_this_family": ctx.na_subclaims,
        "checker_failures": ctx.checker_failures,
        "lock": lock_note,
        "notes": ctx.notes,
    }
    ev = {
        "property_id": ctx.pid,
        "tier": "thorough" if ctx.tier == "thorough" else "quick",
        "seed": ctx.seed,
        "level": level,
        "coverage": coverage,
        "assumptions": ctx.assumptions,
        "wall_s": round(wall, 2),
        "violations": len(violations),
    }
    os.makedirs(os.path.join(OUT, "obligations"), exist_ok=True)
    with open(os.path.join(OUT, "obligations", f"{ctx.pid}.json"), "w") as f:
        json.dump(sorted(o.name for o in ctx.obligations if o.status == DISCHARGED and o.kind not in ("canary", "cover", "consistency")), f)
    # solver times per obligation (stability audit: a slow query is an unstable one)
    os.makedirs(os.path.join(OUT, "times"), exist_ok=True)
    with open(os.path.join(OUT, "times", f"{ctx.pid}.json"), "w") as f:
        json.dump(sorted(([round(o.seconds, 2), o.name, o.backend] for o in ctx.obligations if o.seconds >= 0.5), reverse=True)[:200], f)
    os.makedirs(EVIDENCE_DIR, exist_ok=True)
    with open(os.path.join(EVIDENCE_DIR, f"{ctx.pid}.json"), "w") as f:
        json.dump(jsonable(ev), f, indent=1)
    for ln in lines:
        print(ln)
    print(
        f"[{ctx.pid}] tier={ctx.tier} obligations={n_ob} discharged={n_dis} undecided={len(undecided)} "
        f"bounded_evaluations={evaluations} violations={len(violations)} known={len(known_hits)} "
        f"checker_failures={len(ctx.checker_failures)} wall={wall:.1f}s exit={rc}"
    )
    for m in ctx.checker_failures:
        print(f"CHECKER-FAILURE: {m}", file=sys.stderr)
    for u in undecided:
        print(f"UNDECIDED: {u}", file=sys.stderr)
    return rc


def guarded(fn: Callable, ctx: Ctx, what: str):
    try:
        return fn()
    except CheckerFailure as e:
        ctx.fail_checker(f"{what}: {e}")
    except Exception as e:  # the checker crashed: never a violation
        ctx.fail_checker(f"{what}: {type(e).__name__}: {e}\n{traceback.format_exc()[-1500:]}")
    return None
