"""Axis bookkeeping helpers of flox/core.py (C08.axes): _move_reduce_dims_to_end, _collapse_axis, _squeeze_results."""

from __future__ import annotations


def run(ctx, pid="C08"):
    import vlib.pyvc.prims as P

    from ..contracts import axes as K
    from ..pyvc.run import add_to_ctx
    from . import finalize_proofs

    finalize_proofs._patch()
    orig = P.Prims.register_defaults

    def reg(self):
        orig(self)
        K.register_models(self)

    n = 0
    P.Prims.register_defaults = reg
    try:
        for c in K.all_axes():
            c.prefix = pid + c.prefix[3:]
            ex, obs = add_to_ctx(ctx, c, {})
            n += len(obs)
    finally:
        P.Prims.register_defaults = orig
    return (f"axis bookkeeping (_move_reduce_dims_to_end for every rank 1-4 and every ordered axis subset; _collapse_axis for every rank and count; _squeeze_results for trailing reduced axes with every "
            f"pattern of dummy axes; sizes symbolic): {n} obligations: kept dimensions first in their order then the reduced ones as given, sizes travel with their dimensions, the collapsed axis is the product, "
            "only dummy reduced axes but the last are squeezed.")
