def run(ctx):
    from . import frame_proofs

    return frame_proofs.run(ctx, "C14")
