def run(ctx):
    from . import frame_proofs, token_proofs

    a = frame_proofs.run(ctx, "C14")
    b = token_proofs.run(ctx, "C14")
    return a + " " + b
