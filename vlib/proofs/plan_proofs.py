"""Plan-resolution obligations shared by C19 / C02 / C09 / C18 (PyVC on the real validation code)."""

from __future__ import annotations


def run(ctx, which=("predicates", "validate_reindex", "choose_method", "get_chunk"), pid="C19"):
    from ..contracts import plan
    from ..pyvc.run import add_to_ctx

    cs = []
    if "predicates" in which:
        cs += plan.PREDICATES
    if "get_chunk" in which:
        cs += [plan.GET_CHUNK]
    if "choose_method" in which:
        cs += plan.all_choose_method()
    if "validate_reindex" in which:
        cs += plan.all_validate_reindex()
    n = 0
    for c in cs:
        c.prefix = pid + c.prefix[3:]
        ex, obs = add_to_ctx(ctx, c, plan.PLAN_CALLEES)
        n += len(obs)
    ctx.assume("strings are z3 strings; `reindex` enumerated over {None, True, False, ReindexStrategy(blockwise in {None,True,False})} with array_type AUTO (sparse back end not installed)")
    return f"plan layer: {n} obligations from _validate_reindex (48 parameter variants, all strings / flags symbolic), _choose_method, _is_* predicates, _get_chunk_reduction."
