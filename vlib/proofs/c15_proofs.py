"""C15 proof part: the xarray plumbing helpers of flox/xarray.py under contract (contracts/xrhelpers.py)."""

from __future__ import annotations


def run(ctx, pid="C15", tier="quick"):
    import vlib.pyvc.prims as P

    from ..contracts import xrhelpers as K
    from ..pyvc.run import add_to_ctx
    from . import finalize_proofs

    finalize_proofs._patch()
    orig = P.Prims.register_defaults

    def reg(self):
        orig(self)
        K.register_models(self)

    counts = {}
    P.Prims.register_defaults = reg
    try:
        for c in K.all_broadcast():
            ex, obs = add_to_ctx(ctx, c, {})
            counts["b"] = counts.get("b", 0) + len(obs)
        for c, callees in K.all_wrapper():
            ex, obs = add_to_ctx(ctx, c, callees)
            counts["w"] = counts.get("w", 0) + len(obs)
        for c in K.all_restore():
            ex, obs = add_to_ctx(ctx, c, {})
            counts["r"] = counts.get("r", 0) + len(obs)
    finally:
        P.Prims.register_defaults = orig
    ctx.add_obligations([_numpy_models_conform(K)])
    return (f"xarray plumbing helpers under contract: _broadcast_size_one_dims (core dimensions of rank 1-3 x every ordered subset as the grouper's dimensions, sizes symbolic; {counts.get('b', 0)} obligations: "
            "every grouper gets the rank of the core dimensions, the dimensions it has sit where the core dimensions are with their sizes, the ones it lacks are size-1 axes in place, the data is untouched), "
            f"xarray_reduce.wrapper (reduction names x skipna None/True/False x dtype kinds; {counts.get('w', 0)} obligations: the documented skipna table decides the reduction name, ValueError exactly for skipna with all/any/count, "
            "one groupby_reduce on the broadcast array and groupers with the caller's keyword arguments, a vector quantile axis is moved last), "
            f"_restore_dim_order (inputs of rank 1-3 x the grouped dimension x orders of the delivered dims x new dims x no_groupby_reorder; {counts.get('r', 0)} obligations: input dimensions in input order, "
            "group dimension in place of the grouped one, new dimensions last).")


def _numpy_models_conform(K):
    """conformance of the ASSUMED contracts the helper proofs rest on: the models of np.expand_dims / np.moveaxis(a, 0, -1) /
    ndarray.transpose used by PyVC, instantiated on concrete shapes (pairwise different sizes, rank <= 3), against NumPy itself"""
    import itertools
    import time

    import numpy as np

    from ..core import DISCHARGED, VIOLATED, Obligation
    from ..contracts.axes import Arr

    class _Ex:  # the models' side obligations are not of interest here
        def oblige(self, *a, **k):
            return True

        def _name(self, *a, **k):
            return "conformance"

    class _Node:
        lineno = 0

    t0 = time.time()
    bad, n = None, 0
    sizes = (2, 3, 5)
    for r in range(0, 4):
        a = np.zeros(sizes[:r])
        model_in = Arr(list(sizes[:r]), list(range(r)))
        for k in range(0, 4 - r + 1):
            for axes in itertools.permutations(range(r + k), k):
                for neg in (False, True):
                    ax = [x - (r + k) for x in axes] if neg else list(axes)
                    if not ax:
                        continue
                    n += 1
                    want = np.expand_dims(a, tuple(ax)).shape
                    got = K.m_expand_dims(_Ex(), None, [model_in, ax], {}, _Node())
                    if tuple(got.shape) != tuple(want):
                        bad = dict(function="np.expand_dims", shape=list(sizes[:r]), axis=ax, numpy=list(want), model=list(got.shape))
        if r >= 1:
            n += 1
            got = K.m_moveaxis(_Ex(), None, [model_in, 0, -1], {}, _Node())
            if tuple(got.shape) != np.moveaxis(a, 0, -1).shape:
                bad = dict(function="np.moveaxis", shape=list(sizes[:r]))
            for order in itertools.permutations(range(r)):
                n += 1
                got = model_in.pyvc_method(_Ex(), None, "transpose", list(order), {}, _Node(), None)
                if tuple(got.shape) != a.transpose(*order).shape:
                    bad = dict(function="ndarray.transpose", shape=list(sizes[:r]), order=list(order))
    return Obligation(name="C15.conformance.numpy_axis_models", function="numpy.expand_dims / numpy.moveaxis / ndarray.transpose", status=DISCHARGED if bad is None else VIOLATED, backend="enumeration", seconds=time.time() - t0, kind="table",
                      formula="the PyVC models of np.expand_dims (any axes, negative forms), np.moveaxis(a, 0, -1) and transpose give NumPy's result shape for every rank <= 3 (sizes pairwise different)",
                      detail=f"{n} calls compared" if bad is None else f"model differs from NumPy: {bad}", model=bad)
