def run(ctx):
    return ""
