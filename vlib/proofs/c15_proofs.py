"""C15 proof part: the xarray plumbing helpers of flox/xarray.py under contract (contracts/xrhelpers.py)."""

from __future__ import annotations


def run(ctx, pid="C15", tier="quick"):
    import vlib.pyvc.prims as P

    from ..contracts import xrhelpers as K
    from ..pyvc.run import add_to_ctx
    from . import finalize_proofs

    finalize_proofs._patch()
    orig = P.Prims.register_defaults

    def reg(self):
        orig(self)
        K.register_models(self)

    counts = {}
    P.Prims.register_defaults = reg
    try:
        for c in K.all_broadcast():
            ex, obs = add_to_ctx(ctx, c, {})
            counts["b"] = counts.get("b", 0) + len(obs)
        for c, callees in K.all_wrapper():
            ex, obs = add_to_ctx(ctx, c, callees)
            counts["w"] = counts.get("w", 0) + len(obs)
        for c in K.all_restore():
            ex, obs = add_to_ctx(ctx, c, {})
            counts["r"] = counts.get("r", 0) + len(obs)
    finally:
        P.Prims.register_defaults = orig
    return (f"xarray plumbing helpers under contract: _broadcast_size_one_dims (core dimensions of rank 1-3 x every ordered subset as the grouper's dimensions, sizes symbolic; {counts.get('b', 0)} obligations: "
            "every grouper gets the rank of the core dimensions, the dimensions it has sit where the core dimensions are with their sizes, the ones it lacks are size-1 axes in place, the data is untouched), "
            f"xarray_reduce.wrapper (reduction names x skipna None/True/False x dtype kinds; {counts.get('w', 0)} obligations: the documented skipna table decides the reduction name, ValueError exactly for skipna with all/any/count, "
            "one groupby_reduce on the broadcast array and groupers with the caller's keyword arguments, a vector quantile axis is moved last), "
            f"_restore_dim_order (inputs of rank 1-3 x the grouped dimension x orders of the delivered dims x new dims x no_groupby_reorder; {counts.get('r', 0)} obligations: input dimensions in input order, "
            "group dimension in place of the grouped one, new dimensions last).")
