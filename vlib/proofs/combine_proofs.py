"""_simple_combine / _aggregate protocol obligations (C02.combine_protocol, C03)."""

from __future__ import annotations


def run(ctx, pid="C02"):
    import vlib.pyvc.prims as P

    from ..contracts import simplecombine as K
    from ..pyvc.run import add_to_ctx
    from . import finalize_proofs

    finalize_proofs._patch()
    n = 0
    from ..contracts import groupedcombine as GC

    for c, callees, models in list(K.all_simple_combine()) + list(GC.all_grouped_combine()):
        c.prefix = pid + c.prefix[3:]
        orig = P.Prims.register_defaults

        def reg(self, orig=orig, models=models):
            orig(self)
            models(self)

        P.Prims.register_defaults = reg
        try:
            ex, obs = add_to_ctx(ctx, c, callees)
        finally:
            P.Prims.register_defaults = orig
        n += len(obs)
    return (f" _simple_combine (reindex at the blockwise step or here x inner / final step x 1 / 2 intermediates), _aggregate and _grouped_combine: {n} obligations: every block re-indexed to the groups found over all "
            "blocks before combining, slot i reduced by combine function i over slot i of all blocks along the dummy axis, that axis squeezed only at the final step, the final step finalizes what the combine returned; "
            "_grouped_combine (ordinary reductions with 1 / 2 intermediates and axes, arg-reductions with / without the counter, a single block): labels and every slot concatenated over all (re-indexed) blocks, slot i re-grouped by "
            "those labels with combine / fill / dtype i, value-position pairs re-grouped together by one chunk_argreduce, the counter summed separately.")
