"""_simple_combine / _aggregate protocol obligations (C02.combine_protocol, C03)."""

from __future__ import annotations


def run(ctx, pid="C02"):
    import vlib.pyvc.prims as P

    from ..contracts import simplecombine as K
    from ..pyvc.run import add_to_ctx
    from . import finalize_proofs

    finalize_proofs._patch()
    n = 0
    for c, callees, models in K.all_simple_combine():
        c.prefix = pid + c.prefix[3:]
        orig = P.Prims.register_defaults

        def reg(self, orig=orig, models=models):
            orig(self)
            models(self)

        P.Prims.register_defaults = reg
        try:
            ex, obs = add_to_ctx(ctx, c, callees)
        finally:
            P.Prims.register_defaults = orig
        n += len(obs)
    return (f" _simple_combine (reindex at the blockwise step or here x inner / final step x 1 / 2 intermediates) and _aggregate: {n} obligations: every block re-indexed to the groups found over all "
            "blocks before combining, slot i reduced by combine function i over slot i of all blocks along the dummy axis, that axis squeezed only at the final step, the final step finalizes what the combine returned.")
