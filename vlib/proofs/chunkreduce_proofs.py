"""chunk_reduce wiring obligations (C01.block, C05.dropped)."""

from __future__ import annotations


def run(ctx, pid):
    from ..contracts import chunkreduce as CR
    from ..pyvc.run import add_to_ctx
    from . import finalize_proofs

    finalize_proofs._patch()
    n = 0
    for c, callees in CR.all_chunk_reduce():
        c.prefix = pid + c.prefix[3:]
        ex, obs = add_to_ctx(ctx, c, callees)
        n += len(obs)
    return f"chunk_reduce on a 1-D block (engine numpy, 1-2 reductions, reindex / expected_groups variants): {n} obligations (labels factorized once with the requested groups, the kernels get the codes with room for every slot, the sentinel slot of missing labels never reaches the block result)."
