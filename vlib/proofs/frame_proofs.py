"""Frame / purity obligations (W-sites, R-sites) for C13 and C14, by FrameCheck on the real source."""

from __future__ import annotations

import os
import time

from ..core import DISCHARGED, ERROR, REPO, VIOLATED, Obligation

TASK_MODULES = ("core", "aggregations", "aggregate_flox", "aggregate_npg", "aggregate_numbagg", "xrutils", "xrdtypes", "dask_array_ops")
API_EXTRA = ("xarray", "cache", "lib")


def run(ctx, pid):
    from ..contracts import frames as F
    from ..framecheck.frames import Analyzer

    t0 = time.time()
    repo = os.environ.get("VERIF_REPO", REPO)
    mods = TASK_MODULES if pid == "C13" else TASK_MODULES + API_EXTRA
    try:
        an = Analyzer(repo, modules=mods)
        an.overrides = F.OVERRIDES
        sites = an.run()
    except Exception as e:
        ctx.add_obligations([Obligation(name=f"{pid}.W.extract", function="flox/*.py", status=ERROR, backend="framecheck", formula="alias analysis of the package", detail=f"{type(e).__name__}: {e}")])
        return "FrameCheck failed to analyse the sources"
    obs = []
    counts = {}
    nonfresh = 0
    for (m, f), ss in sorted(sites.items()):
        allowed = {"param:" + p for p in F.MODIFIES.get((m, f), {})}
        for s in ss:
            key = f"{m}.{f}[{s.text[:50]}]"
            counts[key] = counts.get(key, 0) + 1
            name = f"{pid}.W.{key}#{counts[key]}"
            exempt = F.EXEMPT.get((m, f, s.text))
            ok = s.roots <= allowed or exempt is not None
            if s.roots:
                nonfresh += 1
            why = "target allocated in this activation" if not s.roots else (f"target {sorted(s.roots)} covered by modifies clause" if s.roots <= allowed else (f"reviewed exemption: {exempt}" if exempt else ""))
            obs.append(Obligation(
                name=name, function=f"flox.{m}.{f}", status=DISCHARGED if ok else VIOLATED, backend="framecheck-syntactic", kind="frame",
                formula=f"write site line {s.lineno} ({s.how}): `{s.text}` targets a buffer allocated in the same activation or named in modifies({f})",
                detail=why if ok else f"the written object may share memory with {sorted(s.roots)} (not allocated here, not in the modifies clause)",
                model=None if ok else {"function": f"{m}.{f}", "line": s.lineno, "target": s.text, "may_alias": sorted(s.roots)},
            ))
    # R-sites: mutable module globals are read only by the listed accessors
    robs = read_sites(an, pid)
    obs.extend(robs)
    # the override for generic_aggregate rests on this fact about the real registry
    try:
        from flox.aggregations import AGGREGATIONS

        names = set()
        for k, v in AGGREGATIONS.items():
            for attr in ("numpy", "chunk", "combine", "scan", "reduction"):
                x = getattr(v, attr, None)
                for y in (x if isinstance(x, (tuple, list)) else (x,)):
                    if isinstance(y, str):
                        names.add(y)
        ok = "identity" not in names
        obs.append(Obligation(name=f"{pid}.W.registry_has_no_identity", function="flox.aggregations.AGGREGATIONS", status=DISCHARGED if ok else VIOLATED, backend="enumeration", kind="frame",
                              formula="no registry blueprint names the pass-through kernel 'identity' (premise of the summary override for generic_aggregate)", detail="" if ok else "a blueprint uses 'identity'"))
    except Exception as e:
        obs.append(Obligation(name=f"{pid}.W.registry_has_no_identity", function="flox.aggregations.AGGREGATIONS", status=ERROR, backend="enumeration", formula="registry import", detail=str(e)))
    if pid == "C13":
        obs.extend(pickle_sites(an))
    ctx.add_obligations(obs)
    # replay: a violated write site is confirmed by the read-only executor of C13's bounded part
    if any(o.status == VIOLATED for o in obs):
        hit = replay_with_readonly_inputs(ctx)
        for o in obs:
            if o.status == VIOLATED and hit is not None:
                o.replayed = True
                o.model = {**(o.model or {}), "case": hit["case"]}
                o.detail += " | confirmed on the real code: " + hit["why"][:300]
    for (m, f), d in F.MODIFIES.items():
        for p, why in d.items():
            ctx.assume(f"modifies({m}.{f}) = {{{p}}}: {why}")
    for k, v in F.OVERRIDES.items():
        ctx.assume(f"summary override {k[0]}.{k[1]}: {v['why']}")
    for k, v in F.EXEMPT.items():
        ctx.assume(f"exempted write site {k[0]}.{k[1]} `{k[2]}`: {v}")
    for u in sorted(an.unknown_calls):
        ctx.assume(f"call through a variable assumed to return a fresh value and not to write its arguments: {u}")
    ctx.trust("FrameCheck's table of view-returning vs copy-returning numpy operations (reviewed; exercised by the read-only executor)")
    for (m, f) in sites:
        ctx.under_contract(f"flox.{m}.{f}", "proved")
    return f"FrameCheck: {len(obs)} frame obligations over {sum(len(mod.funcs) for mod in an.mods.values())} functions ({nonfresh} write sites target non-fresh objects, all covered by modifies clauses) in {time.time() - t0:.1f}s."


def read_sites(an, pid):
    """R-sites: loads of mutable module-level objects (AGGREGATIONS, cache) inside functions."""
    import ast

    allowed = {
        ("aggregations", "_initialize_aggregation", "AGGREGATIONS"): "reads the registry and deep-copies the entry before specialising it",
        ("core", "groupby_scan", "AGGREGATIONS"): "reads the registry and deep-copies the entry",
    }
    obs = []
    for mname, mod in an.mods.items():
        # registries of mutable objects; plain constant tables (CAST_TO, DEFAULT_FILL_VALUE, ...) are covered by the
        # W-site rule alone: any write through a module global has a `global:` root and no modifies clause allows it
        glob = set(mod.globals_mutable) & {"AGGREGATIONS", "cache"}
        for imp, (m, orig) in mod.imports.items():
            mm = m.split(".")[-1]
            if mm in an.mods and orig in an.mods[mm].globals_mutable and orig in ("AGGREGATIONS", "cache"):
                glob.add(imp)
        for fname, fn in mod.funcs.items():
            local = {a.arg for a in fn.args.args + fn.args.kwonlyargs}
            for node in ast.walk(fn):
                if isinstance(node, ast.Name) and isinstance(node.ctx, ast.Load) and node.id in glob and node.id not in local:
                    ok = (mname, fname, node.id) in allowed
                    # deepcopy / equality comparison only
                    obs.append(Obligation(
                        name=f"{pid}.R.{mname}.{fname}[{node.id}]#{node.lineno - fn.lineno}", function=f"flox.{mname}.{fname}", status=DISCHARGED if ok else VIOLATED, backend="framecheck-syntactic", kind="frame",
                        formula=f"line {node.lineno}: read of the mutable module global {node.id} only inside a listed accessor that copies before use",
                        detail=allowed.get((mname, fname, node.id), "read of a mutable global outside the accessor list"),
                        model=None if ok else {"function": f"{mname}.{fname}", "global": node.id, "line": node.lineno},
                    ))
    return obs


def replay_with_readonly_inputs(ctx):
    from ..props import C13

    cases = C13.bounded_cases(ctx)[:300]
    for c in cases:
        try:
            r = C13.check(c)
        except Exception:
            r = None
        if r is not None and ("writes into" in r["why"] or "modified its inputs" in r["why"]):
            return r
    return None


GRAPH_BUILDERS = [("core", "dask_groupby_agg"), ("core", "subset_to_blocks"), ("core", "_extract_unknown_groups"), ("core", "_collapse_blocks_along_axes"), ("core", "dask_groupby_scan"),
                  ("core", "_factorize_multiple"), ("aggregations", "argreduce_preprocess"), ("dask_array_ops", "partial_reduce"), ("dask_array_ops", "_tree_reduce")]


def pickle_sites(an):
    """P-sites: callables that graph-building functions put into tasks are module-level functions, partials /
    compositions of them, or nested defs without free variables (so tasks pickle by reference)."""
    import ast
    import builtins

    obs = []
    for m, f in GRAPH_BUILDERS:
        mod = an.mods.get(m)
        fn = mod.funcs.get(f) if mod else None
        if fn is None:
            obs.append(Obligation(name=f"C13.P.{m}.{f}.extract", function=f"flox.{m}.{f}", status=ERROR, backend="framecheck", formula="graph-building function present", detail="not found"))
            continue
        n = 0
        for node in ast.walk(fn):
            if isinstance(node, ast.Lambda):
                n += 1
                obs.append(Obligation(name=f"C13.P.{m}.{f}.lambda#{n}", function=f"flox.{m}.{f}", status=VIOLATED, backend="framecheck-syntactic", kind="frame",
                                      formula=f"line {node.lineno}: no lambda is built inside a graph-building function (task callables must be importable)", detail=ast.unparse(node)[:100], model={"function": f"{m}.{f}", "line": node.lineno}))
        local_assigned = {t.id for node in ast.walk(fn) if isinstance(node, (ast.Assign, ast.AnnAssign, ast.For)) for t in ast.walk(node.targets[0] if isinstance(node, ast.Assign) else node.target) if isinstance(t, ast.Name)}
        local_assigned |= {a.arg for a in fn.args.args + fn.args.kwonlyargs}
        for node in ast.walk(fn):
            if isinstance(node, ast.FunctionDef) and node is not fn:
                params = {a.arg for a in node.args.args + node.args.kwonlyargs}
                free = {x.id for x in ast.walk(node) if isinstance(x, ast.Name) and isinstance(x.ctx, ast.Load)} - params - set(dir(builtins))
                captured = sorted(free & local_assigned)
                ok = not captured
                obs.append(Obligation(name=f"C13.P.{m}.{f}.nested[{node.name}]", function=f"flox.{m}.{f}", status=DISCHARGED if ok else VIOLATED, backend="framecheck-syntactic", kind="frame",
                                      formula=f"line {node.lineno}: nested function {node.name} placed in the graph captures no local of {f}", detail="" if ok else f"captures {captured}", model=None if ok else {"function": f"{m}.{f}", "captures": captured}))
        if n == 0:
            obs.append(Obligation(name=f"C13.P.{m}.{f}.no_lambda", function=f"flox.{m}.{f}", status=DISCHARGED, backend="framecheck-syntactic", kind="frame", formula=f"{f} builds no lambda; its task callables are module-level functions, functools.partial / toolz.compose of them"))
    return obs
