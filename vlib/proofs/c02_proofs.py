def run(ctx):
    """C02.plan: the resolved plan is internally consistent (reindex strategy vs method vs reduction kind);
    C02.reindex: block results are brought onto the common groups with each intermediate's own neutral fill."""
    from ..contracts import finalize as F
    from ..pyvc.run import add_to_ctx
    from . import finalize_proofs, plan_proofs

    note = plan_proofs.run(ctx, which=("predicates", "validate_reindex", "get_chunk"), pid="C02")
    finalize_proofs._patch()
    n = 0
    c = F.reindex_intermediates_contract()
    ex, obs = add_to_ctx(ctx, c, F.reindex_intermediates_callees())
    n += len(obs)
    for c in F.all_reindex():
        c.prefix = "C02" + c.prefix[3:]
        ex, obs = add_to_ctx(ctx, c, F.reindex_callees())
        n += len(obs)
    from . import combine_proofs

    from . import tree_proofs

    # the tree builder carries "chunked = eager for every tree shape": enough levels, levels chained, every block in exactly its run
    return note + f" reindex_intermediates / reindex_ / reindex_numpy: {n} obligations." + combine_proofs.run(ctx, "C02") + " " + tree_proofs.run(ctx, "C02")
