def run(ctx):
    """C02.plan: the resolved plan is internally consistent (reindex strategy vs method vs reduction kind)."""
    from . import plan_proofs

    return plan_proofs.run(ctx, which=("predicates", "validate_reindex", "get_chunk"), pid="C02")
