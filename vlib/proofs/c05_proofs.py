def run(ctx):
    from . import factorize_proofs, finalize_proofs

    a = factorize_proofs.run(ctx, ["range", "factorize", "convert"])
    b = finalize_proofs.run(ctx, "C05")
    from . import chunkreduce_proofs

    return a + " " + b + " " + chunkreduce_proofs.run(ctx, "C05")
