def run(ctx):
    from . import factorize_proofs, finalize_proofs

    a = factorize_proofs.run(ctx, ["range", "factorize", "convert"])
    b = finalize_proofs.run(ctx, "C05")
    return a + " " + b
