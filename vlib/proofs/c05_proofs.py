def run(ctx):
    from . import factorize_proofs, finalize_proofs

    a = factorize_proofs.run(ctx, ["range", "factorize", "convert"])
    b = finalize_proofs.run(ctx, "C05")
    from . import chunkreduce_proofs

    return a + " " + b + " " + chunkreduce_proofs.run(ctx, "C05") + _postprocess_numbagg(ctx)


def _postprocess_numbagg(ctx):
    import vlib.pyvc.prims as P

    from ..contracts import postnumbagg as K
    from ..pyvc.run import REPO_DIR, add_to_ctx

    table, cs = K.all_postprocess(REPO_DIR)
    if table is None:
        ctx.fail_checker("aggregate_numbagg.DEFAULT_FILL_VALUE is no longer a literal table: the contract of _postprocess_numbagg cannot be instantiated")
        return ""
    orig = P.Prims.register_defaults

    def reg(self):
        orig(self)
        K.register_models(self, table)

    n = 0
    P.Prims.register_defaults = reg
    try:
        for c in cs:
            ex, obs = add_to_ctx(ctx, c, {})
            n += len(obs)
    finally:
        P.Prims.register_defaults = orig
    return (f" _postprocess_numbagg (nansum / nanprod / nanmax / a reduction without a kernel default; fill absent / symbolic): {n} obligations: seen groups keep the kernel's value, unseen groups get a fill "
            "that differs from the kernel's default, nothing changes otherwise.")
