"""Label -> code obligations (C05, C07, C08, C16): PyVC on _factorize_single and _ravel_factorized."""

from __future__ import annotations

import z3

from ..core import DISCHARGED, UNDECIDED, VIOLATED, Obligation


def _patch():
    import vlib.pyvc.prims as P
    from ..contracts import factorize as F

    if not getattr(P.Prims, "_ravel_models", False):
        orig = P.Prims.register_defaults

        def reg(self):
            orig(self)
            F.ravel_models(self)

        P.Prims.register_defaults = reg
        P.Prims._ravel_models = True


def run(ctx, which):
    from ..contracts import factorize as F
    from ..pyvc.run import add_to_ctx

    _patch()
    n = 0
    for name in which:
        if name == "factorize":
            from . import finalize_proofs

            finalize_proofs._patch()
            for c, callees, fs in F.all_factorize():
                c.prefix = ctx.pid + c.prefix[3:]
                ex, obs = add_to_ctx(ctx, c, callees)
                n += len(obs)
            continue
        if name == "factorize_offset":
            from . import finalize_proofs

            finalize_proofs._patch()
            c, callees = F.factorize_offset_contract()
            c.prefix = ctx.pid + c.prefix[3:]
            ex, obs = add_to_ctx(ctx, c, callees)
            n += len(obs)
            continue
        if name == "convert":
            from . import finalize_proofs

            finalize_proofs._patch()
            for c in F.all_convert():
                c.prefix = ctx.pid + c.prefix[3:]
                ex, obs = add_to_ctx(ctx, c, {})
                n += len(obs)
            continue
        c = F.CONTRACTS[name]()
        if name.startswith("cut_"):
            c.replay = F.replay_cut(name[4:])
            c.search = F.search_cut(name[4:])
        if name == "offset":
            c.search = F.search_offset
        ex, obs = add_to_ctx(ctx, c, {})
        n += len(obs)
    if any(w.startswith("ravel") for w in which):
        r = F.ravel_injective_lemma()
        ctx.add_obligations([Obligation(name=f"{ctx.pid}.lemma.RAVEL_INJ", function="lemma (spec level)", status=DISCHARGED if r == z3.unsat else (VIOLATED if r == z3.sat else UNDECIDED), backend="z3",
                                        formula="for 0 <= j, j' < n: i*n + j == i'*n + j' implies i == i' and j == j' (distinct label tuples / distinct rows get distinct codes)")])
        n += 1
    from ..pyvc import conformance

    only = []
    if "factorize" in which:
        only += ["_factorize_single", "ravel_multi_index"]
    if any(w.startswith("cut_") for w in which):
        only += ["numpy.digitize"]
    if any(w.startswith("ravel") for w in which):
        only += ["ravel_multi_index"]
    if "convert" in which:
        only += ["numpy.sort"]
    if only:
        from . import finalize_proofs

        finalize_proofs._patch()
        conformance.add_to_ctx(ctx, sorted(set(only)))
    return f"label->code functions: {n} obligations from {', '.join(which)}."
