def run(ctx):
    from . import finalize_proofs

    return finalize_proofs.run(ctx, "C11", lastcast=True, mask=False)
