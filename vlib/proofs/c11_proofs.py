def run(ctx):
    import vlib.pyvc.prims as P

    from ..contracts import floxmean as FM
    from ..pyvc.run import add_to_ctx
    from . import collapse_proofs, finalize_proofs

    note = finalize_proofs.run(ctx, "C11", lastcast=True, mask=False)
    n = 0
    for c, callees, models in FM.all_floxmean():
        orig = P.Prims.register_defaults

        def reg(self, orig=orig, models=models):
            orig(self)
            models(self)

        P.Prims.register_defaults = reg
        try:
            ex, obs = add_to_ctx(ctx, c, callees)
        finally:
            P.Prims.register_defaults = orig
        n += len(obs)
    note += (f" aggregate_flox.mean / nanmean (requested dtype floating / integer, fill given / not): {n} obligations: the division is admissible under NumPy's casting rule for the dtype of the sums "
             "(no UFuncTypeError), the result keeps the requested dtype, floating: mean * count == sum, integer: the exact mean truncated towards zero; sums and counts over the same codes, data and size. ")
    from ..contracts import nanfill as NF

    m = 0
    for c, callees, models in NF.all_nanfill():
        orig = P.Prims.register_defaults

        def reg(self, orig=orig, models=models):
            orig(self)
            models(self)

        P.Prims.register_defaults = reg
        try:
            ex, obs = add_to_ctx(ctx, c, callees)
        finally:
            P.Prims.register_defaults = orig
        m += len(obs)
    note += (f" _nan_grouped_op on integer data (nanmax / nanmin x requested dtype absent / different): {m} obligations: the neutral replacement for NaN is the extreme of the DATA's dtype "
             "(representable where np.where writes it), the grouped extreme is called once on the masked copy with the caller's keyword arguments. ")
    from ..pyvc import conformance

    conformance.add_to_ctx(ctx, ["numpy.divide"])
    note += collapse_proofs.run(ctx, "C11")
    return note
