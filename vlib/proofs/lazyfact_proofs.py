"""_factorize_multiple (dask branch) protocol obligations (C12.same_mapping, C07.lazy, C16)."""

from __future__ import annotations


def run(ctx, pid):
    import vlib.pyvc.prims as P

    from ..contracts import lazyfact as L
    from ..pyvc.run import add_to_ctx
    from . import finalize_proofs

    finalize_proofs._patch()
    n = 0
    for c, g in L.all_lazyfact():
        c.prefix = pid + c.prefix[3:]
        orig = P.Prims.register_defaults

        def reg(self, orig=orig, g=g):
            orig(self)
            L.register_models(self, g)

        P.Prims.register_defaults = reg
        try:
            ex, obs = add_to_ctx(ctx, c, L.models_for(g))
        finally:
            P.Prims.register_defaults = orig
        n += len(obs)
    return f"_factorize_multiple with dask groupers: {n} obligations (every block factorized against the announced groups; announced groups = requested or those the eager path finds; ValueError iff a dask grouper lacks expected_groups)."
