"""_choose_engine, _assert_by_is_aligned, _validate_expected_groups (C19 refusals / decision tables, C01 engine choice)."""

from __future__ import annotations


def run(ctx, pid, which=("engine", "aligned", "expected")):
    import vlib.pyvc.prims as P

    from ..contracts import validate as Vd
    from ..pyvc.run import add_to_ctx
    from . import finalize_proofs

    finalize_proofs._patch()
    n = 0

    def go(c, callees, models=None):
        nonlocal n
        c.prefix = pid + c.prefix[3:]
        orig = P.Prims.register_defaults
        if models:
            def reg(self, orig=orig):
                orig(self)
                models(self)

            P.Prims.register_defaults = reg
        try:
            ex, obs = add_to_ctx(ctx, c, callees)
        finally:
            P.Prims.register_defaults = orig
        n += len(obs)

    if "engine" in which:
        for c, cal in Vd.all_choose_engine():
            go(c, cal)
    if "aligned" in which:
        for c in Vd.all_aligned():
            go(c, {})
    if "expected" in which:
        for c in Vd.all_validate_expected():
            go(c, {}, Vd.validate_models)
    return f"validation helpers ({', '.join(which)}): {n} obligations."
