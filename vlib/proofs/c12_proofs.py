"""C12 proof part: laziness L-sites (and, as a by-product, exception types / in-code asserts / plan preconditions)
from the configuration-level execution of the real groupby_reduce by PyVC."""

from __future__ import annotations

import multiprocessing as mp

from ..core import NCPU


def _patch():
    import vlib.pyvc.prims as P
    from ..contracts import config

    if not getattr(P.Prims, "_cfg_models", False):
        orig = P.Prims.register_defaults

        def reg(self):
            orig(self)
            config.config_models(self)

        P.Prims.register_defaults = reg
        P.Prims._cfg_models = True


def _work(i):
    _patch()
    from ..contracts import config
    from ..pyvc.run import run_contract

    c = config.all_groupby_reduce()[i]
    ex, obs = run_contract(c, callees=config.CONFIG_CALLEES)
    for o in obs:
        o.model = o.model if isinstance(o.model, (dict, type(None))) else None
    return obs, sorted(ex.prims.used), list(c.assumed)


def select(ctx, n):
    from ..contracts import config

    cs = config.all_groupby_reduce()
    if not ctx.quick:
        return list(range(len(cs)))
    # quick: every value of every variant dimension at least once (a covering selection), deterministic
    want = []
    seen = set()
    for i, c in enumerate(cs):
        parts = c.prefix.split(".")[2:]
        new = [p for p in parts if p not in seen]
        if new:
            want.append(i)
            seen.update(parts)
    # plus the dask-relevant corners
    for i, c in enumerate(cs):
        if any(k in c.prefix for k in ("n1.mstr.rNone.eNone.aNone.knofill", "n1.mstr.rNone.eall.aNone.kfill", "n2.mNone.rNone.eall.aNone.knofill", "n1.mNone.rTrue.eall.aNone.kfill", "n1.mstr.rFalse.eall.agiven.kfill", "n2.mstr.rNone.epartial.aNone.knofill")) and i not in want:
            want.append(i)
    return sorted(want)


def run(ctx):
    idx = select(ctx, 0)
    with mp.get_context("forkserver").Pool(min(NCPU, len(idx))) as pool:
        results = pool.map(_work, idx, chunksize=1)
    n = 0
    for obs, used, assumed in results:
        ctx.add_obligations(obs)
        n += len(obs)
        for u in used:
            ctx.trust(f"assumed contract: {u}")
        for a in assumed:
            ctx.trust(f"assumed contract: {a}")
    ok = all(o.status == "discharged" for obs, _, _ in results for o in obs)
    ctx.under_contract("flox.core.groupby_reduce (configuration level: laziness, exception types, asserts, plan preconditions)", "proved" if ok else "bounded")
    ctx.assume("arrays abstracted to {is_dask, ndim, dtype kind}; evaluating uses of a chunked array are exactly the modelled forcing primitives (np.asarray, np.argsort, pd.unique/factorize inside callee contracts, eager kernels, find_group_cohorts, rechunk_for_blockwise, reindex_ on labels)")
    from . import lazyfact_proofs

    note2 = lazyfact_proofs.run(ctx, "C12")
    note2 += _listify(ctx)
    return note2 + f" configuration-level PyVC of groupby_reduce: {len(idx)} parameter variants ({'covering subset' if ctx.quick else 'all'} of 180), {n} obligations (L-sites `lazy[...]`, in-code asserts, exception types, preconditions of dask_groupby_agg)."


def run_plan_obligations(ctx, pid):
    """The same configuration-level execution of groupby_reduce, filed under another property: everything but the laziness
    L-sites - the in-code asserts, the exception types of every feasible path and the plan preconditions at the call of
    dask_groupby_agg (method='cohorts' only together with cohorts, blockwise only with the planner's consent, ...)."""
    idx = select(ctx, 0)
    with mp.get_context("forkserver").Pool(min(NCPU, len(idx))) as pool:
        results = pool.map(_work, idx, chunksize=1)
    n = 0
    for obs, used, assumed in results:
        keep = [o for o in obs if ".lazy[" not in o.name]
        for o in keep:
            o.name = pid + o.name[3:] if o.name.startswith("C12") else o.name
        ctx.add_obligations(keep)
        n += len(keep)
        for u in used:
            ctx.trust(f"assumed contract: {u}")
        for a in assumed:
            ctx.trust(f"assumed contract: {a}")
    ctx.under_contract("flox.core.groupby_reduce (configuration level: exception types, asserts, plan preconditions)", "proved" if all(o.status == "discharged" for obs, _, _ in results for o in obs if ".lazy[" not in o.name) else "bounded")
    return f" configuration-level PyVC of groupby_reduce: {len(idx)} parameter variants ({'covering subset' if ctx.quick else 'all'} of 180), {n} obligations (in-code asserts, exception types of every feasible path, plan preconditions at the call of dask_groupby_agg)."


def _listify(ctx):
    import vlib.pyvc.prims as P

    from ..contracts import listify as L
    from ..pyvc.run import add_to_ctx

    orig = P.Prims.register_defaults

    def reg(self):
        orig(self)
        L.register_models(self)

    P.Prims.register_defaults = reg
    try:
        ex, obs = add_to_ctx(ctx, L.listify_contract(), {})
    finally:
        P.Prims.register_defaults = orig
    from ..contracts import findgroups as FG

    def reg2(self):
        orig(self)
        FG.register_models(self)

    P.Prims.register_defaults = reg2
    try:
        c2, callees2 = FG.find_unique_groups_contract()
        ex2, obs2 = add_to_ctx(ctx, c2, callees2)
    finally:
        P.Prims.register_defaults = orig
    from ..contracts import collapse as CL

    def reg3(self):
        orig(self)
        CL.register_models_groups(self)

    n3 = 0
    P.Prims.register_defaults = reg3
    try:
        for c3 in CL.all_extract_unknown_groups():
            ex3, obs3 = add_to_ctx(ctx, c3, {})
            n3 += len(obs3)
    finally:
        P.Prims.register_defaults = orig
    from ..contracts import getexpected as GE

    def reg4(self):
        orig(self)
        GE.register_models(self)

    P.Prims.register_defaults = reg4
    try:
        c4, callees4 = GE.get_expected_groups_contract()
        ex4, obs4 = add_to_ctx(ctx, c4, callees4)
    finally:
        P.Prims.register_defaults = orig
    n3 += len(obs4)
    from ..pyvc import conformance

    conformance.add_to_ctx(ctx, ["_unique", "pandas.unique"])
    return (f" listify_groups: {len(obs)} obligations (the labels a block found are handed on as NumPy scalars of the labels' own dtype, one per label, in order); _find_unique_groups: {len(obs2)} obligations "
            f"(the labels of a combine step are exactly the non-missing labels its blocks found, each once, ascending, or the placeholder NaN); _extract_unknown_groups and _get_expected_groups: {n3} obligations "
            "(the lazy labels array is one task reading 'groups' of the first block of the reduced result, one chunk of unknown size, announced with the labels' dtype; an in-memory grouper's groups are its distinct non-missing labels, a dask grouper is refused before anything is evaluated).")
