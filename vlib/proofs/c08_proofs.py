def run(ctx):
    from . import factorize_proofs

    return factorize_proofs.run(ctx, ["offset", "ravel2", "factorize_offset"])
