def run(ctx):
    from . import axes_proofs, collapse_proofs, factorize_proofs

    return factorize_proofs.run(ctx, ["offset", "ravel2", "factorize_offset"]) + " " + collapse_proofs.run(ctx, "C08") + " " + axes_proofs.run(ctx, "C08")
