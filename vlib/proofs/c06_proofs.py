def run(ctx):
    """C06.combine: left-biased (value, index) combine of the arg-reductions keeps the first occurrence and its global index;
    _pick_second returns the index component."""
    import warnings

    import numpy as np

    from . import c04_proofs
    from .c04_finalizers import PICK
    from ..pyvc.run import add_to_ctx
    from flox.aggregations import _initialize_aggregation

    n = 0
    for func in ("argmax", "argmin", "nanargmax", "nanargmin"):
        for dt in ("float64", "int64"):
            with warnings.catch_warnings():
                warnings.simplefilter("ignore")
                agg = _initialize_aggregation(func, None, np.dtype(dt), None, 0, None)
            obs = c04_proofs.arg_obligations(func, agg, f"C06.{func}.{dt}")
            ctx.add_obligations(obs)
            n += len(obs)
    PICK.prefix = "C06.pick_second"
    ex, obs = add_to_ctx(ctx, PICK, {})
    n += len(obs)
    from ..contracts import argreduce as AR
    from . import finalize_proofs

    finalize_proofs._patch()
    c, callees = AR.chunk_argreduce_contract()
    ex, obs = add_to_ctx(ctx, c, callees)
    n += len(obs)
    import vlib.pyvc.prims as P

    from ..contracts import argpre as AP

    n_pre = 0
    for c2, callees2, models2 in AP.all_argpre():
        orig = P.Prims.register_defaults

        def reg(self, orig=orig, models2=models2):
            orig(self)
            models2(self)

        P.Prims.register_defaults = reg
        try:
            ex2, obs2 = add_to_ctx(ctx, c2, callees2)
        finally:
            P.Prims.register_defaults = orig
        n_pre += len(obs2)
    from ..pyvc import conformance
    from . import tree_proofs

    tree_note = tree_proofs.run(ctx, "C06")
    conformance.add_to_ctx(ctx, ["chunk_reduce on an arg-reduction"])
    return f"arg-reduction pair algebra, _pick_second, chunk_argreduce (reports the global position idx[p] of the block-local extreme p, a member of the group with the reported value): {n} obligations; argreduce_preprocess (rank 1-3, every axis): {n_pre} obligations (positions span and are chunked like the reduced axis of the data, broadcast along that axis only, zipped data-first, layer named by a token of data and positions). " + tree_note
