def run(ctx):
    from . import scan_proofs

    return scan_proofs.run(ctx, "C10")
