"""_tree_reduce orchestration obligations (C03.tree, C06.order, C09.cover)."""

from __future__ import annotations


def run(ctx, pid):
    import vlib.pyvc.prims as P

    from ..contracts import tree as T
    from ..pyvc.run import add_to_ctx
    from . import finalize_proofs

    finalize_proofs._patch()
    n = 0
    for c, g in T.all_tree():
        c.prefix = pid + c.prefix[3:]
        orig = P.Prims.register_defaults

        def reg(self, orig=orig):
            orig(self)
            T.register_models(self)

        P.Prims.register_defaults = reg
        try:
            ex, obs = add_to_ctx(ctx, c, T.make_callees(g, 1))
        finally:
            P.Prims.register_defaults = orig
        n += len(obs)
    from ..contracts import parts as PT

    orig = P.Prims.register_defaults

    def reg2(self, orig=orig):
        orig(self)
        PT.register_models(self)

    P.Prims.register_defaults = reg2
    try:
        for c in PT.all_parts():
            c.prefix = pid + c.prefix[3:]
            ex, obs = add_to_ctx(ctx, c, {})
            n += len(obs)
    finally:
        P.Prims.register_defaults = orig
    from ..pyvc import conformance

    conformance.add_to_ctx(ctx, ["partition_all"])
    ctx.assume("math.ceil(math.log(n, k)) is the least d with k**d >= n, and k**e >= n for every e >= d (mathematical reals; float rounding of math.log trusted for realistic block counts)")
    return (f"_tree_reduce (1 and 2 reduced axes; split_every int / None / dict): {n} obligations: enough levels for one block per reduced axis (loop invariant blocks <= fan_in**(levels left), "
            "lemma CEIL_DIV_LE), levels chained by name, aggregate and block_index only at the last level; get_parts: the blocks of a reduced axis are partitioned by toolz.partition_all with that axis' fan-in over their natural order, one unit chunk announced per part; the graph-writing loop of partial_reduce enters as an assumed contract = the bounded tree-builder contract.")
