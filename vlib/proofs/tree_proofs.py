"""_tree_reduce orchestration obligations (C03.tree, C06.order, C09.cover)."""

from __future__ import annotations


def run(ctx, pid):
    import vlib.pyvc.prims as P

    from ..contracts import tree as T
    from ..pyvc.run import add_to_ctx
    from . import finalize_proofs

    finalize_proofs._patch()
    n = 0
    for c, g in T.all_tree():
        c.prefix = pid + c.prefix[3:]
        orig = P.Prims.register_defaults

        def reg(self, orig=orig):
            orig(self)
            T.register_models(self)

        P.Prims.register_defaults = reg
        try:
            ex, obs = add_to_ctx(ctx, c, T.make_callees(g, 1))
        finally:
            P.Prims.register_defaults = orig
        n += len(obs)
    from ..contracts import parts as PT

    orig = P.Prims.register_defaults

    def reg2(self, orig=orig):
        orig(self)
        PT.register_models(self)

    P.Prims.register_defaults = reg2
    try:
        for c in PT.all_parts():
            c.prefix = pid + c.prefix[3:]
            ex, obs = add_to_ctx(ctx, c, {})
            n += len(obs)
    finally:
        P.Prims.register_defaults = orig
    from ..contracts import partialreduce as PR

    orig = P.Prims.register_defaults

    def reg3(self, orig=orig):
        orig(self)
        PR.register_models(self)

    P.Prims.register_defaults = reg3
    npr = 0
    try:
        for c, callees in PR.all_partial_reduce():
            c.prefix = pid + c.prefix[3:]
            ex, obs = add_to_ctx(ctx, c, callees)
            npr += len(obs)
    finally:
        P.Prims.register_defaults = orig
    n += npr
    ctx.add_obligations([_product_lockstep(pid)])
    from ..pyvc import conformance

    conformance.add_to_ctx(ctx, ["partition_all"])
    ctx.assume("math.ceil(math.log(n, k)) is the least d with k**d >= n, and k**e >= n for every e >= d (mathematical reals; float rounding of math.log trusted for realistic block counts)")
    return (f"_tree_reduce (1 and 2 reduced axes; split_every int / None / dict): {n} obligations: enough levels for one block per reduced axis (loop invariant blocks <= fan_in**(levels left), "
            "lemma CEIL_DIV_LE), levels chained by name, aggregate and block_index only at the last level; get_parts: the blocks of a reduced axis are partitioned by toolz.partition_all with that axis' fan-in over their natural order, one unit chunk announced per part; partial_reduce (one reduced axis / a kept axis next to it / two reduced axes, with and without block_index): every key written is (name, one part number per axis) within the announced grid, its task reads the layer dep_name - the same block on a kept axis, exactly the run the key names on a reduced axis -, block_index replaces the last coordinate only. In _tree_reduce's own contract the level still enters through its summary (ceil(n / fan_in) blocks per reduced axis), which the get_parts / partial_reduce contracts now back.")


def _product_lockstep(pid):
    """conformance of the assumed contract of itertools.product used by the partial_reduce contract: the order of the index vectors
    depends only on the factor lengths (enumerated for every length vector up to 4 x 4 x 3, members arbitrary objects)"""
    import itertools
    import time

    from ..core import DISCHARGED, VIOLATED, Obligation

    t0 = time.time()
    bad = None
    n = 0
    for lens in itertools.product(range(0, 5), range(0, 5), range(1, 4)):
        for nf in (1, 2, 3):
            ls = lens[:nf]
            facs = [[("m", ax, i * 7 % 5, i) for i in range(l)] for ax, l in enumerate(ls)]
            a = [tuple(m[3] for m in t) for t in itertools.product(*facs)]
            b = list(itertools.product(*[range(l) for l in ls]))
            n += 1
            if a != b:
                bad = dict(lengths=list(ls))
    return Obligation(name=f"{pid}.conformance.itertools_product_lockstep", function="itertools.product", status=DISCHARGED if bad is None else VIOLATED, backend="enumeration", seconds=time.time() - t0, kind="table",
                      formula="zip(product(*ranges), product(*factors)) pairs index vector (d_0..d_m) with (factors_0[d_0]..factors_m[d_m]) for every factor length vector up to 4 x 4 x 3", detail=f"{n} length vectors" if bad is None else f"differs for {bad}", model=bad)
