def run(ctx):
    from . import factorize_proofs

    from . import lazyfact_proofs

    return factorize_proofs.run(ctx, ["cut_right", "cut_left", "ravel2", "ravel3", "factorize"]) + " " + lazyfact_proofs.run(ctx, "C07")
