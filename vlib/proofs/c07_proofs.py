def run(ctx):
    from . import factorize_proofs

    return factorize_proofs.run(ctx, ["cut_right", "cut_left", "ravel2", "ravel3", "factorize"])
