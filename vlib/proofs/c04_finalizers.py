"""L4 of C04: the finalizers of flox/aggregations.py computed from the component sums equal the specification
over the reals.  PyVC executes the real source of _mean_finalize, _var_finalize, _std_finalize, _pick_second."""

from __future__ import annotations

import z3

from ..core import Obligation, DISCHARGED, UNDECIDED, VIOLATED
from ..pyvc.engine import Contract
from ..pyvc.prims import NAN_R, SQRT

R = z3.RealSort()
X = z3.Function("x_member", z3.IntSort(), R)  # the members of one group, as reals
S1 = z3.Function("S1", z3.IntSort(), R)  # partial sums of x
S2 = z3.Function("S2", z3.IntSort(), R)  # partial sums of x^2
D = z3.Function("Dev", z3.IntSort(), R)  # partial sums of (x - mu)^2
MU = z3.Real("mu")
N = z3.Int("n_members")


def var_expand_lemma():
    """VAR_EXPAND: for every k, sum_{i<k} (x_i - mu)^2 == S2(k) - 2 mu S1(k) + k mu^2   (induction on k, NRA)."""
    obs = []
    k = z3.Int("k")
    defs0 = [S1(0) == 0, S2(0) == 0, D(0) == 0]
    unfold = [S1(k + 1) == S1(k) + X(k), S2(k + 1) == S2(k) + X(k) * X(k), D(k + 1) == D(k) + (X(k) - MU) * (X(k) - MU)]
    prop = lambda t: D(t) == S2(t) - 2 * MU * S1(t) + z3.ToReal(t) * MU * MU
    for name, hyps, goal in (("base", defs0, prop(z3.IntVal(0))), ("step", unfold + [k >= 0, prop(k)], prop(k + 1))):
        s = z3.Solver()
        s.set("timeout", 30000)
        for h in hyps:
            s.add(h)
        s.add(z3.Not(goal))
        r = s.check()
        obs.append(Obligation(name=f"C04.lemma.VAR_EXPAND.{name}", function="lemma (spec level)", status=DISCHARGED if r == z3.unsat else (VIOLATED if r == z3.sat else UNDECIDED), backend="z3", formula=f"VAR_EXPAND {name}: sum (x_i-mu)^2 == S2 - 2 mu S1 + k mu^2", detail="" if r == z3.unsat else str(r)))
    return obs, prop


def fin_params_var(ex):
    return {"sumsq": z3.Real("sumsq"), "sum_": z3.Real("sum_"), "count": z3.Int("count"), "ddof": z3.Int("ddof")}


def fin_requires_var(ex, env):
    _, prop = var_expand_lemma.cached
    return [
        env["count"] == N, N >= 0, env["ddof"] >= 0,
        env["sumsq"] == S2(N), env["sum_"] == S1(N),
        z3.Implies(N > 0, MU * z3.ToReal(N) == S1(N)),  # mu is the mean of the members
        prop(N),  # VAR_EXPAND instantiated at n (proved separately, by induction)
    ]


def fin_ensures_var(ex, env, res):
    count, ddof = env["__entry__"]["count"], env["__entry__"]["ddof"]
    return [
        ("nan_when_too_few", z3.Implies(count <= ddof, res == NAN_R)),
        ("spec", z3.Implies(count > ddof, res == D(N) / z3.ToReal(N - ddof))),  # sum (x-mean)^2 / (n - ddof)
    ]


VAR = Contract(qualname="_var_finalize", file="flox/aggregations.py", prefix="C04.L4.var", params=fin_params_var, requires=fin_requires_var, ensures=fin_ensures_var, serves=("C04", "C20"))


def callee_var(ex, st, args, kwargs, node):
    sumsq, sum_, count, ddof = args
    res = z3.Real(f"var_result")
    st.assume(z3.Implies(count <= ddof, res == NAN_R))
    st.assume(z3.Implies(count > ddof, res == D(N) / z3.ToReal(N - ddof)))
    return res


STD = Contract(
    qualname="_std_finalize", file="flox/aggregations.py", prefix="C04.L4.std", params=fin_params_var, requires=fin_requires_var,
    ensures=lambda ex, env, res: [("spec", z3.Implies(env["__entry__"]["count"] > env["__entry__"]["ddof"], res == SQRT(D(N) / z3.ToReal(N - env["__entry__"]["ddof"])))), ("nan_when_too_few", z3.Implies(env["__entry__"]["count"] <= env["__entry__"]["ddof"], res == SQRT(NAN_R)))],
    serves=("C04",),
)

MEAN = Contract(
    qualname="_mean_finalize", file="flox/aggregations.py", prefix="C04.L4.mean",
    params=lambda ex: {"sum_": z3.Real("sum_"), "count": z3.Int("count")},
    requires=lambda ex, env: [env["count"] == N, N >= 1, env["sum_"] == S1(N)],
    ensures=lambda ex, env, res: [("spec", res == S1(N) / z3.ToReal(N))], serves=("C04",),
)

PICK = Contract(
    qualname="_pick_second", file="flox/aggregations.py", prefix="C04.L4.pick_second",
    params=lambda ex: {"x": (z3.Real("extreme"), z3.Int("arg_index"), z3.Int("count"))},
    ensures=lambda ex, env, res: [("second", res == env["__entry__"]["x"][1])], serves=("C04", "C06"),
)


def run(ctx):
    from ..pyvc.run import add_to_ctx

    obs, prop = var_expand_lemma()
    var_expand_lemma.cached = (obs, prop)
    ctx.add_obligations(obs)
    n = len(obs)
    for c, callees in ((MEAN, {}), (VAR, {}), (STD, {"_var_finalize": callee_var}), (PICK, {})):
        ex, o = add_to_ctx(ctx, c, callees)
        n += len(o)
    return n
