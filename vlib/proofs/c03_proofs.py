def run(ctx):
    from . import scan_proofs

    from . import tree_proofs

    return scan_proofs.run(ctx, "C03") + " " + tree_proofs.run(ctx, "C03")
