"""Proof part of C17: the three rechunk functions under contract, discharged by PyVC on the real source."""

from __future__ import annotations


def run(ctx):
    import vlib.pyvc.prims as P
    from ..contracts import rechunk
    from ..pyvc.run import add_to_ctx

    if not getattr(P.Prims, "_coh_models", False):
        orig = P.Prims.register_defaults

        def reg(self):
            orig(self)
            rechunk.coh_models(self)

        P.Prims.register_defaults = reg
        P.Prims._coh_models = True
    n = 0
    for c in (rechunk.OPT, rechunk.COH, rechunk.BLK):
        ex, obs = add_to_ctx(ctx, c, rechunk.CALLEES)
        n += len(obs)
    ctx.assume("Python ints mathematical; numpy index arrays as (length, index->value) pairs; list.append as functional update")
    return f"PyVC: {n} obligations generated from the AST of _get_optimal_chunks_for_groups, rechunk_for_cohorts and rechunk_for_blockwise (loop invariants, in-code asserts, index safety, postconditions)."
