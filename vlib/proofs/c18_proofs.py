def run(ctx):
    """C18.refuse: order statistics (chunk == (None,)) are computed blockwise or refused with ValueError;
    C18.interpolation: _lerp is the linear interpolation a + gamma*(b - a) (over the reals)."""
    from ..contracts import quantile as Q
    from ..pyvc.run import add_to_ctx
    from . import finalize_proofs, plan_proofs

    note = plan_proofs.run(ctx, which=("choose_method",), pid="C18")
    finalize_proofs._patch()
    n = 0
    for c in Q.all_quantile():
        ex, obs = add_to_ctx(ctx, c, {})
        n += len(obs)
    from ..pyvc import conformance

    conformance.add_to_ctx(ctx, ["numpy.subtract"])
    return note + f" _lerp: {n} obligations (linear interpolation between the two order statistics, with and without an out buffer)."
