def run(ctx):
    """C18.refuse: order statistics (chunk == (None,)) are computed blockwise or refused with ValueError."""
    from . import plan_proofs

    return plan_proofs.run(ctx, which=("choose_method",), pid="C18")
