"""_finalize_results obligations (C05.mask, C02.final, C11.lastcast)."""

from __future__ import annotations

import os

from ..core import DISCHARGED, ERROR, REPO, VIOLATED, Obligation


def _patch():
    import vlib.pyvc.prims as P
    from ..contracts import finalize as F

    if not getattr(P.Prims, "_fin_models", False):
        orig = P.Prims.register_defaults

        def reg(self):
            orig(self)
            F.finalize_models(self)
            from ..contracts import argreduce as AR

            AR.argreduce_models(self)
            from ..contracts import factorize as FZ

            FZ.convert_models(self)

        P.Prims.register_defaults = reg
        P.Prims._fin_models = True


def search_with_c05(ctx):
    def search():
        from ..props import C05

        for c in C05.bounded_cases(ctx)[:400]:
            if c.get("min_count") in (None, 0) and c.get("fill_value") is None:
                continue
            r = C05.check(c)
            if r is not None and not r.get("checker_error"):
                return r["case"], r["why"]
        return None

    return search


def run(ctx, pid, lastcast=False, mask=True):
    from ..contracts import finalize as F
    from ..pyvc.run import add_to_ctx

    _patch()
    n = 0
    if mask:
        for c in F.all_finalize():
            c.prefix = pid + c.prefix[3:]
            c.search = search_with_c05(ctx)
            ex, obs = add_to_ctx(ctx, c, F.FIN_CALLEES)
            n += len(obs)
    if mask:
        for c in F.all_reindex():
            c.prefix = pid + c.prefix[3:]
            ex, obs = add_to_ctx(ctx, c, F.reindex_callees())
            n += len(obs)
    if lastcast:
        repo = os.environ.get("VERIF_REPO", REPO)
        ok, text = F.lastcast_obligation(repo)
        ctx.add_obligations([Obligation(name=f"{pid}.lastcast", function="flox.core._finalize_results", status=ERROR if ok is None else (DISCHARGED if ok else VIOLATED), backend="framecheck-syntactic", kind="frame",
                                        formula="the last statement before the only return of _finalize_results casts the result to agg.dtype['final'] (every plan ends in this function)", detail=text,
                                        model=None if ok else {"last_statement": text})])
        n += 1
    if mask:
        from ..pyvc import conformance

        conformance.add_to_ctx(ctx, ["get_indexer"])
    return f"_finalize_results: {n} obligations (count mask with the user's fill verbatim for every fill value, final reindex iff needed, last cast; reindex_numpy and reindex_: present labels keep their value, absent labels get the fill, ValueError only without a fill)."
