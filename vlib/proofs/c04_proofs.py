"""C04 proof part: the chunk / combine / finalize algebra of every registry blueprint, for all values.

The real ``flox.aggregations._initialize_aggregation`` is executed for every registry aggregation that has a
decomposition x dtype class x min_count (a finite configuration space, enumerated completely); the blueprint it
returns (tuples ``chunk``, ``combine``, ``fill_value['intermediate']``, ``simple_combine``, ``finalize``,
``dtype['intermediate']``) must satisfy the laws L1-L5 of DESIGN.md §5/C04 for ALL values.  The meaning of the
reduction names (SEM) is written from the property text; values are the extended reals
``Val = Fin(r) | +Inf | -Inf | NaN`` (no rounding, no signed zero) or bounded mathematical integers.

L1  chunk[k] is a fold `pre_C ; op_C` and combine[k] / simple_combine[k] folds partial results with an operator
    that agrees with op_C on the range of the chunk results           (merge law)
L2  op_C is associative (and for first/last/arg*: left-biased = order-respecting)
L3  the declared intermediate fill is neutral for the combine on the range of the chunk results, and equals
    what the chunk stage returns for a group that is present only as NaN
L4  finalize(intermediates) equals the specification over the reals     (PyVC on the real finalizer source)
L5  min_count > 0 appends the count monoid (nanlen, sum, fill 0, dtype intp)
"""

from __future__ import annotations

import math
import time

import numpy as np
import z3

from ..core import DISCHARGED, ERROR, UNDECIDED, VIOLATED, Obligation

FUNCTION = "flox.aggregations._initialize_aggregation (blueprints of flox/aggregations.py)"

# ---------------------------------------------------------------------------------------------------
# Val and its operations
# ---------------------------------------------------------------------------------------------------

from ..pyvc.valsort import Val, fin, is_fin, is_nan, is_ninf, is_pinf, nan, ninf, pinf, rv  # noqa: E402


def v_add(a, b):
    return z3.If(z3.Or(is_nan(a), is_nan(b)), nan,
           z3.If(z3.And(is_pinf(a), is_ninf(b)), nan,
           z3.If(z3.And(is_ninf(a), is_pinf(b)), nan,
           z3.If(z3.Or(is_pinf(a), is_pinf(b)), pinf,
           z3.If(z3.Or(is_ninf(a), is_ninf(b)), ninf, fin(rv(a) + rv(b)))))))  # fmt: skip


def v_sign(a):
    return z3.If(is_pinf(a), 1, z3.If(is_ninf(a), -1, z3.If(rv(a) > 0, 1, z3.If(rv(a) < 0, -1, 0))))


def v_mul(a, b):
    inf_case = z3.Or(z3.Not(is_fin(a)), z3.Not(is_fin(b)))
    s = v_sign(a) * v_sign(b)
    return z3.If(z3.Or(is_nan(a), is_nan(b)), nan,
           z3.If(inf_case, z3.If(s == 0, nan, z3.If(s > 0, pinf, ninf)), fin(rv(a) * rv(b))))  # fmt: skip


def v_le(a, b):
    """a <= b for non-NaN values."""
    return z3.Or(is_ninf(a), is_pinf(b), z3.And(is_fin(a), is_fin(b), rv(a) <= rv(b)))


def v_max(a, b):  # np.maximum: NaN-propagating
    return z3.If(z3.Or(is_nan(a), is_nan(b)), nan, z3.If(v_le(a, b), b, a))


def v_min(a, b):
    return z3.If(z3.Or(is_nan(a), is_nan(b)), nan, z3.If(v_le(a, b), a, b))


def v_fmax(a, b):  # np.nanmax over two elements: NaN-skipping, NaN only if both are
    return z3.If(is_nan(a), b, z3.If(is_nan(b), a, z3.If(v_le(a, b), b, a)))


def v_fmin(a, b):
    return z3.If(is_nan(a), b, z3.If(is_nan(b), a, z3.If(v_le(a, b), a, b)))


def v_first_nn(a, b):  # nanfirst along the dummy axis: first non-null
    return z3.If(is_nan(a), b, a)


def v_last_nn(a, b):
    return z3.If(is_nan(b), a, b)


def nan_to(a, c):
    return z3.If(is_nan(a), c, a)


ZERO, ONE = fin(0), fin(1)

# ---------------------------------------------------------------------------------------------------
# SEM: meaning of the reduction names (from the property text / NumPy's definitions)
#   pre  : element -> carrier          op : carrier x carrier -> carrier
#   rng  : predicate describing the possible results of the reduction as a CHUNK function on a non-empty group
#   allnan : result of the chunk function on a group that is present only as NaN, given the fill f
# carriers: "val" (Val) or "int" (z3 Int) or "bool"
# ---------------------------------------------------------------------------------------------------


def SEM(name):
    T = lambda a: z3.BoolVal(True)
    notnan = lambda a: z3.Not(is_nan(a))
    table = {
        "sum": dict(carrier="val", pre=lambda x: x, op=v_add, rng=T, allnan=lambda f: nan),
        "nansum": dict(carrier="val", pre=lambda x: nan_to(x, ZERO), op=v_add, rng=T, allnan=lambda f: ZERO),
        "prod": dict(carrier="val", pre=lambda x: x, op=v_mul, rng=T, allnan=lambda f: nan),
        "nanprod": dict(carrier="val", pre=lambda x: nan_to(x, ONE), op=v_mul, rng=T, allnan=lambda f: ONE),
        "max": dict(carrier="val", pre=lambda x: x, op=v_max, rng=T, allnan=lambda f: nan),
        "min": dict(carrier="val", pre=lambda x: x, op=v_min, rng=T, allnan=lambda f: nan),
        # nanmax as a chunk function: NaN-skipping; an all-NaN group yields the fill passed to the kernel
        "nanmax": dict(carrier="val", pre=lambda x: x, op=v_fmax, rng=notnan, allnan=lambda f: f),
        "nanmin": dict(carrier="val", pre=lambda x: x, op=v_fmin, rng=notnan, allnan=lambda f: f),
        "sum_of_squares": dict(carrier="val", pre=lambda x: v_mul(x, x), op=v_add, rng=T, allnan=lambda f: nan),
        "nansum_of_squares": dict(carrier="val", pre=lambda x: v_mul(nan_to(x, ZERO), nan_to(x, ZERO)), op=v_add, rng=T, allnan=lambda f: ZERO),
        "nanlen": dict(carrier="int", pre=lambda x: z3.If(is_nan(x), 0, 1), op=lambda a, b: a + b, rng=lambda a: a >= 0, allnan=lambda f: z3.IntVal(0)),
        "nanfirst": dict(carrier="val", pre=lambda x: x, op=v_first_nn, rng=T, allnan=lambda f: nan),
        "nanlast": dict(carrier="val", pre=lambda x: x, op=v_last_nn, rng=T, allnan=lambda f: nan),
        "all": dict(carrier="bool", pre=lambda x: x, op=lambda a, b: z3.And(a, b), rng=T, allnan=None),
        "any": dict(carrier="bool", pre=lambda x: x, op=lambda a, b: z3.Or(a, b), rng=T, allnan=None),
    }
    return table.get(name)


# numpy function objects used as simple_combine -> the same names
def simple_name(f):
    from flox import xrutils

    table = {np.sum: "sum", np.prod: "prod", np.max: "max", np.min: "min", np.nanmax: "nanmax", np.nanmin: "nanmin", np.all: "all", np.any: "any", np.argmax: "argmax", np.argmin: "argmin", xrutils.nanfirst: "nanfirst", xrutils.nanlast: "nanlast"}
    return table.get(f)


def const_of(carrier, v, dtype=None):
    """The declared (concrete) fill as a term of the carrier."""
    if carrier == "bool":
        return z3.BoolVal(bool(v))
    if carrier == "int":
        return z3.IntVal(int(v))
    if isinstance(v, (float, np.floating)):
        if v != v:
            return nan
        if v == math.inf:
            return pinf
        if v == -math.inf:
            return ninf
    if isinstance(v, (np.datetime64, np.timedelta64)):
        return None
    try:
        return fin(z3.RealVal(int(v))) if float(v).is_integer() else fin(z3.RealVal(str(float(v))))
    except Exception:
        return None


_cache = {}


def prove(goal, hyps=(), timeout=10000):
    key = (goal.sexpr(), tuple(h.sexpr() for h in hyps))
    if key in _cache:
        return _cache[key]
    s = z3.Solver()
    s.set("timeout", timeout)
    for h in hyps:
        s.add(h)
    s.add(z3.Not(goal))
    t0 = time.time()
    r = s.check()
    dt = time.time() - t0
    if r == z3.unsat:
        out = (DISCHARGED, "", None, dt)
    elif r == z3.sat:
        m = s.model()
        out = (VIOLATED, str(m), m, dt)
    else:
        out = (UNDECIDED, s.reason_unknown(), None, dt)
    _cache[key] = out
    return out


def show(v, m):
    e = m.eval(v, model_completion=True)
    s = str(e)
    if s.startswith("fin("):
        return s[4:-1]
    return {"pinf": "inf", "ninf": "-inf", "nan": "nan"}.get(s, s)


def carrier_var(carrier, name, lo=None, hi=None):
    if carrier == "val":
        return z3.Const(name, Val), []
    if carrier == "int":
        v = z3.Int(name)
        return v, []
    return z3.Bool(name), []


def dtype_domain(dt, x):
    """Constraint restricting a Val variable to the values an array of dtype dt can hold."""
    dt = np.dtype(dt)
    if dt.kind == "f":
        return z3.BoolVal(True)
    if dt.kind in "iu":
        info = np.iinfo(dt)
        return z3.And(is_fin(x), rv(x) >= int(info.min), rv(x) <= int(info.max), z3.IsInt(rv(x)))
    if dt.kind == "b":
        return z3.And(is_fin(x), z3.Or(rv(x) == 0, rv(x) == 1))
    return z3.BoolVal(True)


def blueprint_obligations(func, in_dtype, min_count, agg):
    """Obligations L1-L3, L5 for one blueprint."""
    obs = []
    tag = f"C04.{func}.{np.dtype(in_dtype).name}.mc{min_count}"

    def add(name, status, text, detail="", model=None, secs=0.0):
        obs.append(Obligation(name=f"{tag}.{name}", function=FUNCTION, status=status, backend="z3", seconds=secs, formula=text, detail=detail, model=model))

    chunk, combine = agg.chunk, agg.combine
    fills = agg.fill_value["intermediate"]
    idts = agg.dtype["intermediate"]
    simple = agg.simple_combine
    if not (len(chunk) == len(combine) == len(fills) == len(idts) == len(simple)):
        add("shape", VIOLATED, "chunk, combine, intermediate fills, intermediate dtypes and simple_combine have equal lengths", detail=f"lengths {len(chunk)},{len(combine)},{len(fills)},{len(idts)},{len(simple)}", model={"func": func, "why": "length mismatch"})
        return obs
    ncomp = len(chunk)
    is_arg = agg.reduction_type == "argreduce"
    for k in range(ncomp):
        cname, kname, fill, idt = chunk[k], combine[k], fills[k], np.dtype(idts[k])
        sname = simple_name(simple[k])
        if is_arg and k == 1:
            # (value, index) pairs: the index component is carried by the value component; law checked on pairs below
            continue
        C, K = SEM(cname) if isinstance(cname, str) else None, SEM(kname) if isinstance(kname, str) else None
        if C is None or K is None:
            add(f"L1.known.{k}", ERROR, f"component {k}: names {cname!r}/{kname!r} have a meaning in SEM", detail="no SEM entry")
            continue
        if C["carrier"] == "int" and kname == "sum":
            K = dict(carrier="int", pre=lambda x: x, op=lambda a, b: a + b, rng=lambda a: z3.BoolVal(True), allnan=None)  # np.sum of integer counts
        if C["carrier"] != K["carrier"]:
            add(f"L1.merge.{k}", VIOLATED, f"component {k}: combine {kname!r} folds the results of chunk {cname!r}", detail="carrier mismatch", model={"func": func, "component": k})
            continue
        car = C["carrier"]
        a, _ = carrier_var(car, "a")
        b, _ = carrier_var(car, "b")
        c, _ = carrier_var(car, "c")
        dom = [z3.BoolVal(True)] * 3
        if car == "val":
            # chunk results live in the intermediate dtype
            dom = [dtype_domain(idt, a) if idt.kind != "f" else z3.BoolVal(True), dtype_domain(idt, b) if idt.kind != "f" else z3.BoolVal(True), dtype_domain(idt, c) if idt.kind != "f" else z3.BoolVal(True)]
            if idt.kind in "iub":
                # integer carriers: results of integer folds stay integers; overflow of the accumulator not modelled
                dom = [z3.And(is_fin(a), z3.IsInt(rv(a))), z3.And(is_fin(b), z3.IsInt(rv(b))), z3.And(is_fin(c), z3.IsInt(rv(c)))]
                if cname in ("max", "min", "nanmax", "nanmin", "nanfirst", "nanlast"):
                    dom = [dtype_domain(idt, a), dtype_domain(idt, b), dtype_domain(idt, c)]
        rngs = [C["rng"](a), C["rng"](b), C["rng"](c)]
        # L2 associativity of the chunk operator
        st, det, m, dt = prove(C["op"](C["op"](a, b), c) == C["op"](a, C["op"](b, c)), dom)
        add(f"L2.assoc.{k}", st, f"component {k} ({cname}): op(op(a,b),c) == op(a,op(b,c)) for all values", det, None if m is None else {"func": func, "a": show(a, m), "b": show(b, m), "c": show(c, m)}, dt)
        # L1 merge: combining two partial results with the combine operator == the chunk operator
        hy = dom[:2] + rngs[:2]
        st, det, m, dt = prove(K["op"](K["pre"](a) if car == "val" else a, K["pre"](b) if car == "val" else b) == C["op"](a, b), hy)
        add(f"L1.merge.{k}", st, f"component {k}: combine {kname!r} applied to two partial results of chunk {cname!r} equals the chunk operator on them", det, None if m is None else {"func": func, "component": k, "a": show(a, m), "b": show(b, m)}, dt)
        # simple_combine is the same fold
        if sname != kname and not (is_arg):
            add(f"L1.simple.{k}", VIOLATED, f"component {k}: simple_combine is numpy's {kname}", detail=f"simple_combine[{k}] is {sname}", model={"func": func, "component": k})
        else:
            add(f"L1.simple.{k}", DISCHARGED, f"component {k}: simple_combine[{k}] is numpy.{kname} (same fold as combine)")
        # L3 neutrality of the declared fill
        if cname in ("nanfirst", "nanlast") and idt.kind != "f":
            # no NaN exists in this dtype, so no fill can be skipped: dask_groupby_agg routes first/last of non-float data
            # to the grouped combine, which never inserts the fill (plan invariant, obligation C02.plan.firstlast_grouped)
            add(f"L3.fill.{k}", DISCHARGED, f"component {k}: fill of {cname!r} on dtype {idt} is never combined (non-float first/last use the grouped combine; see C02.plan.firstlast_grouped)")
            continue
        fterm = const_of(car, fill, idt)
        if fterm is None:
            add(f"L3.fill.{k}", ERROR, f"component {k}: fill {fill!r} representable", detail="cannot encode fill")
            continue
        pre = (lambda x: K["pre"](x)) if car == "val" else (lambda x: x)
        st, det, m, dt = prove(z3.And(K["op"](pre(a), pre(fterm)) == a, K["op"](pre(fterm), pre(a)) == a), [dom[0], rngs[0]])
        add(f"L3.fill.{k}", st, f"component {k}: the declared intermediate fill {fill!r} is neutral for combine {kname!r} on every possible chunk result (dtype {idt})", det, None if m is None else {"func": func, "component": k, "a": show(a, m), "fill": repr(fill)}, dt)
        # a group present only as NaN (float data): its chunk result is absorbed
        if C["allnan"] is not None and np.dtype(in_dtype).kind == "f":
            an = C["allnan"](fterm)
            if cname.startswith("nan"):
                st, det, m, dt = prove(K["op"](pre(a), pre(an)) == a, [dom[0], rngs[0]])
                add(f"L3.allnan.{k}", st, f"component {k}: the chunk result of a group present only as NaN is absorbed by the combine", det, None if m is None else {"func": func, "component": k, "a": show(a, m)}, dt)
    if is_arg:
        obs.extend(arg_obligations(func, agg, tag))
    # L5: the count monoid appended for min_count
    if min_count > 0:
        ok = chunk[-1] == "nanlen" and combine[-1] == "sum" and fills[-1] == 0 and np.dtype(idts[-1]) == np.dtype(np.intp) and agg.min_count == min_count
        obs.append(Obligation(name=f"{tag}.L5.count", function=FUNCTION, status=DISCHARGED if ok else VIOLATED, backend="z3", formula="min_count > 0 appends (nanlen, sum, fill 0, intp) and records min_count", detail="" if ok else f"tail is ({chunk[-1]}, {combine[-1]}, {fills[-1]}, {idts[-1]}), min_count={agg.min_count}", model=None if ok else {"func": func, "why": "count component"}))
    return obs


def arg_obligations(func, agg, tag):
    """arg-reductions: chunk = (ext, argext) on a block gives (value, global index of its first occurrence);
    combine = (ext, argext) re-run on the concatenated partial pairs in block order.  Law on pairs (v, i):
    op((v1,i1),(v2,i2)) = (v1,i1) if v1 'beats or ties' v2 else (v2,i2)  — left-biased, with i1 < i2."""
    obs = []
    is_max = "max" in func
    want_chunk = (("nanmax" if func.startswith("nan") else "max"), ("nanargmax" if func.startswith("nan") else "argmax")) if is_max else (("nanmin" if func.startswith("nan") else "min"), ("nanargmin" if func.startswith("nan") else "argmin"))
    want_comb = ("max", "argmax") if is_max else ("min", "argmin")
    ok = tuple(agg.chunk[:2]) == want_chunk and tuple(agg.combine[:2]) == want_comb
    obs.append(Obligation(name=f"{tag}.L1.argpair", function=FUNCTION, status=DISCHARGED if ok else VIOLATED, backend="z3", formula=f"arg-reduction blueprint pairs the extreme with its arg in this order: chunk={want_chunk}, combine={want_comb}", detail="" if ok else f"chunk={agg.chunk[:2]} combine={agg.combine[:2]}", model=None if ok else {"func": func, "why": "pair order"}))
    v1, v2, v3 = z3.Const("v1", Val), z3.Const("v2", Val), z3.Const("v3", Val)
    i1, i2, i3 = z3.Ints("i1 i2 i3")
    better = (lambda x, y: v_le(y, x)) if is_max else (lambda x, y: v_le(x, y))  # x beats or ties y

    def op(p, q):
        (va, ia), (vb, ib) = p, q
        take_a = better(va, vb)
        return (z3.If(take_a, va, vb), z3.If(take_a, ia, ib))

    nn = [z3.Not(is_nan(v)) for v in (v1, v2, v3)]
    l = op(op((v1, i1), (v2, i2)), (v3, i3))
    r = op((v1, i1), op((v2, i2), (v3, i3)))
    st, det, m, dt = prove(z3.And(l[0] == r[0], l[1] == r[1]), nn + [i1 < i2, i2 < i3])
    obs.append(Obligation(name=f"{tag}.L2.argassoc", function=FUNCTION, status=st, backend="z3", seconds=dt, formula="left-biased (value, index) combine is associative on NaN-free partial extremes with increasing indices", detail=det))
    # first occurrence: on ties the left (earlier block, smaller index) pair wins
    res = op((v1, i1), (v2, i2))
    st, det, m, dt = prove(z3.Implies(v1 == v2, res[1] == i1), nn[:2] + [i1 < i2])
    obs.append(Obligation(name=f"{tag}.L2.argfirst", function=FUNCTION, status=st, backend="z3", seconds=dt, formula="among equal partial extremes the pair from the earlier block (smaller global index) is kept", detail=det))
    # fill: (NINF/INF, 0) must lose against every real pair
    f0 = const_of("val", agg.fill_value["intermediate"][0])
    if f0 is not None:
        resf = op((v1, i1), (f0, z3.IntVal(0)))
        resg = op((f0, z3.IntVal(0)), (v1, i1))
        dom = []
        idt = np.dtype(agg.dtype["intermediate"][0])
        if idt.kind in "iu":
            dom = [dtype_domain(idt, v1)]
        # a real extreme equal to the fill (e.g. -inf itself) ties: then the value is right and the index of the left wins;
        # neutrality is required for the VALUE, and for the index whenever the real extreme differs from the fill
        st, det, m, dt = prove(z3.And(resf[0] == v1, resg[0] == v1, z3.Implies(v1 != f0, z3.And(resf[1] == i1, resg[1] == i1))), nn[:1] + dom)
        obs.append(Obligation(name=f"{tag}.L3.argfill", function=FUNCTION, status=st, backend="z3", seconds=dt, formula=f"the declared fill pair ({agg.fill_value['intermediate'][0]!r}, 0) never beats a real (value, index) pair", detail=det, model=None if m is None else {"func": func, "v": show(v1, m)}))
    return obs


def _num(x):
    return {"inf": float("inf"), "-inf": float("-inf"), "nan": float("nan")}.get(x, None) if isinstance(x, str) and x in ("inf", "-inf", "nan") else float(eval(x.replace("/", "/ ")) if isinstance(x, str) else x)


def replay_model(model, dtype):
    """A counter-model (a[, b[, c]]) of an algebraic law becomes a 2- or 3-block input of the real groupby_reduce:
    the values are the members of one group, one per block (plus one block where the group is absent)."""
    from ..rtc.reduce_case import check_case, check_chunked_vs_eager, enc

    func = model["func"]
    vals = [_num(model[k]) for k in ("a", "b", "c") if k in model]
    dt = "float64" if dtype.startswith("float") or any(v != v or v in (float("inf"), float("-inf")) for v in vals) else dtype
    arr = []
    labs = []
    for v in vals:
        arr.append(v)
        labs.append(5)
    arr.append(7.0)  # a block holding only another group: group 5 is absent there and gets the intermediate fill
    labs.append(15)
    a = np.array(arr, dtype="float64").astype(dt)
    for method, reindex in (("map-reduce", True), ("map-reduce", False), ("cohorts", None)):
        case = dict(array=enc(a), by=[enc(np.array(labs))], func=func, chunks=[[1] * len(arr)], method=method, reindex=reindex, expected_groups=[[5, 15]], engine="numpy", split_every=2)
        if func in ("var", "nanvar", "std", "nanstd"):
            case["finalize_kwargs"] = {"ddof": 0}
        r = check_case(case, refusal_ok=True) or check_chunked_vs_eager(case)
        if r is not None:
            return r
    return None


CONFIG_DTYPES = ["float64", "float32", "int64", "int8", "uint8", "bool"]


def run(ctx):
    import warnings

    from flox.aggregations import AGGREGATIONS, Aggregation, _initialize_aggregation

    t0 = time.time()
    n = 0
    names = [k for k, v in AGGREGATIONS.items() if isinstance(v, Aggregation) and v.chunk != (None,)]
    for func in names:
        for dt in CONFIG_DTYPES:
            if func in ("all", "any") and dt != "bool":
                continue
            if dt == "bool" and func not in ("all", "any"):
                continue  # bool input is converted to int_ before the blueprint is built
            for mc in (0, 1):
                try:
                    with warnings.catch_warnings():
                        warnings.simplefilter("ignore")
                        fk = {"ddof": 1} if ("var" in func or "std" in func) else None
                        agg = _initialize_aggregation(func, None, np.dtype(dt), None, mc, fk)
                except Exception as e:
                    ctx.add_obligations([Obligation(name=f"C04.{func}.{dt}.mc{mc}.init", function=FUNCTION, status=ERROR, backend="python", formula="_initialize_aggregation returns a blueprint", detail=f"{type(e).__name__}: {e}")])
                    continue
                obs = blueprint_obligations(func, dt, mc, agg)
                n += len(obs)
                ctx.add_obligations(obs)
    # counter-models are replayed through the real groupby_reduce on a 2-block array
    for o in ctx.obligations:
        if o.status == VIOLATED and isinstance(o.model, dict) and "a" in o.model and o.name.startswith("C04."):
            try:
                bad = replay_model(o.model, o.name.split(".")[2])
            except Exception as e:
                bad = None
                o.detail += f" | replay failed: {type(e).__name__}: {e}"
            if bad:
                o.replayed = True
                o.model = {**o.model, "case": bad["case"]}
                o.detail += " | replayed on flox.groupby_reduce: " + bad["why"][:300]
            elif bad is not None or True:
                o.detail += " | replay through groupby_reduce did not fail" if not bad else ""
    # L4: finalizers, by PyVC on their real source
    from . import c04_finalizers

    n += c04_finalizers.run(ctx)
    ctx.under_contract("flox.aggregations._initialize_aggregation", "proved")
    ctx.under_contract("flox.aggregations (registry blueprints, lines 292-574)", "proved")
    ctx.assume("SEM: the meaning of the reduction names (sum, nansum, max, nanmax, nanlen, ...) is NumPy's definition on extended reals; engine kernels are tied to SEM by C01's obligations / bounded checks")
    ctx.assume("integer accumulators are mathematical integers (64-bit overflow not modelled)")
    ctx.trust("numpy.sum/prod/max/min/nanmax/nanmin/all/any as folds of the named operator (simple_combine)")
    return f"registry algebra: {n} obligations over {len(names)} decomposable aggregations x {len(CONFIG_DTYPES)} dtype classes x min_count in {{0,1}} (z3, quantifier-free over Val / integers) in {time.time() - t0:.1f}s."
