def run(ctx):
    from . import kernel_proofs

    return kernel_proofs.run(ctx, ["nanmax", "nanmin", "grouped_max_nosize"], "C20")
