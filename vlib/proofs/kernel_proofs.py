"""Kernel obligations (C01, C20): PyVC on _prepare_for_flox, _np_grouped_op, _nan_grouped_op of flox/aggregate_flox.py."""

from __future__ import annotations


def run(ctx, which, pid):
    from ..contracts import kernels as K
    from ..pyvc.run import add_to_ctx

    n = 0
    for name in which:
        c = K.CONTRACTS[name]()
        c.prefix = pid + c.prefix[3:]
        c.search = K.search_kernels()
        ex, obs = add_to_ctx(ctx, c, K.NAN_CALLEES)
        n += len(obs)
    ctx.assume("1-D arrays stand for the last axis of n-D arrays: the kernels index leading axes only through `...` (ellipsis parametricity, DESIGN §2.3(4))")
    ctx.assume("RUN_MEMBER (for a sorted code array the runs between flagged starts are exactly the groups' members, in original order after a stable sort) is used as the reading of the kernel postconditions; it is not mechanised")
    from ..pyvc import conformance
    from . import finalize_proofs

    finalize_proofs._patch()
    from ..contracts import npgwrap as N

    for c, callees in N.all_npgwrap():
        c.prefix = pid + c.prefix[3:]
        ex, obs = add_to_ctx(ctx, c, callees)
        n += len(obs)
    if pid == "C20":
        import vlib.pyvc.prims as P

        from ..contracts import numbaggwrap as NB

        for c, callees, models in NB.all_numbaggwrap():
            c.prefix = pid + c.prefix[3:]
            orig = P.Prims.register_defaults

            def reg(self, orig=orig, models=models):
                orig(self)
                models(self)

            P.Prims.register_defaults = reg
            try:
                ex, obs = add_to_ctx(ctx, c, callees)
            finally:
                P.Prims.register_defaults = orig
            n += len(obs)
    conformance.add_to_ctx(ctx, ["argsort", "nonzero", "reduceat"])
    return f"flox-engine kernels and the numpy_groupies nansum/nanprod wrappers (exactly NaN is replaced by the neutral element, infinities stay): {n} obligations from {', '.join(which)}."
