def run(ctx):
    """C09.choose: 'blockwise' is chosen only when the planner said so or the user asked; arg-reductions never get blockwise.
    C09.block_selection: _normalize_indexes selects exactly the requested blocks of a one-axis block grid, ascending."""
    from . import plan_proofs, tree_proofs

    return plan_proofs.run(ctx, which=("choose_method",), pid="C09") + " " + tree_proofs.run(ctx, "C09") + " " + normalize_indexes(ctx, "C09")


def normalize_indexes(ctx, pid):
    import vlib.pyvc.prims as P

    from ..contracts import normindex as K
    from ..pyvc.run import add_to_ctx

    orig = P.Prims.register_defaults

    def reg(self):
        orig(self)
        K.register_models(self)

    n = 0
    P.Prims.register_defaults = reg
    try:
        for c, callees in K.all_normalize():
            c.prefix = pid + c.prefix[3:]
            ex, obs = add_to_ctx(ctx, c, callees)
            n += len(obs)
    finally:
        P.Prims.register_defaults = orig
    return (f"_normalize_indexes (one label axis of B blocks, B and the request symbolic; data of rank 1 / 2): {n} obligations: one indexer per axis, leading axes whole, the label-axis indexer - integer, slice or "
            "open mesh, whichever branch - selects exactly the requested blocks, each once, ascending; slice bounds are None only where None means the same bound.")
