def run(ctx):
    """C09.choose: 'blockwise' is chosen only when the planner said so or the user asked; arg-reductions never get blockwise."""
    from . import plan_proofs

    from . import tree_proofs

    return plan_proofs.run(ctx, which=("choose_method",), pid="C09") + " " + tree_proofs.run(ctx, "C09")
