def run(ctx):
    from . import factorize_proofs

    return factorize_proofs.run(ctx, ["range", "factorize", "convert"])
