def run(ctx):
    from . import plan_proofs

    return plan_proofs.run(ctx)
