def run(ctx):
    from . import plan_proofs, validate_proofs

    return plan_proofs.run(ctx) + " " + validate_proofs.run(ctx, "C19")
