def run(ctx):
    from . import c12_proofs, plan_proofs, validate_proofs

    return plan_proofs.run(ctx) + " " + validate_proofs.run(ctx, "C19") + c12_proofs.run_plan_obligations(ctx, "C19")
