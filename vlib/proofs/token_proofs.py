"""T-site obligations for C14 (token coverage), read from the AST of the working tree."""

from __future__ import annotations

import os

from ..core import DISCHARGED, ERROR, REPO, VIOLATED, Obligation


def run(ctx, pid="C14"):
    from ..contracts import tokens as T
    from ..framecheck import tokens as tk

    repo = os.environ.get("VERIF_REPO", REPO)
    obs = []
    try:
        tok, assigned = tk.tokenize_fields(repo)
    except Exception as e:
        tok, assigned = None, {}
        obs.append(Obligation(name=f"{pid}.T1.extract", function="flox.aggregations.Aggregation.__dask_tokenize__", status=ERROR, backend="framecheck", formula="read __dask_tokenize__", detail=str(e)))
    if tok is None:
        obs.append(Obligation(name=f"{pid}.T1.tokenize_exists", function="flox.aggregations.Aggregation.__dask_tokenize__", status=VIOLATED, backend="framecheck-syntactic", kind="frame", formula="Aggregation defines __dask_tokenize__ returning a tuple of its fields", detail="not found", model={"why": "no __dask_tokenize__"}))
    else:
        for attr, line in sorted(assigned.items()):
            ok = attr in tok or attr in T.DERIVED_AGG_FIELDS
            obs.append(Obligation(
                name=f"{pid}.T1.field.{attr}", function="flox.aggregations.Aggregation.__dask_tokenize__", status=DISCHARGED if ok else VIOLATED, backend="framecheck-syntactic", kind="frame",
                formula=f"attribute `{attr}` (assigned at line {line}) is an ingredient of Aggregation.__dask_tokenize__ or derived from ingredients",
                detail=("in the token" if attr in tok else f"derived: {T.DERIVED_AGG_FIELDS.get(attr)}") if ok else "an attribute that shapes task behaviour is not covered by the content token: two blueprints differing only in it get the same layer names",
                model=None if ok else {"field": attr, "line": line},
            ))
    for o in tk.analyse(repo, T.LAYER_CONTRACTS):
        st = ERROR if o["ok"] is None else (DISCHARGED if o["ok"] else VIOLATED)
        obs.append(Obligation(name=f"{pid}.{o['name']}", function=f"flox.{o['function']}", status=st, backend="framecheck-syntactic", kind="frame", formula=o["text"], detail=o["detail"], model=o["model"]))
    ctx.add_obligations(obs)
    # replay violated token obligations with the co-computation contract of the bounded part
    if any(o.status == VIOLATED for o in obs):
        from ..props import C14

        hit = None
        for c in C14.cocompute_cases(ctx):
            try:
                r = C14.check_cocompute(c)
            except Exception:
                r = None
            if r is not None:
                hit = r
                break
        for o in obs:
            if o.status == VIOLATED and hit is not None:
                o.replayed = True
                o.model = {**(o.model or {}), "case": hit["case"]}
                o.detail += " | confirmed on the real code: " + hit["why"][:300]
    for c in T.LAYER_CONTRACTS:
        for p, why in c.get("irrelevant", {}).items():
            ctx.assume(f"token coverage, {c['func']}: parameter `{p}` not in the token: {why}")
    ctx.assume("dask.base.tokenize is injective and deterministic on its arguments; dask's own layers tokenize their callables and arguments")
    return f"token coverage: {len(obs)} obligations (T1 fields of Aggregation.__dask_tokenize__, T2 content-derived layer names, T3 payload coverage)."
