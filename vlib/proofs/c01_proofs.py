def run(ctx):
    from . import chunkreduce_proofs, kernel_proofs, validate_proofs

    return kernel_proofs.run(ctx, ["prepare", "grouped_sum_size", "grouped_max_nosize", "nanmax", "nanmin"], "C01") + " " + validate_proofs.run(ctx, "C01", which=("engine",)) + " " + chunkreduce_proofs.run(ctx, "C01")
