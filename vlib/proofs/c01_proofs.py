def run(ctx):
    from . import chunkreduce_proofs, kernel_proofs, validate_proofs

    return (kernel_proofs.run(ctx, ["prepare", "grouped_sum_size", "grouped_max_nosize", "nanmax", "nanmin"], "C01") + " " + validate_proofs.run(ctx, "C01", which=("engine",)) + " "
            + chunkreduce_proofs.run(ctx, "C01") + _reduce_blockwise(ctx))


def _reduce_blockwise(ctx):
    import vlib.pyvc.prims as P

    from ..contracts import reduceblockwise as K
    from ..pyvc.run import add_to_ctx

    n = 0
    for c, callees, models in K.all_reduce_blockwise():
        orig = P.Prims.register_defaults

        def reg(self, orig=orig, models=models):
            orig(self)
            models(self)

        P.Prims.register_defaults = reg
        try:
            ex, obs = add_to_ctx(ctx, c, callees)
        finally:
            P.Prims.register_defaults = orig
        n += len(obs)
    return (f" _reduce_blockwise (ordinary / arg-reduction): {n} obligations: chunk_reduce gets the numpy blueprint of the aggregation and the caller's axis, groups, engine, sort; finalize is switched off "
            "before finalizing; flat arg positions are unravelled against the array's shape and the coordinate along the last axis kept; what _finalize_results returns is returned.")
