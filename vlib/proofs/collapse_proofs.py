"""_collapse_blocks_along_axes obligations (C08.collapse; also serves C11's announced-vs-computed chunks)."""

from __future__ import annotations


def run(ctx, pid="C08"):
    import vlib.pyvc.prims as P

    from ..contracts import collapse as K
    from ..pyvc.run import add_to_ctx
    from . import finalize_proofs

    finalize_proofs._patch()
    n = 0
    for c in K.all_collapse():
        c.prefix = pid + c.prefix[3:]
        orig = P.Prims.register_defaults

        def reg(self, orig=orig):
            orig(self)
            K.register_models(self)

        P.Prims.register_defaults = reg
        try:
            ex, obs = add_to_ctx(ctx, c, {})
        finally:
            P.Prims.register_defaults = orig
        n += len(obs)
    from ..pyvc import conformance

    conformance.add_to_ctx(ctx, ["unravel_index"])
    return (f"_collapse_blocks_along_axes (2 and 3 reduced axes, 0 and 1 kept dimensions, symbolic block counts): {n} obligations: rank preserved (one unit axis per reduced axis but the last), "
            "kept chunks passed through, every key written reads an existing block of the input.")
