"""scan_binary_op / concatenate obligations (C10.binop, C03.scan)."""

from __future__ import annotations


def run(ctx, pid):
    from ..contracts import scan as S
    from ..pyvc.run import add_to_ctx
    from . import finalize_proofs

    finalize_proofs._patch()
    n = 0
    for c in S.all_scan():
        c.prefix = pid + c.prefix[3:]
        ex, obs = add_to_ctx(ctx, c, S.SCAN_CALLEES)
        n += len(obs)
    from ..pyvc import conformance

    conformance.add_to_ctx(ctx, ["AlignedArrays.last", "generic_aggregate", "get_indexer"])
    return (f"scan_binary_op (both modes, right operand a reduced or a scanned block) and concatenate: {n} obligations "
            "(result = right block combined with the carried value of its own group only; carried state = last valid value per code of left ++ result; "
            "result handed on iff the right operand is a scanned block).")
