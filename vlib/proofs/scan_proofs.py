"""scan_binary_op / concatenate obligations (C10.binop, C03.scan)."""

from __future__ import annotations


def _state_algebra(ctx, pid):
    """Spec-level lemmas that lift the per-call contract of scan_binary_op to independence of the bracketing:
    the carried state is a map code -> optional value, and one step combines pointwise with
       ffill     :  step(x, y) = y if y is a valid value else x                       (x, y optional values; absent behaves like NaN)
       nancumsum :  step(x, y) = x + y, absent = identity 0                            (finite values: nancumsum intermediates are never NaN)
    Both are associative with the absent state as identity, so any bracketing of the blocks gives the same carried state."""
    import z3

    from ..core import DISCHARGED, UNDECIDED, VIOLATED, Obligation
    from ..pyvc import valsort as V

    out = []

    def prove(name, goal, text):
        s = z3.Solver()
        s.set("timeout", 10000)
        s.add(z3.Not(goal))
        r = s.check()
        out.append(Obligation(name=f"{pid}.scan_state.{name}", function="lemma (spec level) over the contract of scan_binary_op", status=DISCHARGED if r == z3.unsat else (VIOLATED if r == z3.sat else UNDECIDED),
                              backend="z3", formula=text, detail="" if r == z3.unsat else str(s.model() if r == z3.sat else s.reason_unknown())[:300]))

    a, b, c = z3.Consts("a b c", V.Val)
    lv = lambda x, y: z3.If(V.is_nan(y), x, y)  # last valid value (absent / NaN carries nothing)
    prove("last_valid.associative", lv(a, lv(b, c)) == lv(lv(a, b), c), "forall a b c: lastvalid(a, lastvalid(b, c)) == lastvalid(lastvalid(a, b), c)")
    prove("last_valid.identity", z3.And(lv(V.nan, a) == a, z3.Implies(z3.Not(V.is_nan(a)), lv(a, V.nan) == a)), "NaN / absent is the identity of lastvalid")
    x, y, z = z3.Reals("x y z")
    prove("add.associative_on_finite_values", z3.And((x + y) + z == x + (y + z), x + 0 == x, 0 + x == x), "finite reals: (x + y) + z == x + (y + z), 0 is the identity (mixing +inf and -inf is known finding F17)")
    ctx.add_obligations(out)
    return len(out)


def run(ctx, pid):
    from ..contracts import scan as S
    from ..pyvc.run import add_to_ctx
    from . import finalize_proofs

    finalize_proofs._patch()
    n = 0
    for c in S.all_scan():
        c.prefix = pid + c.prefix[3:]
        ex, obs = add_to_ctx(ctx, c, S.SCAN_CALLEES)
        n += len(obs)
    n += _state_algebra(ctx, pid)
    # the glue around the operator: _zip, chunk_scan, grouped_reduce, _finalize_scan and the wiring in dask_groupby_scan
    import vlib.pyvc.prims as P

    for c, callees in S.all_scan_glue():
        c.prefix = pid + c.prefix[3:]
        ex, obs = add_to_ctx(ctx, c, callees)
        n += len(obs)
    if pid == "C10":
        from ..contracts import kernels as K

        c, callees = K.ffill_contract()
        ex, obs = add_to_ctx(ctx, c, callees)
        n += len(obs)
        c, callees, argsort_model = K.ffill_unsorted_contract()
        orig0 = P.Prims.register_defaults

        def reg0(self, orig0=orig0):
            orig0(self)
            self.register("numpy.argsort", argsort_model)

        P.Prims.register_defaults = reg0
        try:
            ex, obs = add_to_ctx(ctx, c, callees)
        finally:
            P.Prims.register_defaults = orig0
        n += len(obs)
    c, callees, models = S.dask_groupby_scan_contract()
    c.prefix = pid + c.prefix[3:]
    orig = P.Prims.register_defaults

    def reg(self, orig=orig):
        orig(self)
        models(self)

    P.Prims.register_defaults = reg
    try:
        ex, obs = add_to_ctx(ctx, c, callees)
    finally:
        P.Prims.register_defaults = orig
    n += len(obs)
    from ..pyvc import conformance

    conformance.add_to_ctx(ctx, ["AlignedArrays.last", "generic_aggregate", "get_indexer"])
    return (f"scan_binary_op (both modes, right operand a reduced or a scanned block) and concatenate: {n} obligations "
            "(result = right block combined with the carried value of its own group only; carried state = last valid value per code of left ++ result; "
            "result handed on iff the right operand is a scanned block); "
            "glue: _zip / chunk_scan / grouped_reduce / _finalize_scan field and argument wiring, dask_groupby_scan protocol (codes first, blueprint handed to all three callables, blelloch prefix over the zipped blocks); the forward-fill kernel aggregate_flox.ffill, for sorted codes and for codes in any order (running-maximum source index: in range, valid or a run start, in the same run, everything after it masked; stable permutation pairwise order-preserving; argsort of the permutation is its inverse; eleven induction lemmas, permutation facts hidden while the sorted kernel is treated), meets the grouped forward-fill specification that scan_binary_op assumes of it.")
