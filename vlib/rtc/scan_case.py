"""Run-time contract of flox.core.groupby_scan: each group's positions hold the NumPy scan of its members."""

from __future__ import annotations

import warnings

import numpy as np

from .reduce_case import ALLOWED_EXC, _isnull_scalar, _num_equal, dec, isnull_arr


def build_scan(case):
    arr = dec(case["array"])
    by = dec(case["by"][0])
    if case.get("chunks") is not None:
        import dask.array as da

        arr = da.from_array(arr, chunks=tuple(tuple(c) for c in case["chunks"]))
    if case.get("by_chunks") is not None:
        import dask.array as da

        by = da.from_array(by, chunks=tuple(tuple(c) for c in case["by_chunks"][0]))
    kw = {"func": case["func"]}
    if case.get("axis") is not None:
        kw["axis"] = case["axis"]
    if case.get("dtype") is not None:
        kw["dtype"] = case["dtype"]
    return arr, by, kw


def run_scan(case, compute=True, scheduler="sync"):
    import dask

    from flox.core import groupby_scan

    arr, by, kw = build_scan(case)
    out = {"ok": False}
    try:
        with warnings.catch_warnings():
            warnings.simplefilter("ignore")
            res = groupby_scan(arr, by, **kw)
            out["is_lazy"] = hasattr(res, "dask")
            if out["is_lazy"]:
                out["lazy"] = {"dtype": str(res.dtype), "shape": list(res.shape), "chunks": [list(c) for c in res.chunks]}
                out["lazy_obj"] = res
                if compute:
                    res = res.compute(scheduler=scheduler)
            out["result"] = np.asarray(res) if compute or not out["is_lazy"] else None
            out["ok"] = True
    except Exception as e:
        out["exc_type"] = type(e).__name__
        out["exc_msg"] = str(e)[:300]
    return out


def scan_oracle(case):
    """Per-group sequential NumPy scan along the last axis (labels 1-D along that axis, or broadcastable)."""
    arr = dec(case["array"])
    by = dec(case["by"][0])
    func = case["func"]
    axis = case.get("axis", -1)
    if axis is None:
        axis = -1
    A = np.moveaxis(arr, axis, -1)
    B = np.broadcast_to(by, arr.shape[-by.ndim :]) if by.ndim <= arr.ndim else by
    B = np.broadcast_to(B, arr.shape)
    B = np.moveaxis(B, axis, -1)
    if func == "nancumsum":
        if arr.dtype.kind == "b":
            odt = np.result_type(np.int8, np.int_)
        elif arr.dtype.kind == "i":
            odt = np.result_type(arr.dtype, np.int_)
        elif arr.dtype.kind == "u":
            odt = np.result_type(arr.dtype, np.uint)
        else:
            odt = arr.dtype
        if case.get("dtype") is not None:
            odt = np.dtype(case["dtype"])
    else:
        odt = arr.dtype
    out = np.empty(A.shape, dtype=odt)
    dontcare = np.zeros(A.shape, dtype=bool)
    for k in np.ndindex(*A.shape[:-1]):
        row = A[k]
        labs = B[k]
        null = isnull_arr(np.asarray(labs))
        out[k] = row.astype(odt) if func != "nancumsum" else 0
        for lab in {x for x, n in zip(labs.tolist(), null.tolist()) if not n}:
            pos = np.nonzero((labs == lab))[0]
            m = row[pos]
            if func == "nancumsum":
                with np.errstate(all="ignore"):
                    out[k][pos] = np.nancumsum(m.astype(odt) if m.dtype.kind != "f" else m).astype(odt)
            else:
                mm = m.copy()
                isn = isnull_arr(mm)
                if func == "ffill":
                    last = None
                    for i in range(mm.size):
                        if isn[i]:
                            if last is not None:
                                mm[i] = mm[last]
                        else:
                            last = i
                else:
                    nxt = None
                    for i in range(mm.size - 1, -1, -1):
                        if isn[i]:
                            if nxt is not None:
                                mm[i] = mm[nxt]
                        else:
                            nxt = i
                out[k][pos] = mm
        # positions with a missing label: not part of any group
        dontcare[k][null] = True
    return {"result": np.moveaxis(out, -1, axis), "dontcare": np.moveaxis(dontcare, -1, axis), "dtype": odt}


def scan_sig(case):
    return {
        "func": case["func"],
        "chunked": case.get("chunks") is not None,
        "by_dask": case.get("by_chunks") is not None,
        "dtype_in": case["array"]["dtype"],
        "has_nan": "nan" in case["array"]["data"],
        "has_inf": ("inf" in case["array"]["data"]) or ("-inf" in case["array"]["data"]),
    }


def check_scan(case, refusal_ok=True, check_dtype=True):
    sig = scan_sig(case)
    got = run_scan(case)
    if not got["ok"]:
        sig["exc_type"] = got["exc_type"]
        if refusal_ok and got["exc_type"] in ALLOWED_EXC:
            return None
        return {"case": case, "why": f"raised {got['exc_type']}: {got['exc_msg']}", "sig": sig}
    if case.get("chunks") is not None and not got.get("is_lazy"):
        return {"case": case, "why": "chunked input but the result is not lazy", "sig": sig}
    try:
        spec = scan_oracle(case)
    except Exception as e:
        return {"case": case, "why": f"ORACLE-ERROR {type(e).__name__}: {e}", "sig": sig, "checker_error": True}
    res = got["result"]
    if res.shape != spec["result"].shape:
        return {"case": case, "why": f"shape {res.shape} != {spec['result'].shape}", "sig": sig}
    for idx in np.ndindex(*res.shape):
        if spec["dontcare"][idx]:
            continue
        if not _num_equal(res[idx], spec["result"][idx], exact=res.dtype.kind in "iubMm", rtol=1e-9):
            return {"case": case, "why": f"value at {idx}: got {res[idx]!r} spec {spec['result'][idx]!r} (got={res.tolist()} spec={spec['result'].tolist()})", "sig": sig}
    if check_dtype and res.dtype != spec["dtype"]:
        return {"case": case, "why": f"dtype {res.dtype} != spec {spec['dtype']}", "sig": sig}
    return None
