"""An in-check evaluator for dask graphs (topological orders, purity instrumentation, dependency closures).

It runs the *real* tasks of the graphs flox builds; the dask execution model it assumes is
"a task is applied to the values of its dependency keys" (DESIGN.md §5 C03/C13).
"""

from __future__ import annotations

import dataclasses
import hashlib

import numpy as np


def materialize(collection, optimize=False):
    import dask
    from dask._task_spec import convert_legacy_graph
    from dask.core import flatten

    if optimize:
        (collection,) = dask.optimize(collection)
    dsk = dict(collection.__dask_graph__())
    g = convert_legacy_graph(dsk)
    keys = list(flatten(collection.__dask_keys__()))
    return g, keys


def closure(g, key):
    seen = set()
    stack = [key]
    while stack:
        k = stack.pop()
        if k in seen:
            continue
        seen.add(k)
        stack.extend(g[k].dependencies)
    return seen


def _walk_arrays(x, fn):
    if isinstance(x, np.ndarray):
        fn(x)
    elif isinstance(x, dict):
        for v in x.values():
            _walk_arrays(v, fn)
    elif isinstance(x, (list, tuple)):
        for v in x:
            _walk_arrays(v, fn)
    elif dataclasses.is_dataclass(x) and not isinstance(x, type):
        for f in dataclasses.fields(x):
            _walk_arrays(getattr(x, f.name), fn)


def fingerprint(x) -> str:
    h = hashlib.sha1()

    def rec(v):
        if isinstance(v, np.ndarray):
            h.update(str(v.dtype).encode() + str(v.shape).encode())
            if v.dtype.kind == "O":
                h.update(repr(v.tolist()).encode())
            else:
                h.update(np.ascontiguousarray(v).tobytes())
        elif isinstance(v, dict):
            for k in v:
                h.update(repr(k).encode())
                rec(v[k])
        elif isinstance(v, (list, tuple)):
            h.update(b"[")
            for e in v:
                rec(e)
            h.update(b"]")
        elif dataclasses.is_dataclass(v) and not isinstance(v, type):
            for f in dataclasses.fields(v):
                h.update(f.name.encode())
                rec(getattr(v, f.name))
        else:
            try:
                import pandas as pd

                if isinstance(v, pd.Index):
                    h.update(repr(v.tolist()).encode() + str(v.dtype).encode())
                    return
            except Exception:
                pass
            h.update(repr(v).encode())

    rec(x)
    return h.hexdigest()


def freeze(x):
    """Make every ndarray reachable from x read-only; returns list of (array, old flag) to restore."""
    saved = []

    def fn(a):
        try:
            saved.append((a, a.flags.writeable))
            a.setflags(write=False)
        except ValueError:
            pass

    _walk_arrays(x, fn)
    return saved


def thaw(saved):
    for a, w in saved:
        try:
            a.setflags(write=w)
        except ValueError:
            pass


class TaskViolation(Exception):
    pass


def execute(g, keys, order="fifo", rng=None, instrument=False, pickle_roundtrip=False, stats=None):
    """Run the graph in a topological order chosen by `order`.  With instrument=True every task is run on
    read-only inputs, twice, and (optionally) once more after a cloudpickle round trip; any difference or any
    write to an input raises TaskViolation naming the task."""
    deps = {k: set(v.dependencies) for k, v in g.items()}
    rev = {}
    for k, d in deps.items():
        for x in d:
            rev.setdefault(x, []).append(k)
    pending = {k: set(d) for k, d in deps.items() if d}
    ready = sorted((k for k, d in deps.items() if not d), key=repr)
    done = {}
    while ready:
        if order == "fifo":
            k = ready.pop(0)
        elif order == "lifo":
            k = ready.pop()
        else:
            k = ready.pop(int(rng.integers(len(ready))))
        node = g[k]
        inputs = {d: done[d] for d in deps[k]}
        if instrument:
            fp0 = fingerprint(inputs)
            saved = freeze(inputs)
            try:
                try:
                    out1 = node(inputs)
                except ValueError as e:
                    if "read-only" in str(e):
                        raise TaskViolation(f"task {k!r} writes into one of its inputs: {e}")
                    raise
                try:
                    out2 = node(inputs)
                except ValueError as e:
                    if "read-only" in str(e):
                        raise TaskViolation(f"task {k!r} writes into one of its inputs on re-execution: {e}")
                    raise
                if fingerprint(inputs) != fp0:
                    raise TaskViolation(f"task {k!r} modified its inputs")
                if fingerprint(out1) != fingerprint(out2):
                    raise TaskViolation(f"task {k!r} returned a different value when executed again")
                if pickle_roundtrip:
                    import cloudpickle

                    node2 = cloudpickle.loads(cloudpickle.dumps(node))
                    out3 = node2(inputs)
                    if fingerprint(out3) != fingerprint(out1):
                        raise TaskViolation(f"task {k!r} behaves differently after a cloudpickle round trip")
                if stats is not None:
                    stats["tasks"] = stats.get("tasks", 0) + 1
            finally:
                thaw(saved)
            done[k] = out1
        else:
            done[k] = node(inputs)
        for c in rev.get(k, []):
            pending[c].discard(k)
            if not pending[c]:
                ready.append(c)
                del pending[c]
    if pending:
        raise RuntimeError("graph has a cycle or missing keys")
    return [done[k] for k in keys]


def assemble(collection, values):
    """Concatenate computed blocks (in key order) into one ndarray the way dask would."""
    import dask
    from dask.core import flatten

    keys = list(flatten(collection.__dask_keys__()))
    lookup = dict(zip(keys, values))
    import dask.array as da

    if isinstance(collection, da.Array):
        from dask.array.core import concatenate3

        def rec(ks):
            if isinstance(ks, list):
                return [rec(k) for k in ks]
            return np.asarray(lookup[ks])

        nested = rec(collection.__dask_keys__())
        return concatenate3(nested)
    return values
