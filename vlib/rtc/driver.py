"""Parallel evaluation of a run-time contract over an enumerated list of cases (bounded stand-in)."""

from __future__ import annotations

import hashlib
import json
import multiprocessing as mp
import os
import time
import traceback

from ..core import NCPU, BoundedPart, jsonable

_CHECKER = None


def _init(checker_path):
    global _CHECKER
    import importlib
    import warnings

    warnings.simplefilter("ignore")
    os.environ.setdefault("OMP_NUM_THREADS", "1")
    os.environ.setdefault("NUMBA_NUM_THREADS", "1")
    mod, fn = checker_path.rsplit(":", 1)
    _CHECKER = getattr(importlib.import_module(mod), fn)


def _work(case):
    try:
        return _CHECKER(case)
    except Exception as e:  # checker crash: reported as checker error, never as a violation
        return {"case": case, "why": f"CHECKER-CRASH {type(e).__name__}: {e} {traceback.format_exc()[-600:]}", "sig": {}, "checker_error": True}


def case_key(case) -> str:
    return hashlib.sha1(json.dumps(jsonable(case), sort_keys=True).encode()).hexdigest()


def run_bounded(ctx, name, function, cases, checker_path, bound, rule, nontrivial=None, exhaustive=False, procs=None, chunksize=8, extra=None):
    """checker_path: 'module:function' taking a case and returning None or a failure dict."""
    t0 = time.time()
    cases = list(cases)
    keys = set()
    uniq = []
    for c in cases:
        k = case_key(c)
        if k not in keys:
            keys.add(k)
            uniq.append(c)
    nt = sum(1 for c in uniq if (nontrivial(c) if nontrivial else True))
    part = BoundedPart(name=name, function=function, bound=bound, rule=rule, exhaustive=exhaustive, extra=extra or {})
    procs = procs or NCPU
    results = []
    if len(uniq) == 0:
        ctx.fail_checker(f"bounded part {name}: generator produced no cases")
    elif procs == 1 or len(uniq) < 8:
        _init(checker_path)
        results = [_work(c) for c in uniq]
    else:
        mpctx = mp.get_context("forkserver")
        with mpctx.Pool(procs, initializer=_init, initargs=(checker_path,)) as pool:
            results = pool.map(_work, uniq, chunksize=chunksize)
    part.evaluations = len(uniq)
    part.distinct_nontrivial = nt
    for r in results:
        if r is None:
            continue
        if r.get("checker_error"):
            ctx.fail_checker(f"bounded part {name}: {r['why'][:600]} on case {json.dumps(jsonable(r['case']))[:400]}")
            continue
        part.failures.append(r)
    part.samples = [{"part": name, "case": jsonable(c)} for c in uniq[:2]]
    part.seconds = time.time() - t0
    ctx.add_bounded(part)
    ctx.under_contract(function, "bounded")
    return part
